#!/usr/bin/env python3
"""Run checks against a seeded change: apply the patch to /repo, run the quick checks of the given
properties (evidence and replays go to work/seed-*), undo the patch. With SEED_REPO=<dir> the patch goes to
that checkout instead (development only, see labsetup.sh: a copy of /verif whose harness depends on a scratch
worktree, so that changes can be tried while a long run is using /repo). Prints which checks reported a
violation. Usage: seedtest.py <patch.diff> [C01 C02 ... | all]"""
import json
import os
import subprocess
import sys

ROOT = os.path.dirname(os.path.abspath(__file__))
REPO = os.environ.get("SEED_REPO", "/repo")
ALL = ["C%02d" % i for i in range(1, 21)]


def sh(cmd, **kw):
    return subprocess.run(cmd, shell=True, text=True, stdout=subprocess.PIPE, stderr=subprocess.STDOUT, **kw)


def main():
    patch = os.path.abspath(sys.argv[1])
    props = sys.argv[2:] or ["all"]
    if props == ["all"]:
        props = ALL
    tier = os.environ.get("SEED_TIER", "quick")
    if sh("git -C %s status --porcelain" % REPO).stdout.strip():
        print("refusing: %s is not clean" % REPO)
        return 2
    r = sh("git -C %s apply --whitespace=nowarn %s" % (REPO, patch))
    if r.returncode != 0:
        print("patch does not apply:", r.stdout)
        return 2
    env = dict(os.environ)
    env["VERIF_EVIDENCE_DIR"] = os.path.join(ROOT, "work", "seed-evidence")
    env["VERIF_REPLAYS_DIR"] = os.path.join(ROOT, "work", "seed-replays")
    result = {}
    try:
        for p in props:
            r = subprocess.run([os.path.join(ROOT, "check"), p, "--tier", tier], cwd=ROOT, env=env, text=True, stdout=subprocess.PIPE, stderr=subprocess.STDOUT)
            sigs = sorted({l.split("signature=")[1].split(" spec=")[0] for l in r.stdout.splitlines() if "signature=" in l})
            harness = [l for l in r.stdout.splitlines() if l.startswith("HARNESS-ERROR")]
            result[p] = {"exit": r.returncode, "violations": sigs[:8], "harness_errors": harness[:3], "last": r.stdout.strip().splitlines()[-1] if r.stdout.strip() else ""}
            print("%s exit=%d %s %s" % (p, r.returncode, "VIOLATION " + "; ".join(s[:90] for s in sigs[:3]) if sigs else "-", harness[:1]), flush=True)
    finally:
        sh("git -C %s checkout -- . && git -C %s clean -fdq -- src crates" % (REPO, REPO))
    print(json.dumps({"patch": patch, "caught_by": [p for p, v in result.items() if v["violations"]], "results": result}))
    return 0


if __name__ == "__main__":
    sys.exit(main())

#!/usr/bin/env python3
"""regress_seeds.py [--benign] [ids...]: run the stored seeded changes (seeded/<id>/patch.diff) against the quick
checks recorded as catching them in meta.json and report any that is no longer caught; with --benign, run the
stored property-preserving changes (benign/<id>/patch.diff) against all twenty quick checks and report any
alarm. Uses seedtest.py (so /repo, or SEED_REPO/lab copy, is patched and restored for every change)."""
import json, os, subprocess, sys

ROOT = os.path.dirname(os.path.abspath(__file__))
args = sys.argv[1:]
benign = "--benign" in args
ids = [a for a in args if not a.startswith("--")]
base = os.path.join(ROOT, "benign" if benign else "seeded")
todo = ids or sorted(d for d in os.listdir(base) if os.path.isfile(os.path.join(base, d, "patch.diff")))
bad = []
for d in todo:
    patch = os.path.join(base, d, "patch.diff")
    if benign:
        # BENIGN_PROPS=C10,C11 restricts the run to some checks (after a change to those checks only)
        props = os.environ["BENIGN_PROPS"].split(",") if os.environ.get("BENIGN_PROPS") else ["all"]
    else:
        meta = json.load(open(os.path.join(base, d, "meta.json")))
        props = meta["caught_by"] or [meta["property"]]
        if meta.get("tier") == "thorough" and "--with-thorough" not in args:
            # caught by a thorough-tier input only (see its meta.json): not part of the quick regression
            print(d, "skipped (thorough tier only)", flush=True)
            continue
    r = subprocess.run([os.path.join(ROOT, "seedtest.py"), patch] + props, text=True, stdout=subprocess.PIPE, stderr=subprocess.STDOUT)
    try:
        res = json.loads(r.stdout.strip().splitlines()[-1])
    except Exception:
        print(d, "ERROR", r.stdout[-300:], flush=True)
        bad.append(d)
        continue
    caught = res["caught_by"]
    harness = {p: v["harness_errors"] for p, v in res["results"].items() if v["harness_errors"]}
    if benign:
        nonzero = [p for p, v in res["results"].items() if v["exit"] != 0]
        ok = not caught and not nonzero
        print(d, "silent" if ok else "ALARM %s %s" % (caught, nonzero), harness or "", flush=True)
    else:
        missing = [p for p in props if p not in caught]
        ok = not missing
        print(d, "caught by %s" % caught if ok else "NO LONGER CAUGHT BY %s (caught by %s)" % (missing, caught), harness or "", flush=True)
    if not ok:
        bad.append(d)
print("done: %d run, %d problems %s" % (len(todo), len(bad), bad))
sys.exit(1 if bad else 0)

"""Property checks that need more than one drive/judge pass."""
import os
import shutil
import subprocess
import json


def c08(ck, prop, tier, seed, keep, t0, bt):
    """Determinism: the same workload is run by two independent sets of processes (different ASLR,
    different RandomState); the judge compares the bytes of run A with those of run B case by case,
    in addition to the in-process comparisons (second emit, shifted arena ids, fixpoint)."""
    drive = ck.bin_path("wv-drive")
    judge = ck.bin_path("wv-judge")
    wd = os.path.join(ck.WORK, "%s-%s" % (prop, tier))
    shutil.rmtree(wd, ignore_errors=True)
    os.makedirs(wd)
    n = ck.NCPU
    watchdog = 900 if tier == "quick" else 6 * 3600
    from concurrent.futures import ThreadPoolExecutor
    logs_a = [os.path.join(wd, "a%02d.log" % i) for i in range(n)]
    logs_b = [os.path.join(wd, "b%02d.log" % i) for i in range(n)]
    with ThreadPoolExecutor(max_workers=n) as ex:
        ca = list(ex.map(lambda i: ck.run_shard(drive, prop, tier, seed, i, n, logs_a[i], watchdog), range(n)))
    with ThreadPoolExecutor(max_workers=n) as ex:
        cb = list(ex.map(lambda i: ck.run_shard(drive, prop, tier, seed, i, n, logs_b[i], watchdog, ("--second-process", "1")), range(n)))
    reports = [os.path.join(wd, "judge%02d.json" % i) for i in range(n)]

    def j(i):
        cmd = [judge, "--prop", prop, "--log", logs_a[i], "--log2", logs_b[i], "--out", reports[i], "--replay-dir", ck.REPLAYS]
        r = subprocess.run(cmd, env=ck.ENV, stdout=subprocess.PIPE, stderr=subprocess.STDOUT)
        return None if r.returncode == 0 else "judge shard %d failed: %s" % (i, r.stdout.decode(errors="replace")[-400:])

    with ThreadPoolExecutor(max_workers=n) as ex:
        jerrs = [e for e in ex.map(j, range(n)) if e]
    merged = ck.merge_reports(reports)
    merged["harness_errors"] += jerrs
    merged["counters"]["driver_crashes"] = sum(ca) + sum(cb)
    merged["counters"]["build_s"] = int(bt)
    rc = ck.finish(prop, tier, seed, merged, t0)
    if not keep:
        shutil.rmtree(wd, ignore_errors=True)
    return rc


def c09(ck, prop, tier, seed, keep, t0, bt):
    """Serial flavour (reference) and parallel flavour (rayon pools of 1..16 threads x 5 delay patterns injected
    through the verif-hooks observation points) run the same workload; the judge compares case by case.
    Thorough adds ThreadSanitizer and Miri runs of the parallel paths (see sanitizers.py)."""
    from concurrent.futures import ThreadPoolExecutor
    tpar = os.path.join(ck.HARNESS, "target-par")
    bt2 = ck.build(features=("parallel", "hooks"), target_dir=tpar)
    drive_s = ck.bin_path("wv-drive")
    drive_p = ck.bin_path("wv-drive", target_dir=tpar)
    judge = ck.bin_path("wv-judge")
    wd = os.path.join(ck.WORK, "%s-%s" % (prop, tier))
    shutil.rmtree(wd, ignore_errors=True)
    os.makedirs(wd)
    n = ck.NCPU
    watchdog = 1800 if tier == "quick" else 6 * 3600
    logs_a = [os.path.join(wd, "serial%02d.log" % i) for i in range(n)]
    logs_b = [os.path.join(wd, "par%02d.log" % i) for i in range(n)]
    with ThreadPoolExecutor(max_workers=n) as ex:
        ca = list(ex.map(lambda i: ck.run_shard(drive_s, prop, tier, seed, i, n, logs_a[i], watchdog), range(n)))
    # the parallel flavour uses up to 16 threads per case itself: run 4 shards at a time
    with ThreadPoolExecutor(max_workers=4) as ex:
        cb = list(ex.map(lambda i: ck.run_shard(drive_p, prop, tier, seed, i, n, logs_b[i], watchdog), range(n)))
    reports = [os.path.join(wd, "judge%02d.json" % i) for i in range(n)]

    def j(i):
        cmd = [judge, "--prop", prop, "--log", logs_a[i], "--log2", logs_b[i], "--out", reports[i], "--replay-dir", ck.REPLAYS]
        r = subprocess.run(cmd, env=ck.ENV, stdout=subprocess.PIPE, stderr=subprocess.STDOUT)
        return None if r.returncode == 0 else "judge shard %d failed: %s" % (i, r.stdout.decode(errors="replace")[-400:])

    with ThreadPoolExecutor(max_workers=n) as ex:
        jerrs = [e for e in ex.map(j, range(n)) if e]
    merged = ck.merge_reports(reports)
    merged["harness_errors"] += jerrs
    merged["counters"]["driver_crashes"] = sum(ca) + sum(cb)
    merged["counters"]["build_s"] = int(bt + bt2)
    problems = []
    orders = merged["counters"].get("distinct-completion-orders(sum over inputs)", 0)
    cases = max(1, merged["cases"])
    if orders < 3 * cases:
        problems.append("schedule perturbation ineffective: only %d distinct completion orders over %d inputs" % (orders, cases))
    extra = {}
    if tier == "thorough":
        import sanitizers
        extra, sp, sv = sanitizers.run_c09(ck, seed, wd)
        problems += sp
        merged["violations"] += sv
    rc = ck.finish(prop, tier, seed, merged, t0, extra_cov=extra, harness_problems=problems)
    if not keep:
        shutil.rmtree(wd, ignore_errors=True)
    return rc


def c17(ck, prop, tier, seed, keep, t0, bt):
    """Standard run; thorough additionally replays a reduced set of histories under Miri."""
    merged, wd = ck.standard_run(prop, tier, seed, keep)
    merged["counters"]["build_s"] = int(bt)
    extra = {}
    problems = []
    if tier == "thorough":
        import sanitizers
        os.makedirs(wd, exist_ok=True)
        extra, problems, sv = sanitizers.run_c17(ck, seed, wd)
        merged["violations"] += sv
    rc = ck.finish(prop, tier, seed, merged, t0, extra_cov=extra, harness_problems=problems)
    if not keep:
        shutil.rmtree(wd, ignore_errors=True)
    return rc


def c05(ck, prop, tier, seed, keep, t0, bt):
    """Standard run; thorough additionally runs a coverage-guided libFuzzer target (walrus verdict vs reference
    validator under both configurations) seeded with generated modules; every artifact is replayed through the
    normal gate scenario and judged like any other case."""
    merged, wd = ck.standard_run(prop, tier, seed, keep)
    merged["counters"]["build_s"] = int(bt)
    extra = {}
    if tier == "thorough":
        try:
            extra = _fuzz_c05(ck, seed, wd, merged)
        except Exception as e:  # noqa
            extra = {"libfuzzer": "skipped: %r" % (e,)}
    rc = ck.finish(prop, tier, seed, merged, t0, extra_cov=extra)
    if not keep:
        shutil.rmtree(wd, ignore_errors=True)
    return rc


def _fuzz_c05(ck, seed, wd, merged):
    import glob
    import time
    fz = os.path.join(ck.HARNESS, "fuzzproj")
    secs = int(os.environ.get("VERIF_FUZZ_SECONDS", "600"))
    env = dict(ck.ENV)
    t0 = time.time()
    r = subprocess.run(["cargo", "+nightly", "fuzz", "build", "parse_gate"], cwd=fz, env=env, stdout=subprocess.PIPE, stderr=subprocess.STDOUT, text=True)
    if r.returncode != 0:
        return {"libfuzzer": "skipped: build failed: " + r.stdout[-300:]}
    os.makedirs(wd, exist_ok=True)
    corpus = os.path.join(wd, "fuzz-corpus")
    arts = os.path.join(wd, "fuzz-artifacts") + "/"
    os.makedirs(corpus, exist_ok=True)
    os.makedirs(arts, exist_ok=True)
    drive = ck.bin_path("wv-drive")
    judge = ck.bin_path("wv-judge")
    specs = ["gen:full:%d:%d" % (seed, i) for i in range(120)] + ["gen:mvp:%d:%d" % (seed, i) for i in range(40)] + ["gen:customs:%d:%d" % (seed, i) for i in range(40)]
    for i, s in enumerate(specs):
        subprocess.run([drive, "dump", "--spec", s, "--out", os.path.join(corpus, "seed%03d.wasm" % i)], env=env)
    r = subprocess.run(["cargo", "+nightly", "fuzz", "run", "parse_gate", corpus, "--", "-fork=%d" % ck.NCPU, "-timeout=10", "-rss_limit_mb=4096",
                        "-max_total_time=%d" % secs, "-seed=%d" % seed, "-artifact_prefix=" + arts, "-ignore_crashes=1", "-ignore_timeouts=1", "-ignore_ooms=1"],
                       cwd=fz, env=env, stdout=subprocess.PIPE, stderr=subprocess.STDOUT, text=True, timeout=secs + 1800)
    tail = r.stdout.strip().splitlines()[-3:]
    execs = 0
    for l in r.stdout.splitlines():
        if l.startswith("#") and "cov:" in l:
            try:
                execs = max(execs, int(l[1:].split(":")[0]))
            except ValueError:
                pass
    found = sorted(glob.glob(arts + "*"))
    replayed = 0
    for a in found[:200]:
        lg = a + ".log"
        subprocess.run([drive, "replay", "--spec", "file:" + a, "--scenario", "gate", "--out", lg], env=env)
        open_idx, _ = ck.scan_log(lg)
        if open_idx is not None:
            with open(lg, "ab") as f:
                f.write(ck.encode_rec("crash", [("idx", open_idx), ("how", "crash-in-replay-of-fuzz-artifact")]))
        rp = a + ".json"
        subprocess.run([judge, "--prop", "C05", "--log", lg, "--out", rp, "--replay-dir", ck.REPLAYS, "--single"], env=env)
        try:
            import json
            d = json.load(open(rp))
            merged["violations"] += d["violations"]
            merged["cases"] += d["cases"]
            merged["held"] += d["held"]
            replayed += 1
        except Exception:
            pass
    return {"libfuzzer": "ran %ds on %d forks: %d executions, %d artifacts (%d replayed through the gate scenario), exit %s; %.0fs incl. build" % (secs, ck.NCPU, execs, len(found), replayed, r.returncode, time.time() - t0),
            "libfuzzer_tail": tail}


SPECIAL = {"C05": c05, "C08": c08, "C09": c09, "C17": c17}

"""Property checks that need more than one drive/judge pass."""
import os
import shutil
import subprocess
import json


def c08(ck, prop, tier, seed, keep, t0, bt):
    """Determinism: the same workload is run by two independent sets of processes (different ASLR,
    different RandomState); the judge compares the bytes of run A with those of run B case by case,
    in addition to the in-process comparisons (second emit, shifted arena ids, fixpoint)."""
    drive = ck.bin_path("wv-drive")
    judge = ck.bin_path("wv-judge")
    wd = os.path.join(ck.WORK, "%s-%s" % (prop, tier))
    shutil.rmtree(wd, ignore_errors=True)
    os.makedirs(wd)
    n = ck.NCPU
    watchdog = 900 if tier == "quick" else 6 * 3600
    from concurrent.futures import ThreadPoolExecutor
    logs_a = [os.path.join(wd, "a%02d.log" % i) for i in range(n)]
    logs_b = [os.path.join(wd, "b%02d.log" % i) for i in range(n)]
    with ThreadPoolExecutor(max_workers=n) as ex:
        ca = list(ex.map(lambda i: ck.run_shard(drive, prop, tier, seed, i, n, logs_a[i], watchdog), range(n)))
    with ThreadPoolExecutor(max_workers=n) as ex:
        cb = list(ex.map(lambda i: ck.run_shard(drive, prop, tier, seed, i, n, logs_b[i], watchdog, ("--second-process", "1")), range(n)))
    reports = [os.path.join(wd, "judge%02d.json" % i) for i in range(n)]

    def j(i):
        cmd = [judge, "--prop", prop, "--log", logs_a[i], "--log2", logs_b[i], "--out", reports[i], "--replay-dir", ck.REPLAYS]
        r = subprocess.run(cmd, env=ck.ENV, stdout=subprocess.PIPE, stderr=subprocess.STDOUT)
        return None if r.returncode == 0 else "judge shard %d failed: %s" % (i, r.stdout.decode(errors="replace")[-400:])

    with ThreadPoolExecutor(max_workers=n) as ex:
        jerrs = [e for e in ex.map(j, range(n)) if e]
    merged = ck.merge_reports(reports)
    merged["harness_errors"] += jerrs
    merged["counters"]["driver_crashes"] = sum(ca) + sum(cb)
    merged["counters"]["build_s"] = int(bt)
    rc = ck.finish(prop, tier, seed, merged, t0)
    if not keep:
        shutil.rmtree(wd, ignore_errors=True)
    return rc


SPECIAL = {"C08": c08}

"""Property checks that need more than one drive/judge pass."""
import os
import shutil
import subprocess
import json


def c08(ck, prop, tier, seed, keep, t0, bt):
    """Determinism: the same workload is run by two independent sets of processes (different ASLR,
    different RandomState); the judge compares the bytes of run A with those of run B case by case,
    in addition to the in-process comparisons (second emit, shifted arena ids, fixpoint)."""
    drive = ck.bin_path("wv-drive")
    judge = ck.bin_path("wv-judge")
    wd = os.path.join(ck.WORK, "%s-%s" % (prop, tier))
    shutil.rmtree(wd, ignore_errors=True)
    os.makedirs(wd)
    n = ck.NCPU
    watchdog = 900 if tier == "quick" else 6 * 3600
    from concurrent.futures import ThreadPoolExecutor
    logs_a = [os.path.join(wd, "a%02d.log" % i) for i in range(n)]
    logs_b = [os.path.join(wd, "b%02d.log" % i) for i in range(n)]
    with ThreadPoolExecutor(max_workers=n) as ex:
        ca = list(ex.map(lambda i: ck.run_shard(drive, prop, tier, seed, i, n, logs_a[i], watchdog), range(n)))
    with ThreadPoolExecutor(max_workers=n) as ex:
        cb = list(ex.map(lambda i: ck.run_shard(drive, prop, tier, seed, i, n, logs_b[i], watchdog, ("--second-process", "1")), range(n)))
    reports = [os.path.join(wd, "judge%02d.json" % i) for i in range(n)]

    def j(i):
        cmd = [judge, "--prop", prop, "--log", logs_a[i], "--log2", logs_b[i], "--out", reports[i], "--replay-dir", ck.REPLAYS]
        r = subprocess.run(cmd, env=ck.ENV, stdout=subprocess.PIPE, stderr=subprocess.STDOUT)
        return None if r.returncode == 0 else "judge shard %d failed: %s" % (i, r.stdout.decode(errors="replace")[-400:])

    with ThreadPoolExecutor(max_workers=n) as ex:
        jerrs = [e for e in ex.map(j, range(n)) if e]
    merged = ck.merge_reports(reports)
    merged["harness_errors"] += jerrs
    merged["counters"]["driver_crashes"] = sum(ca) + sum(cb)
    merged["counters"]["build_s"] = int(bt)
    rc = ck.finish(prop, tier, seed, merged, t0)
    if not keep:
        shutil.rmtree(wd, ignore_errors=True)
    return rc


def c09(ck, prop, tier, seed, keep, t0, bt):
    """Serial flavour (reference) and parallel flavour (rayon pools of 1..16 threads x 5 delay patterns injected
    through the verif-hooks observation points) run the same workload; the judge compares case by case.
    Thorough adds ThreadSanitizer and Miri runs of the parallel paths (see sanitizers.py)."""
    from concurrent.futures import ThreadPoolExecutor
    tpar = os.path.join(ck.HARNESS, "target-par")
    bt2 = ck.build(features=("parallel", "hooks"), target_dir=tpar)
    drive_s = ck.bin_path("wv-drive")
    drive_p = ck.bin_path("wv-drive", target_dir=tpar)
    judge = ck.bin_path("wv-judge")
    wd = os.path.join(ck.WORK, "%s-%s" % (prop, tier))
    shutil.rmtree(wd, ignore_errors=True)
    os.makedirs(wd)
    n = ck.NCPU
    watchdog = 1800 if tier == "quick" else 6 * 3600
    logs_a = [os.path.join(wd, "serial%02d.log" % i) for i in range(n)]
    logs_b = [os.path.join(wd, "par%02d.log" % i) for i in range(n)]
    with ThreadPoolExecutor(max_workers=n) as ex:
        ca = list(ex.map(lambda i: ck.run_shard(drive_s, prop, tier, seed, i, n, logs_a[i], watchdog), range(n)))
    # the parallel flavour uses up to 16 threads per case itself: run 4 shards at a time
    with ThreadPoolExecutor(max_workers=4) as ex:
        cb = list(ex.map(lambda i: ck.run_shard(drive_p, prop, tier, seed, i, n, logs_b[i], watchdog), range(n)))
    reports = [os.path.join(wd, "judge%02d.json" % i) for i in range(n)]

    def j(i):
        cmd = [judge, "--prop", prop, "--log", logs_a[i], "--log2", logs_b[i], "--out", reports[i], "--replay-dir", ck.REPLAYS]
        r = subprocess.run(cmd, env=ck.ENV, stdout=subprocess.PIPE, stderr=subprocess.STDOUT)
        return None if r.returncode == 0 else "judge shard %d failed: %s" % (i, r.stdout.decode(errors="replace")[-400:])

    with ThreadPoolExecutor(max_workers=n) as ex:
        jerrs = [e for e in ex.map(j, range(n)) if e]
    merged = ck.merge_reports(reports)
    merged["harness_errors"] += jerrs
    merged["counters"]["driver_crashes"] = sum(ca) + sum(cb)
    merged["counters"]["build_s"] = int(bt + bt2)
    problems = []
    orders = merged["counters"].get("distinct-completion-orders(sum over inputs)", 0)
    cases = max(1, merged["cases"])
    if orders < 3 * cases:
        problems.append("schedule perturbation ineffective: only %d distinct completion orders over %d inputs" % (orders, cases))
    extra = {}
    if tier == "thorough":
        import sanitizers
        extra, sp, sv = sanitizers.run_c09(ck, seed, wd)
        problems += sp
        merged["violations"] += sv
    rc = ck.finish(prop, tier, seed, merged, t0, extra_cov=extra, harness_problems=problems)
    if not keep:
        shutil.rmtree(wd, ignore_errors=True)
    return rc


def c17(ck, prop, tier, seed, keep, t0, bt):
    """Standard run; thorough additionally replays a reduced set of histories under Miri."""
    merged, wd = ck.standard_run(prop, tier, seed, keep)
    merged["counters"]["build_s"] = int(bt)
    extra = {}
    problems = []
    if tier == "thorough":
        import sanitizers
        os.makedirs(wd, exist_ok=True)
        extra, problems, sv = sanitizers.run_c17(ck, seed, wd)
        merged["violations"] += sv
    rc = ck.finish(prop, tier, seed, merged, t0, extra_cov=extra, harness_problems=problems)
    if not keep:
        shutil.rmtree(wd, ignore_errors=True)
    return rc


SPECIAL = {"C08": c08, "C09": c09, "C17": c17}

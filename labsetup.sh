#!/bin/bash
# Development aid, not used by any registered check: a copy of /verif under /tmp/lab/verif whose harness
# depends on the scratch worktree /tmp/lab/repo, so that seeded changes can be tried while a long `vp run`
# is using /repo itself. Use:  SEED_REPO=/tmp/lab/repo /tmp/lab/verif/seedtest.py <patch> C01 ...
#   or with process_seed.py:   SEEDTEST=/tmp/lab/verif/seedtest.py SEED_REPO=/tmp/lab/repo ./process_seed.py ...
# Remove with:  git -C /repo worktree remove --force /tmp/lab/repo; rm -rf /tmp/lab
set -e
mkdir -p /tmp/lab
if [ ! -d /tmp/lab/repo ]; then git -C /repo worktree add --detach /tmp/lab/repo >/dev/null; fi
git -C /tmp/lab/repo checkout -q --detach "$(git -C /repo rev-parse HEAD)"
rsync -a --exclude 'target*' --exclude /work --exclude /replays --exclude .git /verif/ /tmp/lab/verif/
sed -i 's#path = "/repo"#path = "/tmp/lab/repo"#' /tmp/lab/verif/harness/wv-drive/Cargo.toml /tmp/lab/verif/harness/fuzzproj/fuzz/Cargo.toml
echo "lab ready: $(git -C /tmp/lab/repo rev-parse --short HEAD)"

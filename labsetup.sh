#!/bin/bash
# Development aid, not used by any registered check: a copy of /verif under ${LAB}/verif whose harness
# depends on the scratch worktree ${LAB}/repo, so that seeded changes can be tried while a long `vp run`
# is using /repo itself. Use:  SEED_REPO=${LAB}/repo ${LAB}/verif/seedtest.py <patch> C01 ...
#   or with process_seed.py:   SEEDTEST=${LAB}/verif/seedtest.py SEED_REPO=${LAB}/repo ./process_seed.py ...
# Remove with:  git -C /repo worktree remove --force ${LAB}/repo; rm -rf ${LAB}
set -e
LAB=${LAB:-/tmp/lab}
mkdir -p ${LAB}
if [ ! -d ${LAB}/repo ]; then git -C /repo worktree add --detach ${LAB}/repo >/dev/null; fi
git -C ${LAB}/repo checkout -q --detach "$(git -C /repo rev-parse HEAD)"
rsync -a --exclude 'target*' --exclude /work --exclude /replays --exclude .git /verif/ ${LAB}/verif/
sed -i "s#path = \"/repo\"#path = \"${LAB}/repo\"#" ${LAB}/verif/harness/wv-drive/Cargo.toml ${LAB}/verif/harness/fuzzproj/fuzz/Cargo.toml
echo "lab ready: $(git -C ${LAB}/repo rev-parse --short HEAD)"

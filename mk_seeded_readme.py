#!/usr/bin/env python3
import json, glob, os
rows=[]
for f in sorted(glob.glob('/verif/seeded/*/meta.json')):
    m=json.load(open(f)); rows.append(m)
out=["# Seeded changes\n",
"Each directory holds one change to walrus written by a fresh sub-agent that saw only the text of one property and its own scratch worktree of /repo (nothing from /verif): `patch.diff`, the author's demonstration `demo.rs` (fails with the change, passes without; `demo-cargo.diff` where the demo needs an extra dev-dependency), `author-notes.md`, and `meta.json` (what it breaks, what it needs in order to manifest, how it was confirmed, which checks were run against it and which reported it).\n",
"Every change was confirmed in a scratch worktree by `confirm_seed.sh` (demo passes without / fails with the patch; the unedited suite stays at 146 passed / 5 failed) before it was kept, then applied to /repo with `seedtest.py` (quick tier), the checks run, and the patch undone. None of them is ever committed in /repo.\n",
"| id | breaks | needs to manifest | caught by (quick) |", "|---|---|---|---|"]
for m in rows:
    out.append("| %s | %s | %s | %s |" % (m['id'], m['breaks'].replace('|','/'), m['needs_to_manifest'].replace('|','/'), ", ".join(m['caught_by']) or "**missed**"))
out.append("\nChecks strengthened because a seeded change was first missed (all are caught now): see DESIGN.md section 14.\n")
open('/verif/seeded/README.md','w').write("\n".join(out))
print(len(rows), "seeded changes;", sum(1 for m in rows if not m['caught_by']), "missed")

#!/usr/bin/env python3
"""refresh_meta.py <seeded id> <props...>: re-run the given quick checks against a stored seeded change and
rewrite the checks_run / caught_by fields of its meta.json (used after checks changed)."""
import json, os, subprocess, sys
ROOT = os.path.dirname(os.path.abspath(__file__))
d, props = sys.argv[1], sys.argv[2:]
mp = os.path.join(ROOT, "seeded", d, "meta.json")
meta = json.load(open(mp))
r = subprocess.run([os.path.join(ROOT, "seedtest.py"), os.path.join(ROOT, "seeded", d, "patch.diff")] + props, text=True, stdout=subprocess.PIPE, stderr=subprocess.STDOUT)
res = json.loads(r.stdout.strip().splitlines()[-1])
meta["checks_run"] = {p: {"exit": v["exit"], "violations": v["violations"], "harness_errors": v["harness_errors"]} for p, v in res["results"].items()}
meta["caught_by"] = res["caught_by"]
json.dump(meta, open(mp, "w"), indent=1)
print(d, "caught_by", res["caught_by"])

"""Sanitizer / UB-interpreter steps of the thorough tier (C09: ThreadSanitizer and Miri over the rayon paths;
C17: Miri over collection histories). A step that cannot run in this sandbox is recorded as skipped in the
evidence - never as passed - and does not fail the check; a report inside walrus/rayon frames is a violation."""
import glob
import json
import os
import re
import subprocess
import time
from concurrent.futures import ThreadPoolExecutor

MIRIFLAGS = "-Zmiri-disable-isolation -Zmiri-tree-borrows -Zmiri-ignore-leaks"


def _tsan(ck, seed, wd):
    info = {"tsan": "skipped"}
    viol = []
    tdir = os.path.join(ck.HARNESS, "target-tsan")
    env = dict(ck.ENV)
    env["RUSTFLAGS"] = "-Zsanitizer=thread"
    env["CARGO_TARGET_DIR"] = tdir
    t0 = time.time()
    r = subprocess.run(["cargo", "+nightly", "build", "--offline", "-Zbuild-std", "--target", "x86_64-unknown-linux-gnu", "--release",
                        "-p", "wv-drive", "--features", "parallel,hooks"], cwd=ck.HARNESS, env=env, stdout=subprocess.PIPE, stderr=subprocess.STDOUT, text=True)
    if r.returncode != 0:
        info["tsan"] = "skipped: build failed: " + r.stdout[-300:]
        return info, viol
    drive = os.path.join(tdir, "x86_64-unknown-linux-gnu", "release", "wv-drive")
    rdir = os.path.join(wd, "tsan")
    os.makedirs(rdir, exist_ok=True)
    env2 = dict(ck.ENV)
    env2["TSAN_OPTIONS"] = "halt_on_error=0 exitcode=0 log_path=%s/report" % rdir
    n = 4

    def shard(i):
        lg = os.path.join(rdir, "tsan%02d.log" % i)
        p = subprocess.run([drive, "run", "--prop", "C09", "--tier", "quick", "--seed", str(seed), "--shard", str(i), "--nshards", str(n), "--out", lg],
                           env=env2, stdout=subprocess.DEVNULL, stderr=subprocess.DEVNULL, timeout=3600)
        return p.returncode

    with ThreadPoolExecutor(max_workers=n) as ex:
        rcs = list(ex.map(shard, range(n)))
    reports = {}
    for f in glob.glob(os.path.join(rdir, "report.*")):
        txt = open(f, errors="replace").read()
        for block in txt.split("=================="):
            if "WARNING: ThreadSanitizer" not in block:
                continue
            kind = re.search(r"WARNING: ThreadSanitizer: ([^\(\n]+)", block).group(1).strip()
            frames = re.findall(r"#\d+ (\S+) ", block)
            inrepo = [fr for fr in frames if "walrus" in fr or "rayon" in fr or "wv_drive" in fr][:3]
            key = kind + "|" + "|".join(inrepo)
            reports.setdefault(key, block[:1500])
    info["tsan"] = "ran: %d shards (exit codes %s), %d distinct reports, %.0fs" % (n, rcs, len(reports), time.time() - t0)
    for key, block in reports.items():
        d = os.path.join(ck.REPLAYS, "C09", "tsan-%08x" % (hash(key) & 0xffffffff))
        os.makedirs(d, exist_ok=True)
        open(os.path.join(d, "verdict.txt"), "w").write("property=C09\nsignature=C09/tsan/%s\n%s\n" % (key, block))
        viol.append({"idx": -1, "spec": "C09 quick workload under ThreadSanitizer", "scenario": "par", "signature": "C09/tsan/" + key,
                     "detail": block[:500], "replay": d})
    return info, viol


def _miri(ck, seed, wd, prop, specs, scenario, tag):
    """Run the driver under Miri on pre-materialized inputs; returns (info, violations, miri logs, serial logs)."""
    info = {}
    viol = []
    mdir = os.path.join(wd, "miri-" + tag)
    os.makedirs(mdir, exist_ok=True)
    tdir = os.path.join(ck.HARNESS, "target-miri")
    drive = ck.bin_path("wv-drive")
    files = []
    for i, s in enumerate(specs):
        f = os.path.join(mdir, "in%02d.bin" % i)
        if subprocess.run([drive, "dump", "--spec", s, "--out", f], env=ck.ENV).returncode == 0:
            files.append((s, f))
    env = dict(ck.ENV)
    env["CARGO_TARGET_DIR"] = tdir
    t0 = time.time()

    def one(i):
        s, f = files[i]
        lg = os.path.join(mdir, "miri%02d.log" % i)
        if os.path.exists(lg):
            os.remove(lg)
        e = dict(env)
        e["MIRIFLAGS"] = MIRIFLAGS + " -Zmiri-seed=%d" % (seed * 131 + i)
        feats = ["--features", "parallel,hooks"] if prop == "C09" else []
        try:
            p = subprocess.run(["cargo", "+nightly", "miri", "run", "--offline", "-p", "wv-drive"] + feats + ["--", "replay", "--spec", "file:" + f,
                                "--scenario", scenario, "--out", lg], cwd=ck.HARNESS, env=e, stdout=subprocess.PIPE, stderr=subprocess.PIPE, text=True, timeout=2400)
            return (i, p.returncode, p.stderr[-3000:], lg)
        except subprocess.TimeoutExpired:
            return (i, "timeout", "", lg)

    # first run alone so that the sysroot / dependency build is not raced
    results = [one(0)] if files else []
    with ThreadPoolExecutor(max_workers=ck.NCPU) as ex:
        results += list(ex.map(one, range(1, len(files))))
    ran = 0
    for i, rc, err, lg in results:
        if rc == "timeout":
            info.setdefault("timeouts", 0)
            info["timeouts"] += 1
            continue
        if "Undefined Behavior" in err or "data race" in err.lower():
            key = re.search(r"error: (Undefined Behavior[^\n]*|[^\n]*[Dd]ata race[^\n]*)", err)
            key = key.group(1)[:120] if key else "undefined behaviour"
            d = os.path.join(ck.REPLAYS, prop, "miri-%02d" % i)
            os.makedirs(d, exist_ok=True)
            open(os.path.join(d, "verdict.txt"), "w").write("property=%s\nsignature=%s/miri/%s\ninput=%s\n%s\n" % (prop, prop, key, files[i][0], err))
            viol.append({"idx": -1, "spec": files[i][0], "scenario": scenario, "signature": "%s/miri/%s" % (prop, key), "detail": err[-500:], "replay": d})
        elif rc != 0:
            info.setdefault("failed_runs", []).append("input %s: exit %s: %s" % (files[i][0], rc, err[-200:]))
        else:
            ran += 1
    info["miri_" + tag] = "ran %d/%d inputs clean under Miri (%s), %.0fs" % (ran, len(files), MIRIFLAGS, time.time() - t0)
    return info, viol, [(files[i][0], files[i][1], r[3]) for i, r in enumerate(results) if r[1] == 0]


def run_c09(ck, seed, wd):
    extra = {}
    problems = []
    viol = []
    try:
        info, v = _tsan(ck, seed, wd)
        extra.update(info)
        viol += v
    except Exception as e:  # noqa
        extra["tsan"] = "skipped: %r" % (e,)
    try:
        specs = ["leb:3:60:0", "leb:5:127:1", "leb:4:128:2", "leb:7:60:3"] + ["gen:tiny:%d:%d" % (seed, i) for i in range(12)]
        info, v, logs = _miri(ck, seed, wd, "C09", specs, "par:lite", "c09")
        extra.update(info)
        viol += v
        # outputs produced under Miri must equal the serial build's
        drive = ck.bin_path("wv-drive")
        judge = ck.bin_path("wv-judge")
        agree = 0
        for spec, f, mlog in logs:
            slog = os.path.join(os.path.dirname(mlog), "serial-" + os.path.basename(mlog))
            if os.path.exists(slog):
                os.remove(slog)
            subprocess.run([drive, "replay", "--spec", "file:" + f, "--scenario", "par:lite", "--out", slog], env=ck.ENV)
            rp = mlog + ".json"
            subprocess.run([judge, "--prop", "C09", "--log", slog, "--log2", mlog, "--out", rp, "--replay-dir", ck.REPLAYS, "--single"], env=ck.ENV)
            try:
                d = json.load(open(rp))
                viol += d["violations"]
                agree += d["held"]
            except Exception:
                pass
        extra["miri_c09_outputs_equal_to_serial"] = agree
    except Exception as e:  # noqa
        extra["miri_c09"] = "skipped: %r" % (e,)
    return extra, problems, viol


def run_c17(ck, seed, wd):
    extra = {}
    viol = []
    try:
        import random
        rnd = random.Random(seed)
        colls = ["types", "exports", "imports", "globals", "tables", "memories", "data", "elements", "funcs", "locals", "customs"]
        alpha = "abcd0123LL"
        specs = ["hist:%s:%s" % (c, "".join(rnd.choice(alpha) for _ in range(40))) for c in colls for _ in range(3)]
        info, v, logs = _miri(ck, seed, wd, "C17", specs, "hist", "c17")
        extra.update(info)
        viol += v
        judge = ck.bin_path("wv-judge")
        held = 0
        for spec, f, mlog in logs:
            rp = mlog + ".json"
            subprocess.run([judge, "--prop", "C17", "--log", mlog, "--out", rp, "--replay-dir", ck.REPLAYS, "--single"], env=ck.ENV)
            try:
                d = json.load(open(rp))
                viol += d["violations"]
                held += d["held"]
            except Exception:
                pass
        extra["miri_c17_histories_conforming"] = held
    except Exception as e:  # noqa
        extra["miri_c17"] = "skipped: %r" % (e,)
    return extra, [], viol

#![no_std]
extern crate alloc;
use alloc::collections::BTreeMap;
use alloc::string::String;
use alloc::format;
use core::alloc::{GlobalAlloc, Layout};
use core::cell::UnsafeCell;

struct Bump { heap: UnsafeCell<[u8; 1 << 20]>, off: UnsafeCell<usize> }
unsafe impl Sync for Bump {}
unsafe impl GlobalAlloc for Bump {
    unsafe fn alloc(&self, l: Layout) -> *mut u8 {
        let off = &mut *self.off.get();
        let start = (*off + l.align() - 1) & !(l.align() - 1);
        if start + l.size() > (1 << 20) { return core::ptr::null_mut(); }
        *off = start + l.size();
        (self.heap.get() as *mut u8).add(start)
    }
    unsafe fn dealloc(&self, _: *mut u8, _: Layout) {}
}
#[global_allocator]
static A: Bump = Bump { heap: UnsafeCell::new([0; 1 << 20]), off: UnsafeCell::new(0) };
#[panic_handler]
fn panic(_: &core::panic::PanicInfo) -> ! { core::arch::wasm32::unreachable() }

unsafe extern "C" { fn host_log(x: u32); }

#[unsafe(no_mangle)]
pub extern "C" fn fib(n: u32) -> u64 { if n < 2 { n as u64 } else { fib(n-1) + fib(n-2) } }
#[unsafe(no_mangle)]
pub extern "C" fn mapsum(n: u32) -> u64 {
    let mut m: BTreeMap<u32, String> = BTreeMap::new();
    for i in 0..n { m.insert(i.wrapping_mul(2654435761), format!("{}", i)); unsafe { host_log(i) } }
    m.iter().map(|(k, v)| *k as u64 + v.len() as u64).sum()
}
#[unsafe(no_mangle)]
pub extern "C" fn fsum(n: u32) -> f64 { (0..n).map(|i| (i as f64) * 0.5 + 1.0 / ((i + 1) as f64)).sum() }

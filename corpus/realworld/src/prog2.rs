#![no_std]
extern crate alloc;
use alloc::boxed::Box;
use alloc::vec::Vec;
use core::alloc::{GlobalAlloc, Layout};
use core::cell::UnsafeCell;
struct Bump { heap: UnsafeCell<[u8; 1 << 18]>, off: UnsafeCell<usize> }
unsafe impl Sync for Bump {}
unsafe impl GlobalAlloc for Bump {
    unsafe fn alloc(&self, l: Layout) -> *mut u8 { unsafe {
        let off = &mut *self.off.get();
        let start = (*off + l.align() - 1) & !(l.align() - 1);
        if start + l.size() > (1 << 18) { *off = 0; return (self.heap.get() as *mut u8).add(0); }
        *off = start + l.size();
        (self.heap.get() as *mut u8).add(start) } }
    unsafe fn dealloc(&self, _: *mut u8, _: Layout) {}
}
#[global_allocator]
static A: Bump = Bump { heap: UnsafeCell::new([0; 1 << 18]), off: UnsafeCell::new(0) };
#[panic_handler]
fn panic(_: &core::panic::PanicInfo) -> ! { core::arch::wasm32::unreachable() }
unsafe extern "C" { fn host_mix(x: u64, y: u32) -> u64; }

trait Shape { fn area(&self) -> f64; fn id(&self) -> u32; }
struct Sq(f64); struct Ci(f64); struct Tr(f64, f64);
impl Shape for Sq { fn area(&self) -> f64 { self.0 * self.0 } fn id(&self) -> u32 { 1 } }
impl Shape for Ci { fn area(&self) -> f64 { 3.141592653589793 * self.0 * self.0 } fn id(&self) -> u32 { 2 } }
impl Shape for Tr { fn area(&self) -> f64 { 0.5 * self.0 * self.1 } fn id(&self) -> u32 { 3 } }

#[unsafe(no_mangle)]
pub extern "C" fn shapes(n: u32) -> f64 {
    let mut v: Vec<Box<dyn Shape>> = Vec::new();
    for i in 0..n { match i % 3 { 0 => v.push(Box::new(Sq(i as f64))), 1 => v.push(Box::new(Ci(i as f64 * 0.5))), _ => v.push(Box::new(Tr(i as f64, 2.0))) } }
    v.iter().map(|s| s.area() + s.id() as f64).sum()
}
#[unsafe(no_mangle)]
pub extern "C" fn mul128(a: u64, b: u64) -> u64 { let p = (a as u128) * (b as u128) + (a as u128 >> 3); ((p >> 64) as u64) ^ (p as u64) }
#[unsafe(no_mangle)]
pub extern "C" fn div128(a: u64, b: u64) -> u64 { let d = (b as u128) | 1; let q = (((a as u128) << 64) | 0xdead_beef) / d; q as u64 ^ (q >> 64) as u64 }
#[unsafe(no_mangle)]
pub extern "C" fn sortsum(n: u32, seed: u64) -> u64 {
    let mut v: Vec<u64> = Vec::new(); let mut s = seed;
    for _ in 0..n { s ^= s << 13; s ^= s >> 7; s ^= s << 17; v.push(s); }
    v.sort_unstable(); let mut acc = 0u64; for (i, x) in v.iter().enumerate() { acc = acc.wrapping_mul(31).wrapping_add(x ^ i as u64); } unsafe { host_mix(acc, n) }
}
#[unsafe(no_mangle)]
pub extern "C" fn classify(x: u32) -> u32 { match x { 0 => 10, 1 => 11, 2 => 7, 3 => 99, 4 => 3, 5 => 1000, 6 => 12, 7 => 8, 8 => 64, 9 => 5, 10..=20 => x * 3, 21 => 0, _ => x.rotate_left(7) ^ 0x5a5a } }
#[unsafe(no_mangle)]
pub extern "C" fn conv(x: f64) -> i64 { let a = x as i32; let b = x as u64; let c = (x as f32) as f64; (a as i64) ^ (b as i64) ^ (c.to_bits() as i64) ^ ((x * 0.5) as i64) }
#[unsafe(no_mangle)]
pub extern "C" fn ack(m: u32, n: u32) -> u32 { if m == 0 { n + 1 } else if n == 0 { ack(m - 1, 1) } else { ack(m - 1, ack(m, n - 1)) } }

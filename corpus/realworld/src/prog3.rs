#![no_std]
#[panic_handler]
fn panic(_: &core::panic::PanicInfo) -> ! { core::arch::wasm32::unreachable() }
static mut BUF: [u8; 4096] = [0; 4096];
static TABLE: [u32; 16] = [3, 1, 4, 1, 5, 9, 2, 6, 5, 3, 5, 8, 9, 7, 9, 3];
#[unsafe(no_mangle)]
pub extern "C" fn fill(seed: u32, n: u32) -> u32 { unsafe {
    let b = &mut *core::ptr::addr_of_mut!(BUF); let n = (n as usize).min(4096); let mut s = seed;
    for i in 0..n { s = s.wrapping_mul(1664525).wrapping_add(1013904223); b[i] = (s >> 24) as u8; }
    let mut h: u32 = 0x811c9dc5; for i in 0..n { h ^= b[i] as u32; h = h.wrapping_mul(16777619); } h } }
#[unsafe(no_mangle)]
pub extern "C" fn copy_within(from: u32, to: u32, len: u32) -> u32 { unsafe {
    let b = &mut *core::ptr::addr_of_mut!(BUF); let (f, t, l) = ((from as usize) % 2048, (to as usize) % 2048, (len as usize) % 2048);
    b.copy_within(f..f + l, t); b[t] as u32 + b[(t + l).min(4095)] as u32 } }
#[unsafe(no_mangle)]
pub extern "C" fn lookup(i: u32) -> u32 { TABLE[(i & 15) as usize] * TABLE[((i >> 4) & 15) as usize] }
#[unsafe(no_mangle)]
pub extern "C" fn bits(x: u64) -> u32 { x.count_ones() + x.leading_zeros() * 3 + x.trailing_zeros() * 5 + (x as i8 as i32 as u32) + ((x as i16) as i64 as u32) }
#[unsafe(no_mangle)]
pub extern "C" fn fsat(x: f32) -> i32 { (x * 1.5) as i32 + (x as u8) as i32 + (x as i64 >> 3) as i32 }
#[unsafe(no_mangle)]
pub extern "C" fn lanes(a: f32, b: f32) -> f32 { let v = [a, b, a * b, a - b]; let w = [b, a, 1.0, 2.0]; let mut r = [0f32; 4]; for i in 0..4 { r[i] = v[i] * w[i] + v[3 - i]; } r[0] + r[1] * r[2] - r[3] }

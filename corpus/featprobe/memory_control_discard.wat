(module (memory 1) (func i32.const 0 i32.const 0 memory.discard))

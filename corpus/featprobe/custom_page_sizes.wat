(module (memory 1 (pagesize 1)))

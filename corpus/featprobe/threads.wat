(module (memory 1 1 shared) (func (export "f") (result i32) i32.const 0 i32.atomic.load))

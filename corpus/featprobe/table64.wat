(module (table i64 1 funcref))

(module (tag $e) (func (export "f") (block $h (try_table (catch_all $h) (throw $e)))))

(module (type $t (func)) (func (param (ref $t))))

(module (global i32 (i32.add (i32.const 1) (i32.const 2))))

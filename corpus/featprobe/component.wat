(component)

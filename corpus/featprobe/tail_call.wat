(module (func $g (result i32) i32.const 1) (func (export "f") (result i32) return_call $g))

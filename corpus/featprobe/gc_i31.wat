(module (func (export "f") (result i32) (i31.get_s (ref.i31 (i32.const 5)))))

(module (func $f) (table 1 funcref (ref.func $f)))

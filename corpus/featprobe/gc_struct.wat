(module (type $s (struct (field i32))) (func (export "f") (result i32) (struct.get $s 0 (struct.new $s (i32.const 1)))))

(module (type $t (func (result i32))) (func $g (type $t) i32.const 1) (elem declare func $g) (func (export "f") (result i32) (call_ref $t (ref.func $g))))

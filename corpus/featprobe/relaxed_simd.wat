(module (func (export "f") (result v128) v128.const i32x4 1 2 3 4 v128.const i32x4 1 2 3 4 v128.const i32x4 1 2 3 4 f32x4.relaxed_madd))

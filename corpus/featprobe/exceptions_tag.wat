(module (tag $e (param i32)) (func (export "f") i32.const 1 throw $e))

(module (memory 1) (memory 1) (func (export "f") (result i32) i32.const 0 i32.load 1))

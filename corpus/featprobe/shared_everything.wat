(module (global (shared i32) (i32.const 0)))

(module (memory i64 1) (func (export "f") (result i32) i64.const 0 i32.load))

(module (table $t 4 funcref) (func $a) (func $b) (func $dead) (elem (table $t) (i32.const 0) func $a $b) (func (export "f") (param i32) local.get 0 call_indirect $t))

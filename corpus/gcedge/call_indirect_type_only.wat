(module (type $t (func (param i64))) (type $dead (func (param f64))) (table 1 funcref) (func (export "f") i64.const 0 i32.const 0 call_indirect (type $t)))

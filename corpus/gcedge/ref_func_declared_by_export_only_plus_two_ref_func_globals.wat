;; ref.func $f in a body; $f is declared by its export only; two funcref globals name other functions.
(module
  (func $f (export "f"))
  (func $g)
  (func $h)
  (global $g1 funcref (ref.func $g))
  (global $g2 (mut funcref) (ref.func $h))
  (func (export "use") (drop (ref.func $f)) (global.set $g2 (global.get $g1))))

(module (import "e" "g" (global $g externref)) (import "e" "h" (global $h externref)) (table $t 2 externref) (elem (table $t) (i32.const 0) externref (global.get $g)) (export "t" (table $t)))

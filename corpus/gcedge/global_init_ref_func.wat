(module (func $a) (func $b) (global $g funcref (ref.func $a)) (global $h funcref (ref.func $b)) (export "g" (global $g)))

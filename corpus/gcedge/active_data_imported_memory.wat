(module (import "e" "m" (memory $m 1)) (import "e" "dead" (memory $d 1)) (data (memory $m) (i32.const 0) "abc"))

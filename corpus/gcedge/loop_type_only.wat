(module (type $t (func (param i32) (result i32 i32))) (type $dead (func (param f32) (result f32 f32))) (func (export "f") (result i32) i32.const 1 loop (type $t) i32.const 2 end i32.add))

(module (memory 1) (data $d "abc") (data $dead "zzz") (func (export "f") i32.const 0 i32.const 0 i32.const 1 memory.init $d))

(module (memory $m 1) (memory $dead 1) (data (memory $m) (i32.const 0) "abc"))

(module (func $a) (global $dead funcref (ref.func $a)) (func (export "f") (result funcref) ref.func $a))

;; ref.func $f in a body; $f is declared only by an MVP-encoded active element segment; an unrelated funcref
;; global is initialised with ref.func $g. Needs reference-types and nothing of bulk-memory.
(module
  (table 2 funcref)
  (func $f)
  (func $g)
  (global $gl funcref (ref.func $g))
  (elem (i32.const 0) func $f)
  (func (export "h") (drop (ref.func $f)))
  (func (export "k") (result funcref) (global.get $gl)))

(module (func $a call $b) (func $b call $c) (func $c) (func $dead call $c) (export "a" (func $a)))

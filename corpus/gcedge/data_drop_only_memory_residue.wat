(module (memory 1) (memory 1) (data $d "abc") (data $dead "zzz") (func (export "f") data.drop $d))

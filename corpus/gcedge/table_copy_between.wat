(module (table $a 1 funcref) (table $b 1 funcref) (table $dead 1 funcref) (func (export "f") i32.const 0 i32.const 0 i32.const 1 table.copy $a $b))

(module (func $a) (func $b) (table $t 2 funcref) (elem (table $t) (i32.const 0) funcref (ref.func $a)) (export "t" (table $t)))

(module (import "e" "g" (global $g i32)) (import "e" "h" (global $h i32)) (memory 1) (data (global.get $g) "abc"))

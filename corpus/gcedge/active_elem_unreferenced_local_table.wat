(module (table $t 1 funcref) (func $a) (elem (table $t) (i32.const 0) func $a))

(module (import "e" "g" (global $g funcref)) (import "e" "h" (global $h funcref)) (table $t 2 funcref) (elem (table $t) (i32.const 0) funcref (global.get $g)) (export "t" (table $t)))

(module (import "e" "g" (global $g i32)) (import "e" "h" (global $h i32)) (table $t 2 funcref) (func $a) (func $b) (elem (table $t) (global.get $g) func $a) (export "t" (table $t)))

(module (func $a) (func $b) (elem $e func $a) (elem $dead func $b) (func (export "f") elem.drop $e))

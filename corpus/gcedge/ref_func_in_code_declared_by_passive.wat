(module (func $a) (elem $dead func $a) (func (export "f") (result funcref) ref.func $a))

(module (func $a) (func $only_in_dead_code) (func (export "f") return call $only_in_dead_code) (export "a" (func $a)))

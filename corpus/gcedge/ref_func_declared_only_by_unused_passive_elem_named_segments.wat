;; $f is named by ref.func in code and declared only by a passive element segment that nothing uses: the GC
;; pass removes that segment, the emitter then has to declare $f itself. The other segments carry names
;; and are used by index (table.init / elem.drop), so any shift of the element index space shows.
(module
  (table $t 4 funcref)
  (func $f)
  (func $a)
  (func $b)
  (elem $unused func $f)
  (elem $first (i32.const 0) func $a)
  (elem $second func $b)
  (elem $third func $a $b)
  (export "t" (table $t))
  (func (export "h")
    (drop (ref.func $f))
    (table.init $t $second (i32.const 1) (i32.const 0) (i32.const 1))
    (table.init $t $third (i32.const 2) (i32.const 0) (i32.const 2))
    (elem.drop $second)))

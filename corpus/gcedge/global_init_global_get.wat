(module (import "e" "g" (global $g i32)) (import "e" "h" (global $h i32)) (global $x i32 (global.get $g)) (global $y i32 (global.get $h)) (export "x" (global $x)))

(module (import "e" "t" (table $t 1 funcref)) (import "e" "dead" (table $u 1 funcref)) (func $a) (func $b) (elem (table $t) (i32.const 0) func $a))

(module (table $t 2 funcref) (func $a) (func $b) (elem $e func $a) (elem $dead func $b) (func (export "f") i32.const 0 i32.const 0 i32.const 1 table.init $t $e))

(module (type $t (func (param i32) (result i32 i32))) (type $dead (func (param i32) (result i64 i64))) (func (export "f") (result i32) i32.const 1 block (type $t) i32.const 2 end i32.add))

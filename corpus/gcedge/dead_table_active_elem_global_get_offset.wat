;; the dead table's active segment takes its offset from an imported global that nothing else uses: table,
;; segment, function and the global's import all go; the live table's segment keeps its own offset global.
(module
  (import "env" "base" (global $base i32))
  (import "env" "other" (global $other i32))
  (table $dead 4 funcref)
  (table $live 4 funcref)
  (func $f)
  (func $g)
  (elem $e1 (table $dead) (offset (global.get $base)) func $f)
  (elem $e2 (table $live) (offset (global.get $other)) func $g)
  (func (export "h") (param i32) (call_indirect $live (local.get 0))))

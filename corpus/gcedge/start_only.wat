(module (import "e" "f" (func $i)) (import "e" "dead" (func $d)) (func $s call $i) (func $dead) (start $s))

(module (func $a) (func $dead) (elem declare func $a))

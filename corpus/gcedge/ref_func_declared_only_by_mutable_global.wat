;; $f is named by ref.func in code and declared only by the initialiser of a mutable funcref global: that is a
;; declaration like any other, no element segment is needed in the output.
(module
  (func $f)
  (global $g (mut funcref) (ref.func $f))
  (func (export "h") (drop (ref.func $f)))
  (export "g" (global $g)))

(module (memory $a 1) (memory $b 1) (memory $dead 1) (func (export "f") i32.const 0 i32.const 0 i32.const 1 memory.copy $a $b))

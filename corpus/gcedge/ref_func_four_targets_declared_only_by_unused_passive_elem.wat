;; four functions are named by ref.func in code and declared only by a passive element segment that nothing
;; uses: the GC pass removes the segment and the emitter has to declare all four itself - in an order that
;; must be the same for every emission and every process.
(module
  (func $a)
  (func $b (param i32))
  (func $c (result i32) (i32.const 3))
  (func $d (param i64) (result i64) (local.get 0))
  (elem $unused func $d $b $a $c)
  (func (export "h")
    (drop (ref.func $c))
    (drop (ref.func $a))
    (drop (ref.func $d))
    (drop (ref.func $b))))

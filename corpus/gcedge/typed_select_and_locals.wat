(module (type $dead (func (param f32 f32 f32))) (func (export "f") (param i32) (result externref) (local externref) local.get 1 local.get 1 local.get 0 select (result externref)))

(module (global $g (mut i32) (i32.const 0)) (global $h (mut i32) (i32.const 0)) (global $dead (mut i32) (i32.const 0)) (func (export "f") (result i32) i32.const 1 global.set $g global.get $h))

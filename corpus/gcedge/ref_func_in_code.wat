(module (func $a) (func $dead) (elem declare func $a $dead) (func (export "f") (result funcref) ref.func $a))

#!/bin/bash
# confirm_seed.sh <ID> <N>: confirm an agent's seeded change in its own scratch worktree:
#  demo passes without the patch, fails with it; the unedited suite is unchanged (146 passed / 5 failed) with the patch.
ID=$1; N=$2; W=${MUT_ROOT:-/tmp/mut}/$ID
cd $W || exit 2
git checkout -q -- . ; git clean -fdq -e deliver -e target
FEAT=""
if [ -f deliver/demo-cargo.diff ]; then git apply deliver/demo-cargo.diff || echo "demo-cargo.diff does not apply"; fi
cp deliver/demo$N.rs crates/tests/tests/demo$N.rs
echo "== demo without patch"
cargo test --offline -p walrus-tests $DEMO_FEATURES --test demo$N 2>&1 | grep -E "^test result|error(\[|:)" | head -5
git apply deliver/patch$N.diff || { echo "PATCH DOES NOT APPLY"; exit 1; }
echo "== demo with patch"
cargo test --offline -p walrus-tests $DEMO_FEATURES --test demo$N 2>&1 | grep -E "^test result|error(\[|:)" | head -5
rm crates/tests/tests/demo$N.rs
if [ -f deliver/demo-cargo.diff ]; then git apply -R deliver/demo-cargo.diff; fi
echo "== suite with patch"
cargo test --workspace --no-fail-fast --offline 2>&1 | grep -E "^test result" | awk '{p+=$4; f+=$6} END {print "passed", p, "failed", f}'
git checkout -q -- . ; git clean -fdq -e deliver -e target
git status --short | head -3

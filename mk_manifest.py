#!/usr/bin/env python3
"""Regenerates MANIFEST.json from the table below (kept in one place so it stays consistent)."""
import json, subprocess

BASELINE_OFF = "cd /repo && cargo nextest run --workspace --no-fail-fast --test-threads 8 --offline || cargo test --workspace --no-fail-fast --offline"

CHECKS = {
 "C02": ("exploration", "Runtime monitor: catch_unwind around every parse/GC/edit/emit step plus the reference validator (walrus-free process) on every emitted binary, over fixtures, regression inputs, real-world modules, generated modules, censuses and generated well-formed edit scripts. Held-on-K-executions evidence; it cannot speak for inputs or edit sequences the workload did not produce.", "reference validator = wasmparser 0.214 with the documented feature set; panics observed via catch_unwind, aborts via the begin/end event-log protocol", "runtime monitoring: panic/abort observer + independent validator over recorded outputs", "6 C02"),
 "C08": ("exploration", "Runtime monitor over recorded outputs: byte equality between first and second emit on one Module, a re-parse with shifted arena ids (perturbs every id-keyed hash), a second set of processes, and the re-emitted own output (fixpoint).", "byte equality is the whole oracle; arena-id shifting and process restarts are the perturbations, other sources of nondeterminism (e.g. allocator addresses) are covered only as far as ASLR varies between the two process sets", "runtime monitoring: differential byte comparison across repeated emits, id shifts and processes", "6 C08"),
 "C20": ("exploration", "Runtime monitor: for every feature set S = full minus one proposal and the input's greedy-minimal set, V_S(input) ok implies V_S(output) ok, on fixtures, generated modules, a feature census and the operator census.", "feature sets are wasmparser 0.214's WasmFeatures flags", "runtime monitoring: differential validation of input and output under reduced feature sets", "6 C20"),
}

NOT_YET = {}

def main():
    props = [json.loads(l) for l in open('/verif/properties.jsonl')]
    hooks_commits = subprocess.run(["git", "-C", "/repo", "log", "--format=%H %s"], capture_output=True, text=True).stdout.splitlines()
    hook_commits = [l.split()[0] for l in hooks_commits if l.split(' ', 1)[1].startswith("verif-hooks")]
    checks = []
    na = []
    for p in props:
        pid = p["id"]
        if pid in CHECKS:
            level, text, note, tech, ref = CHECKS[pid]
            checks.append({
                "property_id": pid,
                "quick_cmd": "./check %s --tier quick" % pid,
                "thorough_cmd": "./check %s --tier thorough" % pid,
                "evidence_file": "/verif/evidence/%s.json" % pid,
                "replay_cmd_template": "./check %s --replay {path}" % pid,
                "engine": "wv-harness",
                "level_claimed": {"category": level, "text": text, "design_ref": "DESIGN.md section " + ref},
                "level_note": note,
                "technique": tech,
            })
        else:
            na.append({"property_id": pid, "reason": NOT_YET.get(pid, "monitor not built yet in this round (planned in DESIGN.md section 6); not claimed until its check runs clean on the unchanged tree")})
    m = {
        "version": 1,
        "setup_cmd": "cd /verif && ./check build",
        "hooks": {
            "guard": "cargo feature verif-hooks (off by default)",
            "enable": "harness builds walrus as a path dependency with `--features verif-hooks` (only the C09 flavour needs it)",
            "baseline_off_cmd": BASELINE_OFF,
            "source_commits": hook_commits,
            "add_only": True,
        },
        "engines": [{"name": "wv-harness", "path": "/verif/harness", "serves_properties": sorted(CHECKS), "kind_free_text": "Rust workspace: wv-drive (subject process, links walrus) writes an event log; wv-judge (oracle process, no walrus code) decides; ./check orchestrates shards, crash attribution, evidence and known findings"}],
        "checks": checks,
        "not_applicable": na,
        "notes": "All checks are runtime monitors over executions of the real code (see DESIGN.md). Known findings: known_findings.json.",
    }
    json.dump(m, open('/verif/MANIFEST.json', 'w'), indent=1)
    print("checks:", len(checks), "not_applicable:", len(na))

main()

#!/usr/bin/env python3
"""Regenerates MANIFEST.json from the table below (kept in one place so it stays consistent)."""
import json, subprocess

BASELINE_OFF = "cd /repo && cargo nextest run --workspace --no-fail-fast --test-threads 8 --offline || cargo test --workspace --no-fail-fast --offline"

CHECKS = {
 "C02": ("exploration", "Runtime monitor: catch_unwind around every parse/GC/edit/emit step plus the reference validator (walrus-free process) on every emitted binary, over fixtures, regression inputs, real-world modules, generated modules, censuses and generated well-formed edit scripts. Held-on-K-executions evidence; it cannot speak for inputs or edit sequences the workload did not produce.", "reference validator = wasmparser 0.214 with the documented feature set; panics observed via catch_unwind, aborts via the begin/end event-log protocol", "runtime monitoring: panic/abort observer + independent validator over recorded outputs", "6 C02"),
 "C08": ("exploration", "Runtime monitor over recorded outputs: byte equality between first and second emit on one Module, a re-parse with shifted arena ids (perturbs every id-keyed hash), a second set of processes, and the re-emitted own output (fixpoint).", "byte equality is the whole oracle; arena-id shifting and process restarts are the perturbations, other sources of nondeterminism (e.g. allocator addresses) are covered only as far as ASLR varies between the two process sets", "runtime monitoring: differential byte comparison across repeated emits, id shifts and processes", "6 C08"),
 "C20": ("exploration", "Runtime monitor: for every feature set S = full minus one proposal and the input's greedy-minimal set, V_S(input) ok implies V_S(output) ok, on fixtures, generated modules, a feature census and the operator census.", "feature sets are wasmparser 0.214's WasmFeatures flags", "runtime monitoring: differential validation of input and output under reduced feature sets", "6 C20"),
}


CHECKS.update({
 "C01": ("exploration", "Differential execution: input and re-emitted binary run side by side in an own reference interpreter (no walrus code) under the same deterministic host and seeded call sequences; results, traps, host-call trace and exported state compared after every call. Decides only the executions produced; evidence reports instructions executed, trap kinds, host calls.", "interpreter fidelity (unit tests + V8 differential self-check in wv-interp/tests); funcrefs compared by class; fuel counts calls and back-edges only", "runtime monitoring: differential execution in a reference interpreter", "6 C01"),
 "C03": ("exploration", "Lock-step comparison of normalised operator streams of every paired function (opcode, every immediate bit-exact, block signatures, entity and local operands through checked bijections) on generated bodies that draw from all operators the reference validator accepts; evidence lists the distinct operator kinds matched.", "same normaliser applied to both sides; decoder = wasmparser 0.214", "runtime monitoring: operator-stream isomorphism over recorded input/output pairs", "6 C03"),
 "C04": ("exploration", "Lock-step module isomorphism over all non-code sections from externally fixed roots; reports dropped/added/duplicated/retargeted entities and any attribute difference.", "types compared as sets of signatures; decoder = wasmparser 0.214", "runtime monitoring: module isomorphism over recorded input/output pairs", "6 C04"),
 "C05": ("exploration", "Gate monitor: arbitrary bytes (valid corpus, 16 structure-aware/byte mutators, truncations, nesting to depth 10^5/10^6, one exemplar per supported and unsupported proposal) parsed under both configurations on a 2 MiB stack with a CPU budget; verdict compared with the reference validator; panics, aborts, stack overflows and budget overruns are attributed by the begin/end event-log protocol.", "'never hangs' restated as <= 60 s CPU per input; reference = wasmparser 0.214 under the documented feature sets", "runtime monitoring: crash/panic/CPU observer + differential verdict against the reference validator", "6 C05"),
 "C06": ("exploration", "GC monitor: validator on the GC output, export list equality, reachable-implies-kept through isomorphism against the part of the input an own reachability analysis reaches, and execution equivalence through the exports in the reference interpreter; custom-section roots exercised through a harness section.", "root set as stated in the property; only live code creates edges; interpreter fidelity as for C01", "runtime monitoring: own reachability + isomorphism + differential execution", "6 C06"),
 "C07": ("exploration", "Precision: own reachability run on the GC output itself must reach every entity and type it contains; idempotence: bytes after two GC runs equal bytes after one.", "one residual memory tolerated as the property allows", "runtime monitoring: reachability analysis of recorded outputs + byte equality", "6 C07"),
 "C10": ("exploration", "DWARF monitor: synthesised well-formed DWARF (v4/v5, per-function and spanning sequences, file 0) over the LEB-boundary census and random modules, under emit / GC / inserted instructions; output read back with gimli and every row/subprogram checked against the instruction/function it designates through the isomorphism oracle.", "gimli reader; instruction identity from the isomorphism oracle", "runtime monitoring: read-back of emitted DWARF against an instruction-level bijection", "6 C10"),
 "C11": ("exploration", "A harness custom section records the CodeTransform handed to it; pairs, function ranges and code_section_start are checked against independently decoded input and output; inserted marker instructions must appear in no pair.", "absolute file offsets; the end of an else-less if may map to the synthesised else", "runtime monitoring: hooked callback observation checked against decoded binaries", "6 C11"),
 "C12": ("exploration", "List equality (name, payload, order, multiplicity) of the custom sections walrus does not interpret, for emit, second emit, GC+emit, GC+second emit, on inputs with any number/placement/naming of such sections with unique payloads.", "interpreted sections: name, producers, .debug*", "runtime monitoring: list comparison over recorded outputs", "6 C12"),
 "C13": ("exploration", "Name monitor: unique names on entities; every output name must belong to the preimage under the isomorphism bijection and every named, still-emitted entity must keep its name; partial name sections and reordering exercised.", "bijection never looks at names; unused locals/merged types/label subsections tolerated as the property states", "runtime monitoring: name-section comparison through an independent bijection", "6 C13"),
 "C14": ("exploration", "All 2^7 switch combinations on each input (exhaustive in that dimension) plus repeated round trips: single-switch differential for name/producers, producers model, .debug_* iff generate_dwarf, on_parse counter.", "generate_dwarf implies preserve_code_transform (documented)", "runtime monitoring: differential outputs across the full configuration space + callback counter", "6 C14"),
 "C19": ("exploration", "Hooked observation of both index maps through the public extension points (on_parse, CustomSection::data) compared with independently decoded binaries using index-free entity descriptions.", "descriptions computed twice: from walrus's public API by the driver, from the bytes by the judge", "runtime monitoring: callback observation checked against decoded binaries", "6 C19"),
})

CHECKS.update({
 "C16": ("exploration", "Recording visitors (default hooks and all hooks overridden, immutable and mutable) log every traversal callback of every local function; compared with the judge's own operand table over the decoded input: exact program order and grouping for the immutable traversal, operand multisets for the others; the stack span sampled inside the callbacks must not grow with nesting depth (checked up to depth 10^5, 10^6 in thorough).", "entity operands as defined in DESIGN.md section 6 C16; branch-target sequence ids not demanded", "runtime monitoring: callback log checked against an independent walk + stack-address sampling", "6 C16"),
 "C17": ("exploration", "Every history of additions/deletions up to length 6 (7 thorough) over a 5-symbol alphabet on each of the 11 public collections, plus long random histories, replayed step by step against a sequential reference model (results, get on every id ever issued, iteration order, lookups).", "small value domains; double deletes skipped on both sides", "runtime monitoring: step-by-step conformance of recorded histories to a sequential model (small bound exhaustive)", "6 C17"),
})

CHECKS.update({
 "C15": ("exploration", "Random well-typed trees built through the builder API in five construction orders; every emitted body compared operator by operator with the judge's own flattening of the same abstract tree (branch depths by the judge's own scoping, local slots through a typed bijection).", "tree generator shared by driver and judge; flattening independent of walrus", "runtime monitoring: emitted operator stream checked against an independent flattening of the built tree", "6 C15"),
 "C18": ("exploration", "Each imported / exported function of generated modules is replaced through the edit API with a traced marker body; validity, import list, exports and execution are checked against an expected-behaviour model executed on the input in the reference interpreter.", "interpreter fidelity as for C01; expected model = input with the import bound to an equivalent host function / the first export answered by the model", "runtime monitoring: differential execution against an expected-behaviour model", "6 C18"),
})

CHECKS.update({
 "C09": ("exploration", "Serial build vs parallel build byte-for-byte and decision-for-decision over 30 thread-count/delay configurations per input, with schedule perturbation through off-by-default hooks and the observed completion orders reported; thorough adds ThreadSanitizer and Miri over the rayon paths. Sampling of schedules, not enumeration.", "schedules sampled (thread counts 1..16, injected delays, Miri seeds); TSan/Miri cover only paths the workload reaches", "runtime monitoring: differential serial/parallel execution under injected delays + race detectors (TSan, Miri)", "6 C09"),
})

NOT_YET = {}

def main():
    props = [json.loads(l) for l in open('/verif/properties.jsonl')]
    hooks_commits = subprocess.run(["git", "-C", "/repo", "log", "--format=%H %s"], capture_output=True, text=True).stdout.splitlines()
    hook_commits = [l.split()[0] for l in hooks_commits if l.split(' ', 1)[1].startswith("verif-hooks")]
    checks = []
    na = []
    for p in props:
        pid = p["id"]
        if pid in CHECKS:
            level, text, note, tech, ref = CHECKS[pid]
            checks.append({
                "property_id": pid,
                "quick_cmd": "./check %s --tier quick" % pid,
                "thorough_cmd": "./check %s --tier thorough" % pid,
                "evidence_file": "/verif/evidence/%s.json" % pid,
                "replay_cmd_template": "./check %s --replay {path}" % pid,
                "engine": "wv-harness",
                "level_claimed": {"category": level, "text": text, "design_ref": "DESIGN.md section " + ref},
                "level_note": note,
                "technique": tech,
            })
        else:
            na.append({"property_id": pid, "reason": NOT_YET.get(pid, "monitor not built yet in this round (planned in DESIGN.md section 6); not claimed until its check runs clean on the unchanged tree")})
    m = {
        "version": 1,
        "setup_cmd": "cd /verif && ./check build",
        "hooks": {
            "guard": "cargo feature verif-hooks (off by default)",
            "enable": "harness builds walrus as a path dependency with `--features verif-hooks` (only the C09 flavour needs it)",
            "baseline_off_cmd": BASELINE_OFF,
            "source_commits": hook_commits,
            "add_only": True,
        },
        "engines": [{"name": "wv-harness", "path": "/verif/harness", "serves_properties": sorted(CHECKS), "kind_free_text": "Rust workspace: wv-drive (subject process, links walrus) writes an event log; wv-judge (oracle process, no walrus code) decides; ./check orchestrates shards, crash attribution, evidence and known findings"}],
        "checks": checks,
        "not_applicable": na,
        "notes": "All checks are runtime monitors over executions of the real code (see DESIGN.md). Known findings: known_findings.json.",
    }
    json.dump(m, open('/verif/MANIFEST.json', 'w'), indent=1)
    print("checks:", len(checks), "not_applicable:", len(na))

main()

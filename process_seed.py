#!/usr/bin/env python3
"""process_seed.py <ID> <N> "<what it breaks>" "<what it needs to manifest>" <props to run...>
Confirms an agent's seeded change in its scratch worktree (demo passes without / fails with the patch, suite
unchanged), runs the given checks against it with the patch applied to /repo (undone afterwards), and stores
everything under /verif/seeded/<ID>-<N>/."""
import json, os, re, shutil, subprocess, sys

ID, N, breaks, needs = sys.argv[1], sys.argv[2], sys.argv[3], sys.argv[4]
props = sys.argv[5:]
W = "%s/%s" % (os.environ.get("MUT_ROOT", "/tmp/mut"), ID)
TAG = os.environ.get("SEED_TAG", "")
out = subprocess.run(["/verif/confirm_seed.sh", ID, N], text=True, stdout=subprocess.PIPE, stderr=subprocess.STDOUT).stdout
print(out[-900:])
sec = re.split(r"== (demo without patch|demo with patch|suite with patch)\n", out)
def part(name):
    try:
        return sec[sec.index(name) + 1]
    except ValueError:
        return ""
confirmed = {
    "demo_without_patch": "pass" if "test result: ok" in part("demo without patch") else "NOT-PASSING",
    "demo_with_patch": "fail" if ("FAILED" in part("demo with patch") or "error" in part("demo with patch")) else "NOT-FAILING",
    "suite_with_patch": part("suite with patch").strip().splitlines()[0] if part("suite with patch").strip() else "?",
}
ok = confirmed["demo_without_patch"] == "pass" and confirmed["demo_with_patch"] == "fail" and "passed 146 failed 5" in confirmed["suite_with_patch"]
print("confirmed:", confirmed, "OK" if ok else "REJECTED")
if not ok:
    sys.exit(1)
r = subprocess.run([os.environ.get("SEEDTEST", "/verif/seedtest.py"), "%s/deliver/patch%s.diff" % (W, N)] + props, text=True, stdout=subprocess.PIPE, stderr=subprocess.STDOUT)
print(r.stdout[-1500:])
res = json.loads(r.stdout.strip().splitlines()[-1])
d = "/verif/seeded/%s-%s%s" % (ID, TAG, N)
os.makedirs(d, exist_ok=True)
shutil.copy("%s/deliver/patch%s.diff" % (W, N), d + "/patch.diff")
shutil.copy("%s/deliver/demo%s.rs" % (W, N), d + "/demo.rs")
if os.path.exists(W + "/deliver/demo-cargo.diff"):
    shutil.copy(W + "/deliver/demo-cargo.diff", d + "/demo-cargo.diff")
if os.path.exists(W + "/deliver/notes.md"):
    shutil.copy(W + "/deliver/notes.md", d + "/author-notes.md")
meta = {
    "id": "%s-%s%s" % (ID, TAG, N), "property": ID, "breaks": breaks, "needs_to_manifest": needs,
    "confirmed_in_scratch_worktree": confirmed,
    "demo_features": os.environ.get("DEMO_FEATURES", ""),
    "how_confirmed": "confirm_seed.sh: demo dropped into crates/tests/tests, `cargo test --offline -p walrus-tests --test demoN` without and with the patch; `cargo test --workspace --no-fail-fast --offline` with the patch",
    "checks_run": {p: {"exit": v["exit"], "violations": v["violations"], "harness_errors": v["harness_errors"]} for p, v in res["results"].items()},
    "caught_by": res["caught_by"],
    "tier": os.environ.get("SEED_TIER", "quick"),
}
json.dump(meta, open(d + "/meta.json", "w"), indent=1)
print("stored", d, "caught_by", res["caught_by"])

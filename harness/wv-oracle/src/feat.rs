//! Reference validator V: wasmparser's validator configured from the feature
//! list `ModuleConfig` documents, run in a process that contains no walrus code.

use wasmparser::{Validator, WasmFeatures};

pub const PROPOSALS: [(&str, WasmFeatures); 12] = [
    ("mutable-global", WasmFeatures::MUTABLE_GLOBAL),
    ("sat-float-to-int", WasmFeatures::SATURATING_FLOAT_TO_INT),
    ("sign-extension", WasmFeatures::SIGN_EXTENSION),
    ("multi-value", WasmFeatures::MULTI_VALUE),
    ("reference-types", WasmFeatures::REFERENCE_TYPES),
    ("bulk-memory", WasmFeatures::BULK_MEMORY),
    ("simd", WasmFeatures::SIMD),
    ("relaxed-simd", WasmFeatures::RELAXED_SIMD),
    ("tail-call", WasmFeatures::TAIL_CALL),
    ("multi-memory", WasmFeatures::MULTI_MEMORY),
    ("memory64", WasmFeatures::MEMORY64),
    ("threads", WasmFeatures::THREADS),
];

/// The feature set walrus documents: everything in PROPOSALS; with
/// `only_stable_features` multi-memory, memory64 and threads are removed.
pub fn walrus_features(only_stable: bool) -> WasmFeatures {
    let mut f = WasmFeatures::empty();
    f.insert(WasmFeatures::FLOATS);
    for (name, x) in PROPOSALS {
        if only_stable && matches!(name, "multi-memory" | "memory64" | "threads") {
            continue;
        }
        f.insert(x);
    }
    f
}

pub fn mvp_features() -> WasmFeatures {
    let mut f = WasmFeatures::empty();
    f.insert(WasmFeatures::FLOATS);
    f
}

pub fn validate_with(bytes: &[u8], f: WasmFeatures) -> Result<(), String> {
    Validator::new_with_features(f).validate_all(bytes).map(|_| ()).map_err(|e| e.to_string())
}

pub fn validate(bytes: &[u8], only_stable: bool) -> Result<(), String> {
    validate_with(bytes, walrus_features(only_stable))
}

/// Smallest subset of PROPOSALS (greedy removal in fixed order, then verified) under which `bytes` validates.
pub fn minimal_features(bytes: &[u8]) -> Option<WasmFeatures> {
    let mut cur = walrus_features(false);
    if validate_with(bytes, cur).is_err() {
        return None;
    }
    // relaxed-simd implies simd etc.; remove greedily in reverse order so dependants go first
    for (_, x) in PROPOSALS.iter().rev() {
        let mut t = cur;
        t.remove(*x);
        if validate_with(bytes, t).is_ok() {
            cur = t;
        }
    }
    Some(cur)
}

pub fn feature_names(f: WasmFeatures) -> Vec<&'static str> {
    PROPOSALS.iter().filter(|(_, x)| f.contains(*x)).map(|(n, _)| *n).collect()
}

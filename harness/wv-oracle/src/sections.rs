//! Raw section-level helpers: strip a custom section, read producers / name sections.

use wasmparser::{BinaryReader, Name, NameSectionReader, Parser, Payload, ProducersSectionReader, WasmFeatures};

/// The binary with every custom section called `name` removed (everything else byte-identical).
pub fn strip_custom(wasm: &[u8], name: &str) -> Vec<u8> {
    let mut out = Vec::with_capacity(wasm.len());
    let mut last = 0usize;
    for p in Parser::new(0).parse_all(wasm) {
        let p = match p {
            Ok(p) => p,
            Err(_) => break,
        };
        if let Payload::CustomSection(c) = &p {
            if c.name() == name {
                let r = c.range();
                // the section header (id + size LEB) precedes the range: find it by scanning back
                let mut hdr = r.start;
                // size LEB is at most 5 bytes, preceded by the id byte 0
                for len in 1..=5usize {
                    if r.start < len + 1 {
                        break;
                    }
                    let s = &wasm[r.start - len..r.start];
                    if s[len - 1] & 0x80 != 0 || s[..len - 1].iter().any(|b| b & 0x80 == 0) {
                        continue;
                    }
                    let mut v = 0usize;
                    for (i, b) in s.iter().enumerate() {
                        v |= ((b & 0x7f) as usize) << (7 * i);
                    }
                    if v == r.end - r.start && wasm[r.start - len - 1] == 0 {
                        hdr = r.start - len - 1;
                        break;
                    }
                }
                out.extend_from_slice(&wasm[last..hdr]);
                last = r.end;
            }
        }
    }
    out.extend_from_slice(&wasm[last..]);
    out
}

fn leb(out: &mut Vec<u8>, mut v: u32) {
    loop {
        let b = (v & 0x7f) as u8;
        v >>= 7;
        if v == 0 {
            out.push(b);
            break;
        }
        out.push(b | 0x80);
    }
}

fn read_leb(b: &[u8], mut p: usize) -> Option<(u32, usize)> {
    let (mut v, mut shift) = (0u32, 0);
    loop {
        let x = *b.get(p)?;
        p += 1;
        v |= ((x & 0x7f) as u32) << shift;
        if x & 0x80 == 0 {
            return Some((v, p));
        }
        shift += 7;
        if shift > 28 {
            return None;
        }
    }
}

/// Give the k-th function import (k = its function index) the field name `f(k, module, field)`; everything else
/// stays byte for byte. Used to make imports that share a (module, field) pair distinguishable for the host of
/// the reference interpreter.
pub fn rename_func_imports(wasm: &[u8], f: &dyn Fn(u32, &str, &str) -> String) -> Option<Vec<u8>> {
    for p in Parser::new(0).parse_all(wasm) {
        if let Payload::ImportSection(r) = p.ok()? {
            let range = r.range();
            let body = &wasm[range.start..range.end];
            let (count, mut pos) = read_leb(body, 0)?;
            let mut new_body = Vec::new();
            leb(&mut new_body, count);
            let mut k = 0u32;
            for imp in r.clone().into_iter() {
                let imp = imp.ok()?;
                let (ml, p1) = read_leb(body, pos)?;
                let mstart = p1;
                let (fl, p2) = read_leb(body, mstart + ml as usize)?;
                let fstart = p2;
                let desc_start = fstart + fl as usize;
                // length of the descriptor: up to the next entry, found by re-reading the next entry's start
                let module = std::str::from_utf8(&body[mstart..mstart + ml as usize]).ok()?;
                let field = std::str::from_utf8(&body[fstart..desc_start]).ok()?;
                let desc_len = import_desc_len(&body[desc_start..])?;
                let is_func = matches!(imp.ty, wasmparser::TypeRef::Func(_));
                let new_field = if is_func { f(k, module, field) } else { field.to_string() };
                if is_func {
                    k += 1;
                }
                leb(&mut new_body, ml);
                new_body.extend_from_slice(module.as_bytes());
                leb(&mut new_body, new_field.len() as u32);
                new_body.extend_from_slice(new_field.as_bytes());
                new_body.extend_from_slice(&body[desc_start..desc_start + desc_len]);
                pos = desc_start + desc_len;
            }
            // header: id byte 2 and size LEB in front of the payload
            let mut hdr = None;
            for len in 1..=5usize {
                if range.start < len + 1 {
                    break;
                }
                if let Some((v, e)) = read_leb(wasm, range.start - len) {
                    if e == range.start && v as usize == range.end - range.start && wasm[range.start - len - 1] == 2 {
                        hdr = Some(range.start - len - 1);
                        break;
                    }
                }
            }
            let hdr = hdr?;
            let mut out = wasm[..hdr].to_vec();
            out.push(2);
            leb(&mut out, new_body.len() as u32);
            out.extend_from_slice(&new_body);
            out.extend_from_slice(&wasm[range.end..]);
            return Some(out);
        }
    }
    Some(wasm.to_vec())
}

/// Byte length of an import descriptor (kind byte + type).
fn import_desc_len(b: &[u8]) -> Option<usize> {
    let kind = *b.first()?;
    let limits = |b: &[u8], mut p: usize| -> Option<usize> {
        let flags = *b.get(p)?;
        p += 1;
        let (_, q) = read_leb64(b, p)?;
        p = q;
        if flags & 1 != 0 {
            let (_, q) = read_leb64(b, p)?;
            p = q;
        }
        if flags & 8 != 0 {
            let (_, q) = read_leb(b, p)?;
            p = q;
        }
        Some(p)
    };
    match kind {
        0 => read_leb(b, 1).map(|(_, p)| p),
        1 => {
            // reftype (one byte for funcref/externref, longer forms start with 0x63/0x64) then limits
            let mut p = 1;
            if matches!(*b.get(p)?, 0x63 | 0x64) {
                p += 1;
                let (_, q) = read_leb(b, p)?;
                p = q;
            } else {
                p += 1;
            }
            limits(b, p)
        }
        2 => limits(b, 1),
        3 => Some(3),
        4 => read_leb(b, 2).map(|(_, p)| p),
        _ => None,
    }
}

fn read_leb64(b: &[u8], mut p: usize) -> Option<(u64, usize)> {
    let (mut v, mut shift) = (0u64, 0);
    loop {
        let x = *b.get(p)?;
        p += 1;
        v |= ((x & 0x7f) as u64) << shift;
        if x & 0x80 == 0 {
            return Some((v, p));
        }
        shift += 7;
        if shift > 63 {
            return None;
        }
    }
}

pub type Producers = Vec<(String, Vec<(String, String)>)>;

pub fn producers(data: &[u8]) -> Result<Producers, String> {
    let r = ProducersSectionReader::new(BinaryReader::new(data, 0, WasmFeatures::all())).map_err(|e| e.to_string())?;
    let mut out = Vec::new();
    for f in r {
        let f = f.map_err(|e| e.to_string())?;
        let mut vals = Vec::new();
        for v in f.values {
            let v = v.map_err(|e| e.to_string())?;
            vals.push((v.name.to_string(), v.version.to_string()));
        }
        out.push((f.name.to_string(), vals));
    }
    Ok(out)
}

#[derive(Clone, Debug, Default, PartialEq)]
pub struct Names {
    pub module: Option<String>,
    pub funcs: Vec<(u32, String)>,
    pub locals: Vec<(u32, Vec<(u32, String)>)>,
    pub types: Vec<(u32, String)>,
    pub tables: Vec<(u32, String)>,
    pub memories: Vec<(u32, String)>,
    pub globals: Vec<(u32, String)>,
    pub elems: Vec<(u32, String)>,
    pub datas: Vec<(u32, String)>,
    pub other_subsections: Vec<String>,
}

pub fn names(data: &[u8]) -> Result<Names, String> {
    let mut n = Names::default();
    let e = |e: wasmparser::BinaryReaderError| e.to_string();
    let nm = |m: wasmparser::NameMap| -> Result<Vec<(u32, String)>, String> {
        let mut v = Vec::new();
        for x in m {
            let x = x.map_err(|e| e.to_string())?;
            v.push((x.index, x.name.to_string()));
        }
        Ok(v)
    };
    for s in NameSectionReader::new(BinaryReader::new(data, 0, WasmFeatures::all())) {
        match s.map_err(e)? {
            Name::Module { name, .. } => n.module = Some(name.to_string()),
            Name::Function(m) => n.funcs = nm(m)?,
            Name::Local(m) => {
                for f in m {
                    let f = f.map_err(e)?;
                    n.locals.push((f.index, nm(f.names)?));
                }
            }
            Name::Type(m) => n.types = nm(m)?,
            Name::Table(m) => n.tables = nm(m)?,
            Name::Memory(m) => n.memories = nm(m)?,
            Name::Global(m) => n.globals = nm(m)?,
            Name::Element(m) => n.elems = nm(m)?,
            Name::Data(m) => n.datas = nm(m)?,
            Name::Label(_) => n.other_subsections.push("label".into()),
            Name::Field(_) => n.other_subsections.push("field".into()),
            Name::Tag(_) => n.other_subsections.push("tag".into()),
            Name::Unknown { ty, .. } => n.other_subsections.push(format!("unknown-{}", ty)),
        }
    }
    Ok(n)
}

//! Raw section-level helpers: strip a custom section, read producers / name sections.

use wasmparser::{BinaryReader, Name, NameSectionReader, Parser, Payload, ProducersSectionReader, WasmFeatures};

/// The binary with every custom section called `name` removed (everything else byte-identical).
pub fn strip_custom(wasm: &[u8], name: &str) -> Vec<u8> {
    let mut out = Vec::with_capacity(wasm.len());
    let mut last = 0usize;
    for p in Parser::new(0).parse_all(wasm) {
        let p = match p {
            Ok(p) => p,
            Err(_) => break,
        };
        if let Payload::CustomSection(c) = &p {
            if c.name() == name {
                let r = c.range();
                // the section header (id + size LEB) precedes the range: find it by scanning back
                let mut hdr = r.start;
                // size LEB is at most 5 bytes, preceded by the id byte 0
                for len in 1..=5usize {
                    if r.start < len + 1 {
                        break;
                    }
                    let s = &wasm[r.start - len..r.start];
                    if s[len - 1] & 0x80 != 0 || s[..len - 1].iter().any(|b| b & 0x80 == 0) {
                        continue;
                    }
                    let mut v = 0usize;
                    for (i, b) in s.iter().enumerate() {
                        v |= ((b & 0x7f) as usize) << (7 * i);
                    }
                    if v == r.end - r.start && wasm[r.start - len - 1] == 0 {
                        hdr = r.start - len - 1;
                        break;
                    }
                }
                out.extend_from_slice(&wasm[last..hdr]);
                last = r.end;
            }
        }
    }
    out.extend_from_slice(&wasm[last..]);
    out
}

pub type Producers = Vec<(String, Vec<(String, String)>)>;

pub fn producers(data: &[u8]) -> Result<Producers, String> {
    let r = ProducersSectionReader::new(BinaryReader::new(data, 0, WasmFeatures::all())).map_err(|e| e.to_string())?;
    let mut out = Vec::new();
    for f in r {
        let f = f.map_err(|e| e.to_string())?;
        let mut vals = Vec::new();
        for v in f.values {
            let v = v.map_err(|e| e.to_string())?;
            vals.push((v.name.to_string(), v.version.to_string()));
        }
        out.push((f.name.to_string(), vals));
    }
    Ok(out)
}

#[derive(Clone, Debug, Default, PartialEq)]
pub struct Names {
    pub module: Option<String>,
    pub funcs: Vec<(u32, String)>,
    pub locals: Vec<(u32, Vec<(u32, String)>)>,
    pub types: Vec<(u32, String)>,
    pub tables: Vec<(u32, String)>,
    pub memories: Vec<(u32, String)>,
    pub globals: Vec<(u32, String)>,
    pub elems: Vec<(u32, String)>,
    pub datas: Vec<(u32, String)>,
    pub other_subsections: Vec<String>,
}

pub fn names(data: &[u8]) -> Result<Names, String> {
    let mut n = Names::default();
    let e = |e: wasmparser::BinaryReaderError| e.to_string();
    let nm = |m: wasmparser::NameMap| -> Result<Vec<(u32, String)>, String> {
        let mut v = Vec::new();
        for x in m {
            let x = x.map_err(|e| e.to_string())?;
            v.push((x.index, x.name.to_string()));
        }
        Ok(v)
    };
    for s in NameSectionReader::new(BinaryReader::new(data, 0, WasmFeatures::all())) {
        match s.map_err(e)? {
            Name::Module { name, .. } => n.module = Some(name.to_string()),
            Name::Function(m) => n.funcs = nm(m)?,
            Name::Local(m) => {
                for f in m {
                    let f = f.map_err(e)?;
                    n.locals.push((f.index, nm(f.names)?));
                }
            }
            Name::Type(m) => n.types = nm(m)?,
            Name::Table(m) => n.tables = nm(m)?,
            Name::Memory(m) => n.memories = nm(m)?,
            Name::Global(m) => n.globals = nm(m)?,
            Name::Element(m) => n.elems = nm(m)?,
            Name::Data(m) => n.datas = nm(m)?,
            Name::Label(_) => n.other_subsections.push("label".into()),
            Name::Field(_) => n.other_subsections.push("field".into()),
            Name::Tag(_) => n.other_subsections.push("tag".into()),
            Name::Unknown { ty, .. } => n.other_subsections.push(format!("unknown-{}", ty)),
        }
    }
    Ok(n)
}

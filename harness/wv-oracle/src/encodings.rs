//! Post-MVP *encodings* a binary uses, found by looking at the bytes. wasmparser 0.214 does not gate
//! several of them on any feature flag (element-segment flags, data-segment flags, the data-count
//! section), so "validates under a reduced feature set" alone cannot show that an MVP module stayed MVP.

use crate::decode::DModule;
use std::collections::BTreeSet;
use wasmparser::{BlockType, Operator, Parser, Payload};

fn leb_at(b: &[u8], mut p: usize) -> Option<(u64, usize)> {
    let mut v = 0u64;
    let mut s = 0;
    let start = p;
    loop {
        let x = *b.get(p)?;
        p += 1;
        v |= ((x & 0x7f) as u64) << s;
        if x & 0x80 == 0 {
            return Some((v, p - start));
        }
        s += 7;
        if s > 63 {
            return None;
        }
    }
}

/// (encoding class, proposal that introduces it)
pub const CLASSES: [(&str, &str); 7] = [
    ("data-count-section", "bulk-memory"),
    ("element-segment-flags", "bulk-memory"),
    ("data-segment-flags", "bulk-memory"),
    ("block-type-index", "multi-value"),
    ("call-indirect-table-immediate", "reference-types"),
    ("memory-index-immediate", "multi-memory"),
    ("memarg-memory-index-flag", "multi-memory"),
];

pub fn encodings(wasm: &[u8], m: &DModule) -> BTreeSet<&'static str> {
    let mut out = BTreeSet::new();
    if m.data_count.is_some() {
        out.insert("data-count-section");
    }
    for p in Parser::new(0).parse_all(wasm) {
        match p {
            Ok(Payload::ElementSection(s)) => {
                for item in s.into_iter_with_offsets() {
                    if let Ok((off, _)) = item {
                        if let Some((flag, _)) = leb_at(wasm, off) {
                            if flag != 0 {
                                out.insert("element-segment-flags");
                            }
                        }
                    }
                }
            }
            Ok(Payload::DataSection(s)) => {
                for item in s.into_iter_with_offsets() {
                    if let Ok((off, _)) = item {
                        if let Some((flag, _)) = leb_at(wasm, off) {
                            if flag != 0 {
                                out.insert("data-segment-flags");
                            }
                        }
                    }
                }
            }
            Ok(_) => {}
            Err(_) => break,
        }
    }
    for f in &m.funcs {
        if let Some(b) = &f.body {
            for o in &b.ops {
                match &o.op {
                    Operator::Block { blockty: BlockType::FuncType(_) } | Operator::Loop { blockty: BlockType::FuncType(_) } | Operator::If { blockty: BlockType::FuncType(_) } => {
                        out.insert("block-type-index");
                    }
                    Operator::CallIndirect { .. } => {
                        // 0x11, type index LEB, table LEB: MVP requires the single byte 0x00
                        if let Some((_, n)) = leb_at(wasm, o.offset + 1) {
                            if let Some((t, tn)) = leb_at(wasm, o.offset + 1 + n) {
                                if t != 0 || tn != 1 {
                                    out.insert("call-indirect-table-immediate");
                                }
                            }
                        }
                    }
                    Operator::MemorySize { .. } | Operator::MemoryGrow { .. } => {
                        if wasm.get(o.offset + 1) != Some(&0) {
                            out.insert("memory-index-immediate");
                        }
                    }
                    _ => {
                        // plain loads/stores: 0x28..=0x3e, flags LEB right after the opcode
                        if let Some(op) = wasm.get(o.offset) {
                            if (0x28..=0x3e).contains(op) {
                                if let Some((flags, _)) = leb_at(wasm, o.offset + 1) {
                                    if flags & 0x40 != 0 {
                                        out.insert("memarg-memory-index-flag");
                                    }
                                }
                            }
                        }
                    }
                }
            }
        }
    }
    out
}

//! Oracle R: own reachability analysis over a decoded binary, with the root
//! set as the properties define it: exports, the start function, active data
//! segments, active element segments of imported tables, declared element
//! segments and custom-section roots registered by the harness. Only live
//! (N-normalised) code creates edges.

use crate::decode::*;
use crate::iso::Keep;
use crate::norm::{normalise, NKind};
use wasmparser::BlockType;
use wv_gen::ops::{self, Raw, RefKind};

#[derive(Clone, Debug, Default)]
pub struct ExtraRoots {
    pub funcs: Vec<u32>,
    pub tables: Vec<u32>,
    pub memories: Vec<u32>,
    pub globals: Vec<u32>,
}

#[derive(Clone, Debug, Default)]
pub struct Reach {
    pub keep: Keep,
    /// the one memory kept only because data segments are kept and no memory is otherwise reachable
    pub residual_memory: Option<u32>,
    /// edge kinds exercised: "<from-kind>-><to-kind> via <how>"
    pub edges_seen: std::collections::BTreeSet<String>,
}

struct W<'m, 'a> {
    /// a block type given by index refers to that type whatever its shape (true for binaries walrus emitted:
    /// what is written by index is referenced; false for inputs, whose simple block types walrus re-emits inline)
    strict_block_types: bool,
    m: &'m DModule<'a>,
    r: Reach,
    wf: Vec<u32>,
    wt: Vec<u32>,
    wm: Vec<u32>,
    wg: Vec<u32>,
    we: Vec<u32>,
    wd: Vec<u32>,
}

impl<'m, 'a> W<'m, 'a> {
    fn mark(v: &mut Vec<bool>, i: u32) -> bool {
        match v.get_mut(i as usize) {
            Some(slot) if !*slot => {
                *slot = true;
                true
            }
            _ => false,
        }
    }
    fn func(&mut self, i: u32, why: &str) {
        if Self::mark(&mut self.r.keep.funcs, i) {
            self.wf.push(i);
        }
        self.r.edges_seen.insert(format!("{}->func", why));
    }
    fn table(&mut self, i: u32, why: &str) {
        if Self::mark(&mut self.r.keep.tables, i) {
            self.wt.push(i);
        }
        self.r.edges_seen.insert(format!("{}->table", why));
    }
    fn memory(&mut self, i: u32, why: &str) {
        if Self::mark(&mut self.r.keep.memories, i) {
            self.wm.push(i);
        }
        self.r.edges_seen.insert(format!("{}->memory", why));
    }
    fn global(&mut self, i: u32, why: &str) {
        if Self::mark(&mut self.r.keep.globals, i) {
            self.wg.push(i);
        }
        self.r.edges_seen.insert(format!("{}->global", why));
    }
    fn elem(&mut self, i: u32, why: &str) {
        if Self::mark(&mut self.r.keep.elems, i) {
            self.we.push(i);
        }
        self.r.edges_seen.insert(format!("{}->elem", why));
    }
    fn data(&mut self, i: u32, why: &str) {
        if Self::mark(&mut self.r.keep.datas, i) {
            self.wd.push(i);
        }
        self.r.edges_seen.insert(format!("{}->data", why));
    }
    fn ty(&mut self, i: u32, why: &str) {
        Self::mark(&mut self.r.keep.types, i);
        self.r.edges_seen.insert(format!("{}->type", why));
    }
    fn cexpr(&mut self, c: &DConst, why: &str) {
        match c {
            DConst::GlobalGet(g) => self.global(*g, &format!("{}:global.get", why)),
            DConst::RefFunc(f) => self.func(*f, &format!("{}:ref.func", why)),
            _ => {}
        }
    }
    fn run(&mut self) {
        loop {
            if let Some(f) = self.wf.pop() {
                let func = &self.m.funcs[f as usize];
                self.ty(func.ty, "func-signature");
                if let Some(b) = &func.body {
                    for o in normalise(&b.ops) {
                        let op = match &o.kind {
                            NKind::Op(op) => op,
                            _ => continue,
                        };
                        let (k, fields) = ops::fields_of(op);
                        let name = crate::iso::op_kind_name(k);
                        for (fname, raw) in fields {
                            match raw {
                                Raw::U32(v) => match ops::field_ref_kind(fname) {
                                    Some(RefKind::Func) => self.func(v, &format!("code:{}", name)),
                                    Some(RefKind::Global) => self.global(v, &format!("code:{}", name)),
                                    Some(RefKind::Table) => self.table(v, &format!("code:{}.{}", name, fname)),
                                    Some(RefKind::Memory) => self.memory(v, &format!("code:{}.{}", name, fname)),
                                    Some(RefKind::Type) => self.ty(v, &format!("code:{}", name)),
                                    Some(RefKind::Data) => self.data(v, &format!("code:{}", name)),
                                    Some(RefKind::Elem) => self.elem(v, &format!("code:{}", name)),
                                    _ => {}
                                },
                                Raw::MemArg { memory, .. } => self.memory(memory, "code:memarg"),
                                Raw::Block(BlockType::FuncType(t)) => {
                                    // single-result/empty signatures are re-emitted inline by walrus: the type is then not needed
                                    let needs = self.strict_block_types || self.m.types.get(t as usize).map(|s| !(s.params.is_empty() && s.results.len() <= 1)).unwrap_or(true);
                                    if needs {
                                        self.ty(t, "code:block-type");
                                    }
                                }
                                _ => {}
                            }
                        }
                    }
                }
                continue;
            }
            if let Some(t) = self.wt.pop() {
                // a kept table keeps its active element segments
                for (i, e) in self.m.elems.iter().enumerate() {
                    if let DElemMode::Active { table, .. } = &e.mode {
                        if *table == t {
                            self.elem(i as u32, "table:active-segment");
                        }
                    }
                }
                continue;
            }
            if let Some(mm) = self.wm.pop() {
                for (i, d) in self.m.datas.iter().enumerate() {
                    if let DDataMode::Active { mem, .. } = &d.mode {
                        if *mem == mm {
                            self.data(i as u32, "memory:active-segment");
                        }
                    }
                }
                continue;
            }
            if let Some(g) = self.wg.pop() {
                if let Some(init) = self.m.globals[g as usize].init.clone() {
                    self.cexpr(&init, "global-init");
                }
                continue;
            }
            if let Some(e) = self.we.pop() {
                let el = self.m.elems[e as usize].clone();
                for it in &el.items {
                    self.cexpr(it, &format!("elem-item-{:?}", el.ty).to_lowercase());
                }
                if let DElemMode::Active { table, offset } = &el.mode {
                    self.table(*table, "elem:target");
                    self.cexpr(offset, "elem-offset");
                }
                continue;
            }
            if let Some(d) = self.wd.pop() {
                if let DDataMode::Active { mem, offset } = self.m.datas[d as usize].mode.clone() {
                    self.memory(mem, "data:target");
                    self.cexpr(&offset, "data-offset");
                }
                continue;
            }
            break;
        }
    }
}

pub fn reach<'m, 'a>(m: &'m DModule<'a>, extra: &ExtraRoots) -> Reach {
    reach_opts(m, extra, false)
}

/// `strict_block_types`: see `W::strict_block_types`; used when the precision of an emitted binary is judged.
pub fn reach_opts<'m, 'a>(m: &'m DModule<'a>, extra: &ExtraRoots, strict_block_types: bool) -> Reach {
    let mut w = W {
        strict_block_types,
        m,
        r: Reach {
            keep: Keep {
                funcs: vec![false; m.funcs.len()],
                tables: vec![false; m.tables.len()],
                memories: vec![false; m.memories.len()],
                globals: vec![false; m.globals.len()],
                elems: vec![false; m.elems.len()],
                datas: vec![false; m.datas.len()],
                types: vec![false; m.types.len()],
            },
            ..Default::default()
        },
        wf: vec![],
        wt: vec![],
        wm: vec![],
        wg: vec![],
        we: vec![],
        wd: vec![],
    };
    for e in &m.exports {
        match e.kind {
            EKind::Func => w.func(e.index, "export"),
            EKind::Table => w.table(e.index, "export"),
            EKind::Memory => w.memory(e.index, "export"),
            EKind::Global => w.global(e.index, "export"),
        }
    }
    if let Some(s) = m.start {
        w.func(s, "start");
    }
    for (i, d) in m.datas.iter().enumerate() {
        if matches!(d.mode, DDataMode::Active { .. }) {
            w.data(i as u32, "root:active-data");
        }
    }
    for (i, e) in m.elems.iter().enumerate() {
        match &e.mode {
            DElemMode::Active { table, .. } => {
                if m.tables.get(*table as usize).map(|t| t.import.is_some()).unwrap_or(false) {
                    w.elem(i as u32, "root:active-elem-of-imported-table");
                }
            }
            DElemMode::Declared => w.elem(i as u32, "root:declared-elem"),
            DElemMode::Passive => {}
        }
    }
    for f in &extra.funcs {
        w.func(*f, "custom-section-root");
    }
    for t in &extra.tables {
        w.table(*t, "custom-section-root");
    }
    for t in &extra.memories {
        w.memory(*t, "custom-section-root");
    }
    for t in &extra.globals {
        w.global(*t, "custom-section-root");
    }
    w.run();
    // tolerated residue: data segments kept but no memory reachable -> the first memory stays
    if w.r.keep.datas.iter().any(|d| *d) && !w.r.keep.memories.iter().any(|x| *x) && !m.memories.is_empty() {
        w.r.keep.memories[0] = true;
        w.r.residual_memory = Some(0);
    }
    w.r
}

/// Entities that are referenced by anything at all (any function body - live code as walrus's IR has
/// it -, any segment, global initialiser, export or start), reachable or not. An entity outside this
/// set can be deleted through the edit API without leaving a dangling reference.
pub fn referenced<'m, 'a>(m: &'m DModule<'a>) -> Keep {
    use crate::norm::normalise_with;
    let mut k = Keep {
        funcs: vec![false; m.funcs.len()],
        tables: vec![false; m.tables.len()],
        memories: vec![false; m.memories.len()],
        globals: vec![false; m.globals.len()],
        elems: vec![false; m.elems.len()],
        datas: vec![false; m.datas.len()],
        types: vec![false; m.types.len()],
    };
    fn set(v: &mut Vec<bool>, i: u32) {
        if let Some(s) = v.get_mut(i as usize) {
            *s = true;
        }
    }
    let cexpr = |k: &mut Keep, c: &DConst| match c {
        DConst::GlobalGet(g) => set(&mut k.globals, *g),
        DConst::RefFunc(f) => set(&mut k.funcs, *f),
        _ => {}
    };
    for e in &m.exports {
        match e.kind {
            EKind::Func => set(&mut k.funcs, e.index),
            EKind::Table => set(&mut k.tables, e.index),
            EKind::Memory => set(&mut k.memories, e.index),
            EKind::Global => set(&mut k.globals, e.index),
        }
    }
    if let Some(s) = m.start {
        set(&mut k.funcs, s);
    }
    for g in &m.globals {
        if let Some(i) = &g.init {
            cexpr(&mut k, i);
        }
    }
    for e in &m.elems {
        for it in &e.items {
            cexpr(&mut k, it);
        }
        if let DElemMode::Active { table, offset } = &e.mode {
            set(&mut k.tables, *table);
            cexpr(&mut k, offset);
        }
    }
    for d in &m.datas {
        if let DDataMode::Active { mem, offset } = &d.mode {
            set(&mut k.memories, *mem);
            cexpr(&mut k, offset);
        }
    }
    for f in &m.funcs {
        set(&mut k.types, f.ty);
        if let Some(b) = &f.body {
            for o in normalise_with(&b.ops, false) {
                if let NKind::Op(op) = &o.kind {
                    for (fname, raw) in ops::fields_of(op).1 {
                        match raw {
                            Raw::U32(v) => match ops::field_ref_kind(fname) {
                                Some(RefKind::Func) => set(&mut k.funcs, v),
                                Some(RefKind::Global) => set(&mut k.globals, v),
                                Some(RefKind::Table) => set(&mut k.tables, v),
                                Some(RefKind::Memory) => set(&mut k.memories, v),
                                Some(RefKind::Type) => set(&mut k.types, v),
                                Some(RefKind::Data) => set(&mut k.datas, v),
                                Some(RefKind::Elem) => set(&mut k.elems, v),
                                _ => {}
                            },
                            Raw::MemArg { memory, .. } => set(&mut k.memories, memory),
                            Raw::Block(BlockType::FuncType(t)) => set(&mut k.types, t),
                            _ => {}
                        }
                    }
                }
            }
        }
    }
    k
}

//! Oracle N: operator-stream normaliser. Applied to BOTH the input and the
//! output body before they are compared, so the comparison is "equal after nop
//! and dead-code elision" and does not depend on which dead code walrus keeps.
//!
//!  * `nop` is dropped;
//!  * syntactically dead code is dropped: everything after `br`, `br_table`,
//!    `return`, `unreachable`, `return_call`, `return_call_indirect` up to the
//!    `else`/`end` that closes the enclosing construct (nested constructs wholesale);
//!  * every `if` without `else` gets an empty synthetic `else` (walrus always
//!    emits one; it is a structural no-op).

use crate::decode::{DBody, DOp};
use wasmparser::Operator;

#[derive(Clone, Debug)]
pub enum NKind<'a> {
    Op(Operator<'a>),
    /// `else` inserted by the normaliser for an `if` that has none
    SyntheticElse,
}

#[derive(Clone, Debug)]
pub struct NOp<'a> {
    pub kind: NKind<'a>,
    /// file offset of the operator; for a synthetic else the offset of the `end` it precedes
    pub offset: usize,
    /// index into the raw operator list (for a synthetic else: index of the `end`)
    pub raw_index: usize,
    /// nesting depth (number of open constructs, function frame = 0) before this operator
    pub depth: usize,
}

#[derive(Clone, Copy, PartialEq, Debug)]
enum FrameKind {
    Func,
    Block,
    Loop,
    If,
}

struct Frame {
    kind: FrameKind,
    has_else: bool,
    /// code in this frame is currently dead
    dead: bool,
}

pub fn is_terminator(op: &Operator) -> bool {
    matches!(
        op,
        Operator::Br { .. } | Operator::BrTable { .. } | Operator::Return | Operator::Unreachable | Operator::ReturnCall { .. } | Operator::ReturnCallIndirect { .. }
    )
}

pub fn normalise<'a>(ops: &[DOp<'a>]) -> Vec<NOp<'a>> {
    normalise_with(ops, true)
}

/// With `tail_calls_terminate == false`, code after `return_call*` is kept (as walrus does); used only
/// where the judge has to describe what walrus's IR contains, never for the equivalence check.
pub fn normalise_with<'a>(ops: &[DOp<'a>], tail_calls_terminate: bool) -> Vec<NOp<'a>> {
    let mut out = Vec::with_capacity(ops.len());
    let mut frames: Vec<Frame> = vec![Frame { kind: FrameKind::Func, has_else: false, dead: false }];
    // number of nested constructs opened while dead (skipped wholesale)
    let mut skip = 0usize;
    for (i, d) in ops.iter().enumerate() {
        let dead = frames.last().map(|f| f.dead).unwrap_or(false);
        if dead {
            match &d.op {
                Operator::Block { .. } | Operator::Loop { .. } | Operator::If { .. } => {
                    skip += 1;
                    continue;
                }
                Operator::End if skip > 0 => {
                    skip -= 1;
                    continue;
                }
                Operator::Else if skip > 0 => continue,
                Operator::End | Operator::Else => { /* closes / switches the current frame: handled below */ }
                _ => continue,
            }
        }
        match &d.op {
            Operator::Nop => continue,
            Operator::Block { .. } => {
                out.push(NOp { kind: NKind::Op(d.op.clone()), offset: d.offset, raw_index: i, depth: frames.len() - 1 });
                frames.push(Frame { kind: FrameKind::Block, has_else: false, dead: false });
            }
            Operator::Loop { .. } => {
                out.push(NOp { kind: NKind::Op(d.op.clone()), offset: d.offset, raw_index: i, depth: frames.len() - 1 });
                frames.push(Frame { kind: FrameKind::Loop, has_else: false, dead: false });
            }
            Operator::If { .. } => {
                out.push(NOp { kind: NKind::Op(d.op.clone()), offset: d.offset, raw_index: i, depth: frames.len() - 1 });
                frames.push(Frame { kind: FrameKind::If, has_else: false, dead: false });
            }
            Operator::Else => {
                if let Some(f) = frames.last_mut() {
                    f.has_else = true;
                    f.dead = false;
                }
                out.push(NOp { kind: NKind::Op(d.op.clone()), offset: d.offset, raw_index: i, depth: frames.len().saturating_sub(2) });
            }
            Operator::End => {
                if let Some(f) = frames.pop() {
                    if f.kind == FrameKind::If && !f.has_else {
                        out.push(NOp { kind: NKind::SyntheticElse, offset: d.offset, raw_index: i, depth: frames.len().saturating_sub(1) });
                    }
                }
                out.push(NOp { kind: NKind::Op(d.op.clone()), offset: d.offset, raw_index: i, depth: frames.len().saturating_sub(1) });
            }
            op => {
                out.push(NOp { kind: NKind::Op(op.clone()), offset: d.offset, raw_index: i, depth: frames.len() - 1 });
                let term = is_terminator(op) && (tail_calls_terminate || !matches!(op, Operator::ReturnCall { .. } | Operator::ReturnCallIndirect { .. }));
                if term {
                    if let Some(f) = frames.last_mut() {
                        f.dead = true;
                    }
                }
            }
        }
    }
    out
}

pub fn normalise_body<'a>(b: &DBody<'a>) -> Vec<NOp<'a>> {
    normalise(&b.ops)
}

/// Operators after the function-level `end`, if any (never valid; used by tests of the gate).
pub fn trailing_after_end(ops: &[DOp]) -> usize {
    let mut depth = 1i64;
    for (i, d) in ops.iter().enumerate() {
        match d.op {
            Operator::Block { .. } | Operator::Loop { .. } | Operator::If { .. } => depth += 1,
            Operator::End => {
                depth -= 1;
                if depth == 0 {
                    return ops.len() - i - 1;
                }
            }
            _ => {}
        }
    }
    0
}

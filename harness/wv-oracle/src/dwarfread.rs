//! Oracle D: read `.debug_line` rows and `DW_TAG_subprogram` ranges of a binary with gimli's reader.

use crate::decode::DModule;
use gimli::LittleEndian;

#[derive(Clone, Debug)]
pub struct Row {
    pub address: u64,
    pub line: u64,
    pub file: u64,
    pub end_sequence: bool,
    pub sequence: usize,
}

#[derive(Clone, Debug)]
pub struct Subprogram {
    pub name: String,
    pub low_pc: Option<u64>,
    /// length (DW_FORM_udata) or absolute end (DW_FORM_addr)
    pub high_pc: Option<u64>,
    pub high_is_offset: bool,
}

#[derive(Clone, Debug, Default)]
pub struct DwarfInfo {
    pub version: u16,
    pub rows: Vec<Row>,
    pub subprograms: Vec<Subprogram>,
    pub sequences: usize,
    /// entries below the level of the unit's children (parameters, lexical blocks, variables)
    pub nested_entries: usize,
    /// lexical blocks with a range: (name of the enclosing subprogram, low_pc, high_pc as an address)
    pub blocks: Vec<(String, u64, u64)>,
}

pub fn read(m: &DModule) -> Result<Option<DwarfInfo>, String> {
    if !m.customs.iter().any(|c| c.name.starts_with(".debug")) {
        return Ok(None);
    }
    let load = |id: gimli::SectionId| -> Result<Vec<u8>, gimli::Error> { Ok(m.customs.iter().find(|c| c.name == id.name()).map(|c| c.data.clone()).unwrap_or_default()) };
    let d = gimli::read::Dwarf::load(load).map_err(|e| e.to_string())?;
    let d = d.borrow(|s| gimli::EndianSlice::new(s.as_ref(), LittleEndian));
    let mut info = DwarfInfo::default();
    let mut units = d.units();
    while let Some(h) = units.next().map_err(|e| e.to_string())? {
        info.version = h.version();
        let u = d.unit(h).map_err(|e| e.to_string())?;
        let mut es = u.entries();
        let mut depth = 0isize;
        let mut cur_sub = String::new();
        while let Some((delta, e)) = es.next_dfs().map_err(|e| e.to_string())? {
            depth += delta;
            if depth >= 2 {
                info.nested_entries += 1;
            }
            if e.tag() == gimli::DW_TAG_lexical_block {
                let lo = match e.attr_value(gimli::DW_AT_low_pc).map_err(|e| e.to_string())? {
                    Some(gimli::AttributeValue::Addr(a)) => Some(a),
                    _ => None,
                };
                let hi = match e.attr_value(gimli::DW_AT_high_pc).map_err(|e| e.to_string())? {
                    Some(gimli::AttributeValue::Udata(x)) => lo.map(|l| l.wrapping_add(x)),
                    Some(gimli::AttributeValue::Addr(x)) => Some(x),
                    _ => None,
                };
                if let (Some(lo), Some(hi)) = (lo, hi) {
                    info.blocks.push((cur_sub.clone(), lo, hi));
                }
            }
            if e.tag() == gimli::DW_TAG_subprogram {
                let name = match e.attr_value(gimli::DW_AT_name).map_err(|e| e.to_string())? {
                    Some(gimli::AttributeValue::String(s)) => String::from_utf8_lossy(s.slice()).to_string(),
                    Some(gimli::AttributeValue::DebugStrRef(o)) => d.debug_str.get_str(o).map(|s| s.to_string_lossy().to_string()).unwrap_or_default(),
                    _ => String::new(),
                };
                let low_pc = match e.attr_value(gimli::DW_AT_low_pc).map_err(|e| e.to_string())? {
                    Some(gimli::AttributeValue::Addr(a)) => Some(a),
                    _ => None,
                };
                let (high_pc, high_is_offset) = match e.attr_value(gimli::DW_AT_high_pc).map_err(|e| e.to_string())? {
                    Some(gimli::AttributeValue::Udata(x)) => (Some(x), true),
                    Some(gimli::AttributeValue::Addr(x)) => (Some(x), false),
                    _ => (None, true),
                };
                cur_sub = name.clone();
                info.subprograms.push(Subprogram { name, low_pc, high_pc, high_is_offset });
            }
        }
        if let Some(lp) = u.line_program.clone() {
            let mut rows = lp.rows();
            let mut seq = info.sequences;
            while let Some((_, r)) = rows.next_row().map_err(|e| e.to_string())? {
                info.rows.push(Row { address: r.address(), line: r.line().map(|l| l.get()).unwrap_or(0), file: r.file_index(), end_sequence: r.end_sequence(), sequence: seq });
                if r.end_sequence() {
                    seq += 1;
                }
            }
            info.sequences = seq;
        }
    }
    Ok(Some(info))
}

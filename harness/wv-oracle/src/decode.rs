//! Own decoded view of a wasm binary (on top of wasmparser's readers), used by
//! every structural oracle. Index spaces are explicit, imports first.

use std::ops::Range;
use wasmparser::*;
use wv_gen::mspec::VT;

#[derive(Clone, Debug, PartialEq, Eq, Hash)]
pub struct Sig {
    pub params: Vec<VT>,
    pub results: Vec<VT>,
}

#[derive(Clone, Copy, Debug, PartialEq, Eq, Hash)]
pub struct DLimits {
    pub min: u64,
    pub max: Option<u64>,
    pub shared: bool,
    pub is64: bool,
}

#[derive(Clone, Copy, Debug, PartialEq, Eq, Hash)]
pub struct DTableTy {
    pub elem: VT,
    pub lim: DLimits,
}

#[derive(Clone, Copy, Debug, PartialEq, Eq, Hash)]
pub struct DGlobalTy {
    pub ty: VT,
    pub mutable: bool,
}

#[derive(Clone, Debug, PartialEq)]
pub enum DImportKind {
    Func(u32),
    Table(DTableTy),
    Memory(DLimits),
    Global(DGlobalTy),
}

#[derive(Clone, Debug, PartialEq)]
pub struct DImport {
    pub module: String,
    pub field: String,
    pub kind: DImportKind,
    /// index in the index space of its kind
    pub index: u32,
}

/// Constant expression, one instruction (the only form the supported feature set allows).
#[derive(Clone, Debug, PartialEq)]
pub enum DConst {
    I32(i32),
    I64(i64),
    F32(u32),
    F64(u64),
    V128([u8; 16]),
    GlobalGet(u32),
    RefNull(VT),
    RefFunc(u32),
    Other(String),
}

#[derive(Clone, Debug)]
pub struct DOp<'a> {
    pub offset: usize,
    pub op: Operator<'a>,
}

#[derive(Clone, Debug)]
pub struct DBody<'a> {
    /// file offset of the size LEB of this code entry
    pub entry_start: usize,
    /// file range of the body (after the size LEB): locals + instructions
    pub range: Range<usize>,
    /// file offset of the first instruction
    pub instrs_start: usize,
    pub local_groups: Vec<(u32, VT)>,
    /// expanded local types (without params)
    pub locals: Vec<VT>,
    pub ops: Vec<DOp<'a>>,
}

#[derive(Clone, Debug)]
pub struct DFunc<'a> {
    pub ty: u32,
    pub import: Option<usize>,
    pub body: Option<DBody<'a>>,
}

#[derive(Clone, Debug)]
pub struct DTable {
    pub ty: DTableTy,
    pub import: Option<usize>,
}
#[derive(Clone, Debug)]
pub struct DMemory {
    pub ty: DLimits,
    pub import: Option<usize>,
}
#[derive(Clone, Debug)]
pub struct DGlobal {
    pub ty: DGlobalTy,
    pub import: Option<usize>,
    pub init: Option<DConst>,
}

#[derive(Clone, Copy, Debug, PartialEq, Eq, Hash, PartialOrd, Ord)]
pub enum EKind {
    Func,
    Table,
    Memory,
    Global,
}

#[derive(Clone, Debug, PartialEq)]
pub struct DExport {
    pub name: String,
    pub kind: EKind,
    pub index: u32,
}

#[derive(Clone, Debug, PartialEq)]
pub enum DElemMode {
    Passive,
    Declared,
    Active { table: u32, offset: DConst },
}

#[derive(Clone, Debug, PartialEq)]
pub struct DElem {
    pub mode: DElemMode,
    pub ty: VT,
    /// items in semantic form: `func f` is RefFunc(f)
    pub items: Vec<DConst>,
    /// true if the binary used the expression encoding
    pub expr_encoding: bool,
}

#[derive(Clone, Debug, PartialEq)]
pub enum DDataMode {
    Passive,
    Active { mem: u32, offset: DConst },
}

#[derive(Clone, Debug, PartialEq)]
pub struct DData {
    pub mode: DDataMode,
    pub bytes: Vec<u8>,
}

#[derive(Clone, Debug, PartialEq)]
pub struct DCustom {
    pub name: String,
    pub data: Vec<u8>,
    pub data_offset: usize,
    /// number of non-custom sections that precede this one
    pub after_std_sections: usize,
}

#[derive(Clone, Debug, Default)]
pub struct DModule<'a> {
    pub types: Vec<Sig>,
    pub imports: Vec<DImport>,
    pub funcs: Vec<DFunc<'a>>,
    pub tables: Vec<DTable>,
    pub memories: Vec<DMemory>,
    pub globals: Vec<DGlobal>,
    pub exports: Vec<DExport>,
    pub start: Option<u32>,
    pub elems: Vec<DElem>,
    pub datas: Vec<DData>,
    pub data_count: Option<u32>,
    pub customs: Vec<DCustom>,
    /// file range of the code section contents (starting at the function count)
    pub code_range: Option<Range<usize>>,
    /// ids of standard sections in file order
    pub section_ids: Vec<u8>,
}

fn vt(t: ValType) -> Result<VT, String> {
    VT::from_wp(t).ok_or_else(|| format!("unsupported value type {:?}", t))
}

fn lim_mem(m: &MemoryType) -> DLimits {
    DLimits { min: m.initial, max: m.maximum, shared: m.shared, is64: m.memory64 }
}

fn table_ty(t: &TableType) -> Result<DTableTy, String> {
    Ok(DTableTy {
        elem: vt(ValType::Ref(t.element_type))?,
        lim: DLimits { min: t.initial, max: t.maximum, shared: t.shared, is64: t.table64 },
    })
}

pub fn const_expr(e: &ConstExpr) -> DConst {
    let mut r = e.get_operators_reader();
    let mut ops = Vec::new();
    while !r.eof() {
        match r.read() {
            Ok(op) => ops.push(op),
            Err(e) => return DConst::Other(format!("error {}", e)),
        }
    }
    if ops.len() != 2 || !matches!(ops[1], Operator::End) {
        return DConst::Other(format!("{:?}", ops));
    }
    match &ops[0] {
        Operator::I32Const { value } => DConst::I32(*value),
        Operator::I64Const { value } => DConst::I64(*value),
        Operator::F32Const { value } => DConst::F32(value.bits()),
        Operator::F64Const { value } => DConst::F64(value.bits()),
        Operator::V128Const { value } => DConst::V128(*value.bytes()),
        Operator::GlobalGet { global_index } => DConst::GlobalGet(*global_index),
        Operator::RefFunc { function_index } => DConst::RefFunc(*function_index),
        Operator::RefNull { hty } => {
            if *hty == HeapType::FUNC {
                DConst::RefNull(VT::FuncRef)
            } else if *hty == HeapType::EXTERN {
                DConst::RefNull(VT::ExternRef)
            } else {
                DConst::Other(format!("{:?}", ops[0]))
            }
        }
        o => DConst::Other(format!("{:?}", o)),
    }
}

pub fn leb_len(mut v: u64) -> usize {
    let mut n = 1;
    v >>= 7;
    while v > 0 {
        n += 1;
        v >>= 7;
    }
    n
}

/// Decode. The input should already have passed the reference validator; any
/// decode error is returned as a string (callers count it as inconclusive or
/// as a violation depending on whose bytes they are).
pub fn decode<'a>(wasm: &'a [u8]) -> Result<DModule<'a>, String> {
    let mut m = DModule::default();
    let mut std_sections = 0usize;
    let mut func_types: Vec<u32> = Vec::new();
    let mut body_index = 0usize;
    let e = |e: BinaryReaderError| e.to_string();
    for payload in Parser::new(0).parse_all(wasm) {
        let payload = payload.map_err(e)?;
        if let Some((id, _)) = payload.as_section() {
            if id != 0 {
                std_sections += 1;
                m.section_ids.push(id);
            }
        }
        match payload {
            Payload::TypeSection(s) => {
                for rg in s {
                    let rg = rg.map_err(e)?;
                    for st in rg.into_types() {
                        match st.composite_type.inner {
                            CompositeInnerType::Func(f) => {
                                let params = f.params().iter().map(|t| vt(*t)).collect::<Result<Vec<_>, _>>()?;
                                let results = f.results().iter().map(|t| vt(*t)).collect::<Result<Vec<_>, _>>()?;
                                m.types.push(Sig { params, results });
                            }
                            _ => return Err("non-function type".into()),
                        }
                    }
                }
            }
            Payload::ImportSection(s) => {
                for i in s {
                    let i = i.map_err(e)?;
                    let at = m.imports.len();
                    let (kind, index) = match i.ty {
                        TypeRef::Func(t) => {
                            m.funcs.push(DFunc { ty: t, import: Some(at), body: None });
                            (DImportKind::Func(t), m.funcs.len() as u32 - 1)
                        }
                        TypeRef::Table(t) => {
                            let ty = table_ty(&t)?;
                            m.tables.push(DTable { ty, import: Some(at) });
                            (DImportKind::Table(ty), m.tables.len() as u32 - 1)
                        }
                        TypeRef::Memory(t) => {
                            let ty = lim_mem(&t);
                            m.memories.push(DMemory { ty, import: Some(at) });
                            (DImportKind::Memory(ty), m.memories.len() as u32 - 1)
                        }
                        TypeRef::Global(g) => {
                            let ty = DGlobalTy { ty: vt(g.content_type)?, mutable: g.mutable };
                            m.globals.push(DGlobal { ty, import: Some(at), init: None });
                            (DImportKind::Global(ty), m.globals.len() as u32 - 1)
                        }
                        TypeRef::Tag(_) => return Err("tag import".into()),
                    };
                    m.imports.push(DImport { module: i.module.to_string(), field: i.name.to_string(), kind, index });
                }
            }
            Payload::FunctionSection(s) => {
                for t in s {
                    func_types.push(t.map_err(e)?);
                }
                for t in &func_types {
                    m.funcs.push(DFunc { ty: *t, import: None, body: None });
                }
            }
            Payload::TableSection(s) => {
                for t in s {
                    let t = t.map_err(e)?;
                    m.tables.push(DTable { ty: table_ty(&t.ty)?, import: None });
                }
            }
            Payload::MemorySection(s) => {
                for t in s {
                    let t = t.map_err(e)?;
                    m.memories.push(DMemory { ty: lim_mem(&t), import: None });
                }
            }
            Payload::GlobalSection(s) => {
                for g in s {
                    let g = g.map_err(e)?;
                    m.globals.push(DGlobal {
                        ty: DGlobalTy { ty: vt(g.ty.content_type)?, mutable: g.ty.mutable },
                        import: None,
                        init: Some(const_expr(&g.init_expr)),
                    });
                }
            }
            Payload::ExportSection(s) => {
                for x in s {
                    let x = x.map_err(e)?;
                    let kind = match x.kind {
                        ExternalKind::Func => EKind::Func,
                        ExternalKind::Table => EKind::Table,
                        ExternalKind::Memory => EKind::Memory,
                        ExternalKind::Global => EKind::Global,
                        ExternalKind::Tag => return Err("tag export".into()),
                    };
                    m.exports.push(DExport { name: x.name.to_string(), kind, index: x.index });
                }
            }
            Payload::StartSection { func, .. } => m.start = Some(func),
            Payload::ElementSection(s) => {
                for el in s {
                    let el = el.map_err(e)?;
                    let mode = match el.kind {
                        ElementKind::Passive => DElemMode::Passive,
                        ElementKind::Declared => DElemMode::Declared,
                        ElementKind::Active { table_index, offset_expr } => {
                            DElemMode::Active { table: table_index.unwrap_or(0), offset: const_expr(&offset_expr) }
                        }
                    };
                    let (ty, items, expr_encoding) = match el.items {
                        ElementItems::Functions(r) => {
                            let mut v = Vec::new();
                            for f in r {
                                v.push(DConst::RefFunc(f.map_err(e)?));
                            }
                            (VT::FuncRef, v, false)
                        }
                        ElementItems::Expressions(rt, r) => {
                            let mut v = Vec::new();
                            for x in r {
                                v.push(const_expr(&x.map_err(e)?));
                            }
                            (vt(ValType::Ref(rt))?, v, true)
                        }
                    };
                    m.elems.push(DElem { mode, ty, items, expr_encoding });
                }
            }
            Payload::DataCountSection { count, .. } => m.data_count = Some(count),
            Payload::DataSection(s) => {
                for d in s {
                    let d = d.map_err(e)?;
                    let mode = match d.kind {
                        DataKind::Passive => DDataMode::Passive,
                        DataKind::Active { memory_index, offset_expr } => DDataMode::Active { mem: memory_index, offset: const_expr(&offset_expr) },
                    };
                    m.datas.push(DData { mode, bytes: d.data.to_vec() });
                }
            }
            Payload::CodeSectionStart { range, .. } => m.code_range = Some(range),
            Payload::CodeSectionEntry(body) => {
                let range = body.range();
                let size = range.end - range.start;
                // the size LEB may be non-minimal in inputs; find its start by scanning back from range.start
                let entry_start = find_size_leb_start(wasm, range.start, size as u64);
                let mut local_groups = Vec::new();
                let mut locals = Vec::new();
                let lr = body.get_locals_reader().map_err(e)?;
                for l in lr {
                    let (n, t) = l.map_err(e)?;
                    let t = vt(t)?;
                    local_groups.push((n, t));
                    for _ in 0..n.min(1_000_000) {
                        locals.push(t);
                    }
                }
                let mut r = body.get_operators_reader().map_err(e)?;
                let instrs_start = r.original_position();
                let mut ops = Vec::new();
                while !r.eof() {
                    let offset = r.original_position();
                    let op = r.read().map_err(e)?;
                    ops.push(DOp { offset, op });
                }
                let nimp = m.funcs.iter().filter(|f| f.import.is_some()).count();
                let idx = nimp + body_index;
                body_index += 1;
                if idx >= m.funcs.len() {
                    return Err("code entry without function".into());
                }
                m.funcs[idx].body = Some(DBody { entry_start, range, instrs_start, local_groups, locals, ops });
            }
            Payload::CustomSection(c) => {
                m.customs.push(DCustom { name: c.name().to_string(), data: c.data().to_vec(), data_offset: c.data_offset(), after_std_sections: std_sections });
            }
            Payload::Version { .. } | Payload::End(_) => {}
            other => return Err(format!("unsupported payload {:?}", other.as_section().map(|s| s.0))),
        }
    }
    Ok(m)
}

fn find_size_leb_start(wasm: &[u8], body_start: usize, size: u64) -> usize {
    // LEB bytes before body_start: last byte has the high bit clear, previous ones set. Try lengths 1..=5
    // and accept the shortest encoding that decodes to `size` (non-minimal paddings decode equal too; the
    // entry is contiguous with the previous entry, so take the longest run that still decodes to size).
    let mut best = body_start - leb_len(size).min(body_start);
    for len in 1..=5usize {
        if body_start < len {
            break;
        }
        let s = &wasm[body_start - len..body_start];
        if s[len - 1] & 0x80 != 0 {
            continue;
        }
        if s[..len - 1].iter().any(|b| b & 0x80 == 0) {
            continue;
        }
        let mut v = 0u64;
        for (i, b) in s.iter().enumerate() {
            v |= ((b & 0x7f) as u64) << (7 * i);
        }
        if v == size {
            best = body_start - len;
        }
    }
    best
}

impl<'a> DModule<'a> {
    pub fn sig_of_func(&self, f: u32) -> Option<&Sig> {
        self.funcs.get(f as usize).and_then(|f| self.types.get(f.ty as usize))
    }
    pub fn num_imported_funcs(&self) -> usize {
        self.funcs.iter().filter(|f| f.import.is_some()).count()
    }
    /// custom sections walrus does not interpret
    pub fn unknown_customs(&self) -> Vec<&DCustom> {
        self.customs.iter().filter(|c| c.name != "name" && c.name != "producers" && !c.name.starts_with(".debug")).collect()
    }
    pub fn custom(&self, name: &str) -> Option<&DCustom> {
        self.customs.iter().find(|c| c.name == name)
    }
}

//! Oracle I: lock-step module isomorphism. Builds the bijection
//! "input entity <-> output entity" per index space by walking both modules
//! together from the roots whose identity is fixed externally (imports by
//! position, exports by name, start, element and data segments by position)
//! and pairing entities at corresponding reference sites; paired functions
//! have their N-normalised bodies walked in lock step.
//!
//! Problems are tagged "code" (property C03) or "struct" (property C04).

use crate::decode::*;
use crate::norm::{normalise, NKind, NOp};
use std::collections::{BTreeMap, HashMap};
use wasmparser::BlockType;
use wv_gen::mspec::VT;
use wv_gen::ops::{self, Raw, RefKind};

#[derive(Clone, Debug)]
pub struct Problem {
    /// "code" or "struct"
    pub cat: &'static str,
    /// stable signature, free of indices
    pub sig: String,
    pub detail: String,
}

#[derive(Clone, Debug, Default)]
pub struct Keep {
    pub funcs: Vec<bool>,
    pub tables: Vec<bool>,
    pub memories: Vec<bool>,
    pub globals: Vec<bool>,
    pub elems: Vec<bool>,
    pub datas: Vec<bool>,
    pub types: Vec<bool>,
}

#[derive(Clone, Debug, Default)]
pub struct PairMap {
    pub fwd: Vec<Option<u32>>,
    pub rev: Vec<Option<u32>>,
}

impl PairMap {
    fn new(n_in: usize, n_out: usize) -> PairMap {
        PairMap { fwd: vec![None; n_in], rev: vec![None; n_out] }
    }
    pub fn get(&self, a: u32) -> Option<u32> {
        self.fwd.get(a as usize).copied().flatten()
    }
    pub fn get_rev(&self, b: u32) -> Option<u32> {
        self.rev.get(b as usize).copied().flatten()
    }
}

#[derive(Clone, Debug, Default)]
pub struct FuncPairing {
    /// (input local index, output local index) for locals that are used
    pub locals: Vec<(u32, u32)>,
    /// (input file offset, output file offset) of paired live operators (synthetic else excluded on the input side)
    pub ops: Vec<(usize, usize)>,
    /// number of operators compared
    pub compared: usize,
    /// (offset of the `end` of an input `if` without `else`, offset of the `else` the output has for it):
    /// the one structural equivalence - walrus always emits an `else`
    pub alt_ops: Vec<(usize, usize)>,
    /// pairing of operators under walrus's own liveness (code after `return_call*` kept), offsets only;
    /// empty if the two streams do not line up
    pub ops_keep_tail: Vec<(usize, usize)>,
}

#[derive(Clone, Debug, Default)]
pub struct Iso {
    pub funcs: PairMap,
    pub tables: PairMap,
    pub memories: PairMap,
    pub globals: PairMap,
    pub elems: PairMap,
    pub datas: PairMap,
    /// per input function index
    pub func_pairing: BTreeMap<u32, FuncPairing>,
    pub problems: Vec<Problem>,
    /// distinct operator kinds seen in compared (live) code
    pub ops_seen: std::collections::BTreeSet<usize>,
    pub ops_compared: u64,
}

/// Marker constant of instructions the harness inserts through the edit API (`i64.const MARKER; drop`).
pub const MARKER: i64 = 0x4d41_524b_4552_5f5f;

#[derive(Clone, Debug, Default)]
pub struct IsoOpts {
    /// ignore `i64.const MARKER; drop` pairs in the output (instructions inserted by a transformation)
    pub skip_output_markers: bool,
}

struct Ctx<'m, 'a> {
    opts: IsoOpts,
    a: &'m DModule<'a>,
    b: &'m DModule<'a>,
    iso: Iso,
    work_funcs: Vec<(u32, u32)>,
    work_globals: Vec<(u32, u32)>,
    work_tables: Vec<(u32, u32)>,
    work_memories: Vec<(u32, u32)>,
}

fn sig_str(s: &Sig) -> String {
    format!("{:?}->{:?}", s.params, s.results)
}

impl<'m, 'a> Ctx<'m, 'a> {
    fn problem(&mut self, cat: &'static str, sig: String, detail: String) {
        if self.iso.problems.len() < 400 {
            self.iso.problems.push(Problem { cat, sig, detail });
        }
    }

    fn pair(&mut self, kind: RefKind, cat: &'static str, site: &str, x: u32, y: u32) {
        let (map, n_in, n_out, name): (&mut PairMap, usize, usize, &str) = match kind {
            RefKind::Func => (&mut self.iso.funcs, self.a.funcs.len(), self.b.funcs.len(), "function"),
            RefKind::Global => (&mut self.iso.globals, self.a.globals.len(), self.b.globals.len(), "global"),
            RefKind::Table => (&mut self.iso.tables, self.a.tables.len(), self.b.tables.len(), "table"),
            RefKind::Memory => (&mut self.iso.memories, self.a.memories.len(), self.b.memories.len(), "memory"),
            RefKind::Elem => (&mut self.iso.elems, self.a.elems.len(), self.b.elems.len(), "element"),
            RefKind::Data => (&mut self.iso.datas, self.a.datas.len(), self.b.datas.len(), "data"),
            _ => return,
        };
        if x as usize >= n_in || y as usize >= n_out {
            let (s, d) = (format!("{}-index-out-of-range", name), format!("{}: {} index {} / {} out of range", site, name, x, y));
            self.problem(cat, s, d);
            return;
        }
        match (map.fwd[x as usize], map.rev[y as usize]) {
            (Some(y0), _) if y0 != y => {
                let (s, d) = (format!("{}-retargeted", name), format!("{}: input {} {} was paired with output {} elsewhere but is {} here", site, name, x, y0, y));
                self.problem(cat, s, d);
            }
            (_, Some(x0)) if x0 != x => {
                let (s, d) = (format!("{}-merged", name), format!("{}: output {} {} stands for input {} elsewhere but for {} here", site, name, y, x0, x));
                self.problem(cat, s, d);
            }
            (Some(_), Some(_)) => {}
            _ => {
                map.fwd[x as usize] = Some(y);
                map.rev[y as usize] = Some(x);
                match kind {
                    RefKind::Func => self.work_funcs.push((x, y)),
                    RefKind::Global => self.work_globals.push((x, y)),
                    RefKind::Table => self.work_tables.push((x, y)),
                    RefKind::Memory => self.work_memories.push((x, y)),
                    _ => {}
                }
            }
        }
    }

    fn cmp_const(&mut self, cat: &'static str, site: &str, what: &str, x: &DConst, y: &DConst) {
        match (x, y) {
            (DConst::GlobalGet(g), DConst::GlobalGet(h)) => self.pair(RefKind::Global, cat, site, *g, *h),
            (DConst::RefFunc(f), DConst::RefFunc(g)) => self.pair(RefKind::Func, cat, site, *f, *g),
            _ => {
                if x != y {
                    self.problem(cat, format!("{}-differs", what), format!("{}: {:?} became {:?}", site, x, y));
                }
            }
        }
    }

    fn resolve_bt(m: &DModule, bt: &BlockType) -> Option<Sig> {
        Some(match bt {
            BlockType::Empty => Sig { params: vec![], results: vec![] },
            BlockType::Type(t) => Sig { params: vec![], results: vec![VT::from_wp(*t)?] },
            BlockType::FuncType(i) => m.types.get(*i as usize)?.clone(),
        })
    }

    fn cmp_bodies(&mut self, fa: u32, fb: u32) {
        let (ba, bb) = match (&self.a.funcs[fa as usize].body, &self.b.funcs[fb as usize].body) {
            (Some(x), Some(y)) => (x, y),
            _ => return,
        };
        let na: Vec<NOp> = normalise(&ba.ops);
        let mut nb: Vec<NOp> = normalise(&bb.ops);
        if self.opts.skip_output_markers {
            let mut filtered = Vec::with_capacity(nb.len());
            let mut i = 0;
            while i < nb.len() {
                let is_marker = matches!(&nb[i].kind, NKind::Op(wasmparser::Operator::I64Const { value }) if *value == MARKER)
                    && matches!(nb.get(i + 1).map(|o| &o.kind), Some(NKind::Op(wasmparser::Operator::Drop)));
                if is_marker {
                    i += 2;
                } else {
                    filtered.push(nb[i].clone());
                    i += 1;
                }
            }
            nb = filtered;
        }
        let nparams = self.a.sig_of_func(fa).map(|s| s.params.len()).unwrap_or(0) as u32;
        let mut lfwd: HashMap<u32, u32> = HashMap::new();
        let mut lrev: HashMap<u32, u32> = HashMap::new();
        let mut pairing = FuncPairing::default();
        let site_f = format!("function in#{} / out#{}", fa, fb);
        if na.len() != nb.len() {
            // find first divergence for the detail
            let k = na.iter().zip(nb.iter()).position(|(x, y)| !same_kind(x, y)).unwrap_or(na.len().min(nb.len()));
            let show = |v: &Vec<NOp>, k: usize| -> String { v.get(k).map(|o| op_name(o)).unwrap_or_else(|| "<end of body>".into()) };
            let kind = if nb.len() < na.len() { "instructions-lost" } else { "instructions-added" };
            self.problem(
                "code",
                format!("body-length/{}", kind),
                format!("{}: {} live operators in the input, {} in the output; first divergence at #{}: {} vs {}", site_f, na.len(), nb.len(), k, show(&na, k), show(&nb, k)),
            );
        }
        for (k, (x, y)) in na.iter().zip(nb.iter()).enumerate() {
            pairing.compared += 1;
            self.iso.ops_compared += 1;
            let (ox, oy) = match (&x.kind, &y.kind) {
                (NKind::SyntheticElse, NKind::SyntheticElse) => continue,
                (NKind::SyntheticElse, NKind::Op(wasmparser::Operator::Else)) => {
                    pairing.alt_ops.push((x.offset, y.offset));
                    continue;
                }
                (NKind::Op(wasmparser::Operator::Else), NKind::SyntheticElse) => continue,
                (NKind::Op(a), NKind::Op(b)) => (a, b),
                _ => {
                    self.problem("code", "opcode-differs/structure".into(), format!("{} op #{}: {} vs {}", site_f, k, op_name(x), op_name(y)));
                    break;
                }
            };
            let (ka, fa_) = ops::fields_of(ox);
            let (kb, fb_) = ops::fields_of(oy);
            let info = &op_infos()[ka];
            if ka != kb {
                self.problem(
                    "code",
                    format!("opcode-differs/{}->{}", info.name, op_infos()[kb].name),
                    format!("{} op #{} (input offset {:#x}): {:?} became {:?}", site_f, k, x.offset, ox, oy),
                );
                break;
            }
            self.iso.ops_seen.insert(ka);
            pairing.ops.push((x.offset, y.offset));
            if x.depth != y.depth {
                self.problem("code", format!("nesting-differs/{}", info.name), format!("{} op #{}: nesting depth {} vs {}", site_f, k, x.depth, y.depth));
            }
            for ((name, ra), (_, rb)) in fa_.iter().zip(fb_.iter()) {
                let site = format!("{} op #{} {} (input offset {:#x})", site_f, k, info.name, x.offset);
                match (ra, rb) {
                    (Raw::U32(u), Raw::U32(v)) => match ops::field_ref_kind(name) {
                        Some(RefKind::Local) => {
                            self.cmp_local(&site, info.name, nparams, *u, *v, ba, bb, &mut lfwd, &mut lrev);
                        }
                        Some(RefKind::Label) => {
                            if u != v {
                                self.problem("code", format!("{}/label-differs", info.name), format!("{}: branch depth {} became {}", site, u, v));
                            }
                        }
                        Some(RefKind::Type) => {
                            let (sa, sb) = (self.a.types.get(*u as usize).cloned(), self.b.types.get(*v as usize).cloned());
                            if sa != sb || sa.is_none() {
                                self.problem("code", format!("{}/type-differs", info.name), format!("{}: type {:?} became {:?}", site, sa.map(|s| sig_str(&s)), sb.map(|s| sig_str(&s))));
                            }
                        }
                        Some(k) => self.pair(k, "code", &site, *u, *v),
                        None => {
                            if u != v {
                                self.problem("code", format!("{}/{}-differs", info.name, name), format!("{}: {} {} became {}", site, name, u, v));
                            }
                        }
                    },
                    (Raw::MemArg { align: a1, offset: o1, memory: m1 }, Raw::MemArg { align: a2, offset: o2, memory: m2 }) => {
                        if a1 != a2 {
                            self.problem("code", format!("{}/memarg-align-differs", info.name), format!("{}: alignment exponent {} became {}", site, a1, a2));
                        }
                        if o1 != o2 {
                            let how = if *o2 == (*o1 & 0xffff_ffff) { "upper-32-bits-lost" } else { "changed" };
                            self.problem("code", format!("memarg-offset/{}", how), format!("{}: offset {:#x} became {:#x}", site, o1, o2));
                        }
                        self.pair(RefKind::Memory, "code", &site, *m1, *m2);
                    }
                    (Raw::Block(b1), Raw::Block(b2)) => {
                        let (s1, s2) = (Self::resolve_bt(self.a, b1), Self::resolve_bt(self.b, b2));
                        if s1 != s2 || s1.is_none() {
                            self.problem("code", format!("{}/block-signature-differs", info.name), format!("{}: block type {:?} became {:?}", site, s1.map(|s| sig_str(&s)), s2.map(|s| sig_str(&s))));
                        }
                    }
                    (Raw::BrTable(t1, d1), Raw::BrTable(t2, d2)) => {
                        if t1 != t2 || d1 != d2 {
                            self.problem("code", "BrTable/targets-differ".into(), format!("{}: targets {:?} default {} became {:?} default {}", site, t1, d1, t2, d2));
                        }
                    }
                    (p, q) => {
                        if p != q {
                            self.problem("code", format!("{}/{}-differs", info.name, name), format!("{}: immediate {} {:?} became {:?}", site, name, p, q));
                        }
                    }
                }
            }
        }
        // offsets under walrus's liveness (it keeps code after return_call*)
        {
            use crate::norm::normalise_with;
            let wa = normalise_with(&ba.ops, false);
            let mut wb = normalise_with(&bb.ops, false);
            if self.opts.skip_output_markers {
                let mut filtered = Vec::with_capacity(wb.len());
                let mut i = 0;
                while i < wb.len() {
                    let is_marker = matches!(&wb[i].kind, NKind::Op(wasmparser::Operator::I64Const { value }) if *value == MARKER)
                        && matches!(wb.get(i + 1).map(|o| &o.kind), Some(NKind::Op(wasmparser::Operator::Drop)));
                    if is_marker {
                        i += 2;
                    } else {
                        filtered.push(wb[i].clone());
                        i += 1;
                    }
                }
                wb = filtered;
            }
            if wa.len() == wb.len() && wa.iter().zip(wb.iter()).all(|(x, y)| same_kind(x, y)) {
                for (x, y) in wa.iter().zip(wb.iter()) {
                    if let (NKind::Op(_), NKind::Op(_)) = (&x.kind, &y.kind) {
                        pairing.ops_keep_tail.push((x.offset, y.offset));
                    }
                }
            }
        }
        let mut l: Vec<(u32, u32)> = lfwd.into_iter().collect();
        l.sort();
        pairing.locals = l;
        self.iso.func_pairing.insert(fa, pairing);
    }

    #[allow(clippy::too_many_arguments)]
    fn cmp_local(&mut self, site: &str, opname: &str, nparams: u32, u: u32, v: u32, ba: &DBody, bb: &DBody, lfwd: &mut HashMap<u32, u32>, lrev: &mut HashMap<u32, u32>) {
        if u < nparams || v < nparams {
            if u != v {
                self.problem("code", format!("{}/parameter-position-differs", opname), format!("{}: local {} became {} (parameters must keep their positions)", site, u, v));
            }
            return;
        }
        let (ta, tb) = (ba.locals.get((u - nparams) as usize), bb.locals.get((v - nparams) as usize));
        if ta != tb || ta.is_none() {
            self.problem("code", format!("{}/local-type-differs", opname), format!("{}: local {} of type {:?} became local {} of type {:?}", site, u, ta, v, tb));
        }
        match (lfwd.get(&u).copied(), lrev.get(&v).copied()) {
            (Some(v0), _) if v0 != v => self.problem("code", "local-retargeted".into(), format!("{}: local {} was slot {} elsewhere but is {} here", site, u, v0, v)),
            (_, Some(u0)) if u0 != u => self.problem("code", "locals-merged".into(), format!("{}: output slot {} stands for input locals {} and {}", site, v, u0, u)),
            _ => {
                lfwd.insert(u, v);
                lrev.insert(v, u);
            }
        }
    }

    fn drain(&mut self) {
        loop {
            if let Some((x, y)) = self.work_funcs.pop() {
                let (fa, fb) = (&self.a.funcs[x as usize], &self.b.funcs[y as usize]);
                let (sa, sb) = (self.a.types.get(fa.ty as usize).cloned(), self.b.types.get(fb.ty as usize).cloned());
                if sa != sb {
                    self.problem("struct", "function-signature-differs".into(), format!("function in#{} {:?} / out#{} {:?}", x, sa.map(|s| sig_str(&s)), y, sb.map(|s| sig_str(&s))));
                }
                if fa.import.is_some() != fb.import.is_some() {
                    self.problem("struct", "function-import-status-differs".into(), format!("function in#{} imported={} / out#{} imported={}", x, fa.import.is_some(), y, fb.import.is_some()));
                } else if fa.import.is_none() {
                    self.cmp_bodies(x, y);
                }
                continue;
            }
            if let Some((x, y)) = self.work_globals.pop() {
                let (ga, gb) = (self.a.globals[x as usize].clone(), self.b.globals[y as usize].clone());
                if ga.ty != gb.ty {
                    self.problem("struct", "global-type-differs".into(), format!("global in#{} {:?} / out#{} {:?}", x, ga.ty, y, gb.ty));
                }
                if ga.import.is_some() != gb.import.is_some() {
                    self.problem("struct", "global-import-status-differs".into(), format!("global in#{} / out#{}", x, y));
                }
                if let (Some(ia), Some(ib)) = (&ga.init, &gb.init) {
                    self.cmp_const("struct", &format!("initialiser of global in#{} / out#{}", x, y), "global-init", ia, ib);
                }
                continue;
            }
            if let Some((x, y)) = self.work_tables.pop() {
                let (ta, tb) = (&self.a.tables[x as usize], &self.b.tables[y as usize]);
                if ta.ty != tb.ty {
                    self.problem("struct", "table-type-differs".into(), format!("table in#{} {:?} / out#{} {:?}", x, ta.ty, y, tb.ty));
                }
                if ta.import.is_some() != tb.import.is_some() {
                    self.problem("struct", "table-import-status-differs".into(), format!("table in#{} / out#{}", x, y));
                }
                continue;
            }
            if let Some((x, y)) = self.work_memories.pop() {
                let (ta, tb) = (&self.a.memories[x as usize], &self.b.memories[y as usize]);
                if ta.ty != tb.ty {
                    self.problem("struct", "memory-type-differs".into(), format!("memory in#{} {:?} / out#{} {:?}", x, ta.ty, y, tb.ty));
                }
                if ta.import.is_some() != tb.import.is_some() {
                    self.problem("struct", "memory-import-status-differs".into(), format!("memory in#{} / out#{}", x, y));
                }
                continue;
            }
            break;
        }
    }
}

fn op_infos() -> &'static Vec<wv_gen::ops::OpInfo> {
    static T: std::sync::OnceLock<Vec<wv_gen::ops::OpInfo>> = std::sync::OnceLock::new();
    T.get_or_init(ops::op_infos)
}

pub fn op_kind_name(k: usize) -> &'static str {
    op_infos()[k].name
}

fn op_name(o: &NOp) -> String {
    match &o.kind {
        NKind::SyntheticElse => "else(synthetic)".into(),
        NKind::Op(op) => op_infos()[ops::fields_of(op).0].name.to_string(),
    }
}

fn same_kind(x: &NOp, y: &NOp) -> bool {
    match (&x.kind, &y.kind) {
        (NKind::Op(a), NKind::Op(b)) => ops::fields_of(a).0 == ops::fields_of(b).0,
        (NKind::SyntheticElse, NKind::SyntheticElse) => true,
        (NKind::SyntheticElse, NKind::Op(wasmparser::Operator::Else)) | (NKind::Op(wasmparser::Operator::Else), NKind::SyntheticElse) => true,
        _ => false,
    }
}

/// Shape of a function body with entity operands erased (for pairing entities no root reaches).
fn body_shape(m: &DModule, f: u32, loose: bool, skip_markers: bool) -> u64 {
    let mut h: u64 = 0xcbf29ce484222325;
    let mut mix = |x: u64| {
        h ^= x;
        h = h.wrapping_mul(0x100000001b3);
    };
    if let Some(s) = m.sig_of_func(f) {
        mix(wv_gen::rng::fnv64(sig_str(s).as_bytes()));
    }
    if let Some(b) = &m.funcs[f as usize].body {
        let nops = normalise(&b.ops);
        let mut skip_next_drop = false;
        for (oi, o) in nops.iter().enumerate() {
            if let NKind::Op(op) = &o.kind {
                if skip_markers {
                    if skip_next_drop && matches!(op, wasmparser::Operator::Drop) {
                        skip_next_drop = false;
                        continue;
                    }
                    if matches!(op, wasmparser::Operator::I64Const { value } if *value == MARKER)
                        && matches!(nops.get(oi + 1).map(|x| &x.kind), Some(NKind::Op(wasmparser::Operator::Drop)))
                    {
                        skip_next_drop = true;
                        continue;
                    }
                }
                if matches!(op, wasmparser::Operator::Else) {
                    // an input `if` without `else` gets a synthetic one; real and synthetic must hash alike
                    continue;
                }
                let (k, fields) = ops::fields_of(op);
                mix(k as u64);
                for (name, r) in fields {
                    if ops::field_ref_kind(name).is_some() {
                        continue;
                    }
                    match r {
                        Raw::MemArg { align, offset, .. } => {
                            if !loose {
                                mix(align as u64);
                                mix(offset);
                            }
                        }
                        Raw::Block(_) => {}
                        other => mix(wv_gen::rng::fnv64(format!("{:?}", other).as_bytes())),
                    }
                }
            }
        }
    }
    h
}

/// Compare `input` with `output`. With `keep`, only the kept part of the
/// input is expected in the output (GC): list-shaped spaces (imports,
/// exports, segments) are filtered by it.
pub fn compare<'m, 'a>(input: &'m DModule<'a>, output: &'m DModule<'a>, keep: Option<&Keep>) -> Iso {
    compare_opts(input, output, keep, IsoOpts::default())
}

pub fn compare_opts<'m, 'a>(input: &'m DModule<'a>, output: &'m DModule<'a>, keep: Option<&Keep>, opts: IsoOpts) -> Iso {
    let mut c = Ctx {
        opts,
        a: input,
        b: output,
        iso: Iso {
            funcs: PairMap::new(input.funcs.len(), output.funcs.len()),
            tables: PairMap::new(input.tables.len(), output.tables.len()),
            memories: PairMap::new(input.memories.len(), output.memories.len()),
            globals: PairMap::new(input.globals.len(), output.globals.len()),
            elems: PairMap::new(input.elems.len(), output.elems.len()),
            datas: PairMap::new(input.datas.len(), output.datas.len()),
            ..Default::default()
        },
        work_funcs: vec![],
        work_globals: vec![],
        work_tables: vec![],
        work_memories: vec![],
    };
    let kept = |v: Option<&Vec<bool>>, i: usize| -> bool { v.map(|v| v.get(i).copied().unwrap_or(false)).unwrap_or(true) };
    // ---- imports: by position (order is part of C04)
    let in_imports: Vec<&DImport> = input
        .imports
        .iter()
        .filter(|i| match i.kind {
            DImportKind::Func(_) => kept(keep.map(|k| &k.funcs), i.index as usize),
            DImportKind::Table(_) => kept(keep.map(|k| &k.tables), i.index as usize),
            DImportKind::Memory(_) => kept(keep.map(|k| &k.memories), i.index as usize),
            DImportKind::Global(_) => kept(keep.map(|k| &k.globals), i.index as usize),
        })
        .collect();
    if in_imports.len() != output.imports.len() {
        let kind = if output.imports.len() < in_imports.len() { "import-dropped" } else { "import-added" };
        c.problem("struct", kind.into(), format!("{} imports expected, {} in the output", in_imports.len(), output.imports.len()));
    }
    for (k, (x, y)) in in_imports.iter().zip(output.imports.iter()).enumerate() {
        let site = format!("import #{} {}.{}", k, x.module, x.field);
        if x.module != y.module || x.field != y.field {
            c.problem("struct", "import-name-or-order-differs".into(), format!("{} became {}.{}", site, y.module, y.field));
            continue;
        }
        match (&x.kind, &y.kind) {
            (DImportKind::Func(t), DImportKind::Func(u)) => {
                if input.types.get(*t as usize) != output.types.get(*u as usize) {
                    c.problem("struct", "import-function-type-differs".into(), site.clone());
                }
                c.pair(RefKind::Func, "struct", &site, x.index, y.index);
            }
            (DImportKind::Table(t), DImportKind::Table(u)) => {
                if t != u {
                    c.problem("struct", "import-table-type-differs".into(), format!("{}: {:?} became {:?}", site, t, u));
                }
                c.pair(RefKind::Table, "struct", &site, x.index, y.index);
            }
            (DImportKind::Memory(t), DImportKind::Memory(u)) => {
                if t != u {
                    let what = if t.is64 != u.is64 {
                        "64-bit-flag"
                    } else if t.shared != u.shared {
                        "shared-flag"
                    } else {
                        "limits"
                    };
                    c.problem("struct", format!("import-memory-type-differs/{}", what), format!("{}: {:?} became {:?}", site, t, u));
                }
                c.pair(RefKind::Memory, "struct", &site, x.index, y.index);
            }
            (DImportKind::Global(t), DImportKind::Global(u)) => {
                if t != u {
                    c.problem("struct", "import-global-type-differs".into(), format!("{}: {:?} became {:?}", site, t, u));
                }
                c.pair(RefKind::Global, "struct", &site, x.index, y.index);
            }
            _ => c.problem("struct", "import-kind-differs".into(), format!("{}: {:?} became {:?}", site, x.kind, y.kind)),
        }
    }
    // ---- exports: by name
    let mut out_by_name: HashMap<&str, Vec<&DExport>> = HashMap::new();
    for e in &output.exports {
        out_by_name.entry(e.name.as_str()).or_default().push(e);
    }
    if input.exports.len() != output.exports.len() {
        let kind = if output.exports.len() < input.exports.len() { "export-dropped" } else { "export-added" };
        c.problem("struct", kind.into(), format!("{} exports in the input, {} in the output", input.exports.len(), output.exports.len()));
    }
    for e in &input.exports {
        let site = format!("export {:?}", e.name);
        match out_by_name.get(e.name.as_str()).and_then(|v| v.first()) {
            None => c.problem("struct", "export-missing".into(), site),
            Some(o) => {
                if o.kind != e.kind {
                    c.problem("struct", "export-kind-differs".into(), format!("{}: {:?} became {:?}", site, e.kind, o.kind));
                    continue;
                }
                let k = match e.kind {
                    EKind::Func => RefKind::Func,
                    EKind::Table => RefKind::Table,
                    EKind::Memory => RefKind::Memory,
                    EKind::Global => RefKind::Global,
                };
                c.pair(k, "struct", &site, e.index, o.index);
            }
        }
    }
    // ---- start
    match (input.start, output.start) {
        (Some(x), Some(y)) => c.pair(RefKind::Func, "struct", "start function", x, y),
        (None, None) => {}
        (Some(_), None) => c.problem("struct", "start-lost".into(), "the input has a start function, the output has none".into()),
        (None, Some(_)) => c.problem("struct", "start-added".into(), "the output has a start function, the input has none".into()),
    }
    // ---- element segments: by position
    let in_elems: Vec<usize> = (0..input.elems.len()).filter(|i| kept(keep.map(|k| &k.elems), *i)).collect();
    if in_elems.len() != output.elems.len() {
        let kind = if output.elems.len() < in_elems.len() { "element-segment-dropped" } else { "element-segment-added" };
        c.problem("struct", kind.into(), format!("{} element segments expected, {} in the output", in_elems.len(), output.elems.len()));
    }
    for (k, ai) in in_elems.iter().enumerate() {
        if k >= output.elems.len() {
            break;
        }
        let (x, y) = (input.elems[*ai].clone(), output.elems[k].clone());
        let site = format!("element segment in#{} / out#{}", ai, k);
        c.pair(RefKind::Elem, "struct", &site, *ai as u32, k as u32);
        if x.ty != y.ty {
            c.problem("struct", "element-type-differs".into(), format!("{}: {:?} became {:?}", site, x.ty, y.ty));
        }
        match (&x.mode, &y.mode) {
            (DElemMode::Passive, DElemMode::Passive) | (DElemMode::Declared, DElemMode::Declared) => {}
            (DElemMode::Active { table: t1, offset: o1 }, DElemMode::Active { table: t2, offset: o2 }) => {
                c.pair(RefKind::Table, "struct", &site, *t1, *t2);
                c.cmp_const("struct", &format!("offset of {}", site), "element-offset", o1, o2);
            }
            (p, q) => c.problem("struct", "element-mode-differs".into(), format!("{}: {:?} became {:?}", site, p, q)),
        }
        if x.items.len() != y.items.len() {
            c.problem("struct", "element-item-count-differs".into(), format!("{}: {} items became {}", site, x.items.len(), y.items.len()));
        }
        for (j, (p, q)) in x.items.iter().zip(y.items.iter()).enumerate() {
            c.cmp_const("struct", &format!("item {} of {}", j, site), "element-item", p, q);
        }
    }
    // ---- data segments: by position
    let in_datas: Vec<usize> = (0..input.datas.len()).filter(|i| kept(keep.map(|k| &k.datas), *i)).collect();
    if in_datas.len() != output.datas.len() {
        let kind = if output.datas.len() < in_datas.len() { "data-segment-dropped" } else { "data-segment-added" };
        c.problem("struct", kind.into(), format!("{} data segments expected, {} in the output", in_datas.len(), output.datas.len()));
    }
    for (k, ai) in in_datas.iter().enumerate() {
        if k >= output.datas.len() {
            break;
        }
        let (x, y) = (input.datas[*ai].clone(), output.datas[k].clone());
        let site = format!("data segment in#{} / out#{}", ai, k);
        c.pair(RefKind::Data, "struct", &site, *ai as u32, k as u32);
        match (&x.mode, &y.mode) {
            (DDataMode::Passive, DDataMode::Passive) => {}
            (DDataMode::Active { mem: m1, offset: o1 }, DDataMode::Active { mem: m2, offset: o2 }) => {
                c.pair(RefKind::Memory, "struct", &site, *m1, *m2);
                c.cmp_const("struct", &format!("offset of {}", site), "data-offset", o1, o2);
            }
            (p, q) => c.problem("struct", "data-mode-differs".into(), format!("{}: {:?} became {:?}", site, p, q)),
        }
        if x.bytes != y.bytes {
            c.problem("struct", "data-payload-differs".into(), format!("{}: {} bytes became {} bytes", site, x.bytes.len(), y.bytes.len()));
        }
    }
    c.drain();
    // ---- entities no root reaches: pair by attributes
    // functions by body shape: exact shape first, then a loose shape (memory immediates ignored) so that a
    // corrupted immediate is reported as such by the body comparison and not as a dropped function
    let mut given_up: std::collections::HashSet<u32> = std::collections::HashSet::new();
    // shapes are a function of the module alone: computed once per function and kind (many equal unreferenced
    // functions would otherwise make this pairing quadratic in body hashing)
    let mut shape_cache: HashMap<(bool, u32, bool), u64> = HashMap::new();
    let mut shape_of = |m: &DModule, is_out: bool, f: u32, loose: bool, sm: bool| -> u64 { *shape_cache.entry((is_out, f, loose)).or_insert_with(|| body_shape(m, f, loose, sm)) };
    loop {
        let ua: Vec<u32> = (0..input.funcs.len() as u32)
            .filter(|i| c.iso.funcs.get(*i).is_none() && !given_up.contains(i) && kept(keep.map(|k| &k.funcs), *i as usize))
            .collect();
        if ua.is_empty() {
            break;
        }
        let ub: Vec<u32> = (0..output.funcs.len() as u32).filter(|i| c.iso.funcs.get_rev(*i).is_none()).collect();
        let x = ua[0];
        let same_kind = |y: &&u32| input.funcs[x as usize].import.is_some() == output.funcs[**y as usize].import.is_some();
        let sm = c.opts.skip_output_markers;
        let hx = shape_of(input, false, x, false, sm);
        let mut found = ub.iter().filter(same_kind).find(|y| shape_of(output, true, **y, false, sm) == hx).copied();
        if found.is_none() {
            let lx = shape_of(input, false, x, true, sm);
            found = ub.iter().filter(same_kind).find(|y| shape_of(output, true, **y, true, sm) == lx).copied();
        }
        match found {
            Some(y) => {
                c.pair(RefKind::Func, "struct", "unreferenced function (paired by shape)", x, y);
                c.drain();
            }
            None => {
                c.problem("struct", "function-dropped".into(), format!("input function #{} (not referenced from any root) has no counterpart in the output", x));
                given_up.insert(x);
            }
        }
    }
    // globals / tables / memories by type
    macro_rules! leftovers {
        ($field:ident, $ain:expr, $aout:expr, $kind:expr, $keepf:ident, $name:expr, $eq:expr) => {
            let mut given_up: std::collections::HashSet<u32> = std::collections::HashSet::new();
            loop {
                let ua: Vec<u32> = (0..$ain.len() as u32).filter(|i| c.iso.$field.get(*i).is_none() && !given_up.contains(i) && kept(keep.map(|k| &k.$keepf), *i as usize)).collect();
                if ua.is_empty() {
                    break;
                }
                let ub: Vec<u32> = (0..$aout.len() as u32).filter(|i| c.iso.$field.get_rev(*i).is_none()).collect();
                let x = ua[0];
                match ub.iter().find(|y| $eq(&$ain[x as usize], &$aout[**y as usize])) {
                    Some(y) => {
                        c.pair($kind, "struct", concat!("unreferenced ", $name, " (paired by type)"), x, *y);
                        c.drain();
                    }
                    None => {
                        c.problem("struct", format!("{}-dropped", $name), format!("input {} #{} has no counterpart in the output", $name, x));
                        given_up.insert(x);
                    }
                }
            }
        };
    }
    leftovers!(globals, input.globals, output.globals, RefKind::Global, globals, "global", |x: &DGlobal, y: &DGlobal| x.ty == y.ty && x.import.is_some() == y.import.is_some() && match (&x.init, &y.init) {
        (Some(DConst::GlobalGet(_)), Some(DConst::GlobalGet(_))) | (Some(DConst::RefFunc(_)), Some(DConst::RefFunc(_))) => true,
        (p, q) => p == q,
    });
    leftovers!(tables, input.tables, output.tables, RefKind::Table, tables, "table", |x: &DTable, y: &DTable| x.ty == y.ty && x.import.is_some() == y.import.is_some());
    leftovers!(memories, input.memories, output.memories, RefKind::Memory, memories, "memory", |x: &DMemory, y: &DMemory| x.ty == y.ty && x.import.is_some() == y.import.is_some());
    // ---- anything in the output that stands for nothing in the input
    for (name, map) in [("function", &c.iso.funcs), ("global", &c.iso.globals), ("table", &c.iso.tables), ("memory", &c.iso.memories)] {
        let extra: Vec<usize> = map.rev.iter().enumerate().filter(|(_, v)| v.is_none()).map(|(i, _)| i).collect();
        if !extra.is_empty() {
            let d = format!("output {}(s) {:?} correspond to no input {}", name, extra, name);
            c.iso.problems.push(Problem { cat: "struct", sig: format!("{}-added", name), detail: d });
        }
    }
    // ---- types: the set of distinct signatures (walrus de-duplicates and sorts the type section)
    let set_in: std::collections::BTreeSet<String> = input.types.iter().enumerate().filter(|(i, _)| kept(keep.map(|k| &k.types), *i)).map(|(_, s)| sig_str(s)).collect();
    let set_out: std::collections::BTreeSet<String> = output.types.iter().map(sig_str).collect();
    for s in set_out.difference(&set_in) {
        c.iso.problems.push(Problem { cat: "struct", sig: "type-added".into(), detail: format!("output type section has {} which the input (kept part) has not", s) });
    }
    for s in set_in.difference(&set_out) {
        c.iso.problems.push(Problem { cat: "struct", sig: "type-dropped".into(), detail: format!("input type {} is missing from the output", s) });
    }
    c.iso
}

//! Attribute lines describing an entity of a decoded binary independently of
//! its index (signature, import name, marker constants, limits, payload
//! hashes, ...). The driver writes the same lines from what walrus's public
//! API reports; equality of lines is the C19 oracle.

use crate::decode::*;
use crate::norm::{normalise_with, NKind};
use wasmparser::Operator;
use wv_gen::mspec::VT;
use wv_gen::rng::fnv64;

pub fn vt(t: VT) -> &'static str {
    match t {
        VT::I32 => "i32",
        VT::I64 => "i64",
        VT::F32 => "f32",
        VT::F64 => "f64",
        VT::V128 => "v128",
        VT::FuncRef => "funcref",
        VT::ExternRef => "externref",
    }
}

pub fn sig(s: &Sig) -> String {
    format!("({})->({})", s.params.iter().map(|t| vt(*t)).collect::<Vec<_>>().join(","), s.results.iter().map(|t| vt(*t)).collect::<Vec<_>>().join(","))
}

fn imp(m: &DModule, i: usize) -> String {
    format!("imp:{}/{}", m.imports[i].module, m.imports[i].field)
}

pub fn func_line(m: &DModule, f: u32) -> String {
    let func = match m.funcs.get(f as usize) {
        Some(x) => x,
        None => return "F <out of range>".into(),
    };
    let s = m.types.get(func.ty as usize).map(sig).unwrap_or_else(|| "?".into());
    if let Some(i) = func.import {
        return format!("F {} {}", s, imp(m, i));
    }
    let mut consts = Vec::new();
    if let Some(b) = &func.body {
        // walrus keeps code after return_call*, so its IR (what the driver describes) contains those constants
        for o in normalise_with(&b.ops, false) {
            if consts.len() >= 8 {
                break;
            }
            if let NKind::Op(op) = &o.kind {
                match op {
                    Operator::I32Const { value } => consts.push(format!("i32:{}", value)),
                    Operator::I64Const { value } => consts.push(format!("i64:{}", value)),
                    Operator::F32Const { value } => consts.push(format!("f32:{:08x}", value.bits())),
                    Operator::F64Const { value } => consts.push(format!("f64:{:016x}", value.bits())),
                    Operator::V128Const { value } => consts.push(format!("v128:{:032x}", u128::from_le_bytes(*value.bytes()))),
                    _ => {}
                }
            }
        }
    }
    format!("F {} loc:{}", s, consts.join(","))
}

pub fn cexpr(m: &DModule, c: &DConst, depth: usize) -> String {
    match c {
        DConst::I32(x) => format!("i32:{}", x),
        DConst::I64(x) => format!("i64:{}", x),
        DConst::F32(x) => format!("f32:{:08x}", x),
        DConst::F64(x) => format!("f64:{:016x}", x),
        DConst::V128(b) => format!("v128:{:032x}", u128::from_le_bytes(*b)),
        DConst::GlobalGet(g) => {
            if depth > 4 {
                "get(...)".into()
            } else {
                format!("get({})", global_line_d(m, *g, depth + 1))
            }
        }
        DConst::RefNull(t) => format!("null:{}", vt(*t)),
        DConst::RefFunc(f) => format!("func({})", func_line(m, *f)),
        DConst::Other(s) => format!("other:{}", s),
    }
}

fn global_line_d(m: &DModule, g: u32, depth: usize) -> String {
    let gl = match m.globals.get(g as usize) {
        Some(x) => x,
        None => return "G <out of range>".into(),
    };
    let k = match (gl.import, &gl.init) {
        (Some(i), _) => imp(m, i),
        (None, Some(e)) => format!("init:{}", cexpr(m, e, depth)),
        _ => "?".into(),
    };
    format!("G {} {} {}", vt(gl.ty.ty), if gl.ty.mutable { "mut" } else { "const" }, k)
}

pub fn global_line(m: &DModule, g: u32) -> String {
    global_line_d(m, g, 0)
}

pub fn table_line(m: &DModule, t: u32) -> String {
    let tb = match m.tables.get(t as usize) {
        Some(x) => x,
        None => return "T <out of range>".into(),
    };
    format!(
        "T {} {} {} t64={} {}",
        vt(tb.ty.elem),
        tb.ty.lim.min,
        tb.ty.lim.max.map(|x| x.to_string()).unwrap_or_else(|| "-".into()),
        tb.ty.lim.is64,
        tb.import.map(|i| imp(m, i)).unwrap_or_else(|| "loc".into())
    )
}

pub fn memory_line(m: &DModule, t: u32) -> String {
    let mm = match m.memories.get(t as usize) {
        Some(x) => x,
        None => return "M <out of range>".into(),
    };
    format!(
        "M {} {} shared={} m64={} {}",
        mm.ty.min,
        mm.ty.max.map(|x| x.to_string()).unwrap_or_else(|| "-".into()),
        mm.ty.shared,
        mm.ty.is64,
        mm.import.map(|i| imp(m, i)).unwrap_or_else(|| "loc".into())
    )
}

pub fn elem_line(m: &DModule, e: u32) -> String {
    let el = match m.elems.get(e as usize) {
        Some(x) => x,
        None => return "E <out of range>".into(),
    };
    let mode = match &el.mode {
        DElemMode::Passive => "passive".to_string(),
        DElemMode::Declared => "declared".to_string(),
        DElemMode::Active { table, offset } => format!("active[{}]@{}", table_line(m, *table), cexpr(m, offset, 0)),
    };
    let items: Vec<String> = el.items.iter().map(|x| cexpr(m, x, 0)).collect();
    format!("E {} {} n={} h={:016x}", mode, vt(el.ty), items.len(), fnv64(items.join(";").as_bytes()))
}

pub fn data_line(m: &DModule, d: u32) -> String {
    let dt = match m.datas.get(d as usize) {
        Some(x) => x,
        None => return "D <out of range>".into(),
    };
    let mode = match &dt.mode {
        DDataMode::Passive => "passive".to_string(),
        DDataMode::Active { mem, offset } => format!("active[{}]@{}", memory_line(m, *mem), cexpr(m, offset, 0)),
    };
    format!("D {} len={} h={:016x}", mode, dt.bytes.len(), fnv64(&dt.bytes))
}

pub fn type_line(m: &DModule, t: u32) -> String {
    m.types.get(t as usize).map(|s| format!("Y {}", sig(s))).unwrap_or_else(|| "Y <out of range>".into())
}

pub fn line(m: &DModule, kind: char, idx: u32) -> String {
    match kind {
        'F' => func_line(m, idx),
        'Y' => type_line(m, idx),
        'T' => table_line(m, idx),
        'M' => memory_line(m, idx),
        'G' => global_line(m, idx),
        'E' => elem_line(m, idx),
        'D' => data_line(m, idx),
        _ => "?".into(),
    }
}

/// All lines the parse-time observer is expected to log, in its order.
pub fn expected_on_parse_lines(m: &DModule) -> Vec<String> {
    let mut out = Vec::new();
    for (i, f) in m.funcs.iter().enumerate() {
        out.push(format!("func {} | {}", i, func_line(m, i as u32)));
        if f.import.is_none() {
            let mut tys: Vec<&str> = m.types.get(f.ty as usize).map(|s| s.params.iter().map(|t| vt(*t)).collect()).unwrap_or_default();
            if let Some(b) = &f.body {
                tys.extend(b.locals.iter().map(|t| vt(*t)));
            }
            out.push(format!("locals {} | {}", i, tys.join(",")));
        }
    }
    for i in 0..m.types.len() {
        out.push(format!("type {} | {}", i, type_line(m, i as u32)));
    }
    for i in 0..m.tables.len() {
        out.push(format!("table {} | {}", i, table_line(m, i as u32)));
    }
    for i in 0..m.memories.len() {
        out.push(format!("memory {} | {}", i, memory_line(m, i as u32)));
    }
    for i in 0..m.globals.len() {
        out.push(format!("global {} | {}", i, global_line(m, i as u32)));
    }
    for i in 0..m.elems.len() {
        out.push(format!("elem {} | {}", i, elem_line(m, i as u32)));
    }
    for i in 0..m.datas.len() {
        out.push(format!("data {} | {}", i, data_line(m, i as u32)));
    }
    out
}

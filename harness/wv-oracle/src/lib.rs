//! Oracles. Links no walrus code.
pub mod decode;
pub mod feat;

//! Oracles. Links no walrus code.
pub mod decode;
pub mod feat;
pub mod iso;
pub mod norm;
pub mod reach;
pub mod sections;
pub mod ident;
pub mod dwarfread;
pub mod encodings;

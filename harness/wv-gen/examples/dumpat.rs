fn main() {
    let spec = std::env::args().nth(1).unwrap();
    let b = wv_gen::workload::materialize(&spec).unwrap();
    let err = wasmparser::Validator::new_with_features(wv_gen::optable::walrus_features()).validate_all(&b).err();
    println!("{:?}", err);
    let off = err.map(|e| e.offset()).unwrap_or(0);
    for p in wasmparser::Parser::new(0).parse_all(&b) {
        if let wasmparser::Payload::CodeSectionEntry(body) = p.unwrap() {
            let r = body.range();
            if r.start <= off && off < r.end {
                let mut ops = body.get_operators_reader().unwrap();
                let mut depth = 0usize;
                while !ops.eof() {
                    let pos = ops.original_position();
                    let op = ops.read().unwrap();
                    if matches!(op, wasmparser::Operator::End | wasmparser::Operator::Else) { depth = depth.saturating_sub(1); }
                    println!("{}{:5x} {}{:?}", if pos == off { ">>" } else { "  " }, pos, "  ".repeat(depth), op);
                    if matches!(op, wasmparser::Operator::Block{..} | wasmparser::Operator::Loop{..} | wasmparser::Operator::If{..} | wasmparser::Operator::Else) { depth += 1; }
                    if pos > off + 8 { break; }
                }
            }
        }
    }
}

fn main() {
    let t = std::time::Instant::now();
    let tab = wv_gen::optable::table();
    println!("accepted {} in {:?}", tab.len(), t.elapsed());
    let mut by = std::collections::BTreeMap::<(&str, String), usize>::new();
    for e in tab { *by.entry((e.info.proposal, format!("{:?}", e.class))).or_default() += 1; }
    println!("{:?}", by);
    for e in tab.iter().filter(|e| std::env::args().nth(1).map(|a| e.info.name.contains(&a)).unwrap_or(false)) {
        println!("{:<30} {:?} -> {:?} align<= {} exact={} lanes={} {:?}", e.info.name, e.params, e.results, e.max_align, e.exact_align, e.lanes, e.class);
    }
}

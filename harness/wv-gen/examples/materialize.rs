fn main() {
    let spec = std::env::args().nth(1).unwrap();
    let out = std::env::args().nth(2).unwrap();
    let b = wv_gen::workload::materialize(&spec).expect("cannot materialize");
    std::fs::write(out, b).unwrap();
}

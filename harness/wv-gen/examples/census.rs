fn main() {
    let t = std::time::Instant::now();
    let c = wv_gen::census::census_funcs();
    println!("{} census functions in {:?}", c.len(), t.elapsed());
    let mut ops = std::collections::BTreeMap::<&str, usize>::new();
    for f in c { *ops.entry(f.op).or_default() += 1; }
    println!("{} distinct operators", ops.len());
    let tab: std::collections::BTreeSet<&str> = wv_gen::optable::table().iter().map(|e| e.info.name).collect();
    let missing: Vec<&&str> = tab.iter().filter(|n| !ops.contains_key(**n)).collect();
    println!("missing from census: {:?}", missing);
    let specs = wv_gen::census::op_census_specs();
    let mut bad = 0;
    for s in &specs { let b = wv_gen::workload::materialize(s).unwrap(); if !wv_gen::optable::valid(&b) { bad += 1; println!("INVALID {}", s); } }
    println!("{} chunk modules, {} invalid", specs.len(), bad);
    let alone = wv_gen::census::op_alone_specs(); let n = alone.iter().filter(|s| wv_gen::workload::materialize(s).is_some()).count();
    println!("alone modules: {} of {}", n, alone.len());
}

use wv_gen::gen::*;
fn main() {
    let profile = std::env::args().nth(1).unwrap_or("full".into());
    let n: u64 = std::env::args().nth(2).and_then(|s| s.parse().ok()).unwrap_or(1000);
    let seed: u64 = std::env::args().nth(3).and_then(|s| s.parse().ok()).unwrap_or(1);
    let mut bad = 0; let mut total = 0usize;
    let t = std::time::Instant::now();
    let mut errs = std::collections::BTreeMap::<String, (usize, String)>::new();
    for i in 0..n {
        let spec = format!("gen:{}:{}:{}", profile, seed, i);
        let b = materialize(&spec).unwrap();
        total += b.len();
        if let Err(e) = wasmparser::Validator::new_with_features(wv_gen::optable::walrus_features()).validate_all(&b) {
            bad += 1;
            let k = e.to_string().split(" (at").next().unwrap().to_string();
            errs.entry(k).or_insert((0, spec.clone())).0 += 1;
        }
    }
    println!("{} modules, {} invalid, avg {} bytes, {:?}", n, bad, total / n as usize, t.elapsed());
    for (k, (c, s)) in errs { println!("  {} x{}  e.g. {}", k, c, s); }
}

//! Abstract, well-typed instruction trees for the builder-API property (C15).
//! The same `(seed, index)` gives the same tree in the driver (which builds it
//! through walrus's `FunctionBuilder` in several insertion orders) and in the
//! judge (which flattens it by its own scoping rules into the expected
//! operator list).

use crate::mspec::VT;
use crate::rng::Rng;

#[derive(Clone, Debug, PartialEq)]
pub enum TOp {
    I32Const(i32),
    I64Const(i64),
    F32Const(u32),
    F64Const(u64),
    LocalGet(usize),
    LocalSet(usize),
    LocalTee(usize),
    GlobalGet(usize),
    GlobalSet(usize),
    /// walrus `BinaryOp` / `UnaryOp` variant names (identical to wasmparser operator names)
    Bin(&'static str),
    Un(&'static str),
    Drop,
    Select,
    /// branch to the construct with this id (0 = the function body)
    Br(usize),
    BrIf(usize),
    BrTable(Vec<usize>, usize),
    Return,
    Unreachable,
    I32Load { align_log2: u8, offset: u32 },
    I64Load { align_log2: u8, offset: u32 },
    I32Store { align_log2: u8, offset: u32 },
    I32Store8 { offset: u32 },
    MemorySize,
    MemoryGrow,
    /// call of the helper function (i32) -> i32
    CallHelper,
    /// bulk operators with two entity operands each (environment: memories 0 and 1, tables 0 and 1, one passive data
    /// segment, one passive element segment); operands of the copy variants are (source, destination)
    MemoryCopy { src: usize, dst: usize },
    TableCopy { src: usize, dst: usize },
    MemoryInit { mem: usize },
    DataDrop,
    TableInit { table: usize },
    ElemDrop,
    MemoryFill { mem: usize },
    /// -> i32
    TableSize { table: usize },
}

impl TOp {
    pub fn is_bulk(&self) -> bool {
        matches!(self, TOp::MemoryCopy { .. } | TOp::TableCopy { .. } | TOp::MemoryInit { .. } | TOp::DataDrop | TOp::TableInit { .. } | TOp::ElemDrop | TOp::MemoryFill { .. } | TOp::TableSize { .. })
    }
}

/// Does the tree use the bulk environment (second memory, tables, passive segments)?
pub fn uses_bulk(nodes: &[TNode]) -> bool {
    nodes.iter().any(|n| match n {
        TNode::Op(op) => op.is_bulk(),
        TNode::Block { body, .. } | TNode::Loop { body, .. } => uses_bulk(body),
        TNode::If { then_, else_, .. } => uses_bulk(then_) || uses_bulk(else_),
    })
}

#[derive(Clone, Debug, PartialEq)]
pub enum TNode {
    Op(TOp),
    Block { id: usize, params: Vec<VT>, results: Vec<VT>, body: Vec<TNode> },
    Loop { id: usize, params: Vec<VT>, results: Vec<VT>, body: Vec<TNode> },
    If { id: usize, params: Vec<VT>, results: Vec<VT>, then_: Vec<TNode>, else_: Vec<TNode> },
}

#[derive(Clone, Debug)]
pub struct TFunc {
    pub params: Vec<VT>,
    pub results: Vec<VT>,
    /// all locals, parameters first
    pub locals: Vec<VT>,
    pub body: Vec<TNode>,
    pub constructs: usize,
}

/// globals of the environment module: index 0 = i32 mutable, 1 = i64 mutable, 2 = f32 mutable, 3 = f64 mutable
pub const ENV_GLOBALS: [VT; 4] = [VT::I32, VT::I64, VT::F32, VT::F64];

const BIN: [(&str, VT, VT); 22] = [
    ("I32Add", VT::I32, VT::I32),
    ("I32Sub", VT::I32, VT::I32),
    ("I32Mul", VT::I32, VT::I32),
    ("I32And", VT::I32, VT::I32),
    ("I32Or", VT::I32, VT::I32),
    ("I32Xor", VT::I32, VT::I32),
    ("I32Shl", VT::I32, VT::I32),
    ("I32ShrU", VT::I32, VT::I32),
    ("I32LtS", VT::I32, VT::I32),
    ("I32Eq", VT::I32, VT::I32),
    ("I32DivU", VT::I32, VT::I32),
    ("I64Add", VT::I64, VT::I64),
    ("I64Mul", VT::I64, VT::I64),
    ("I64Xor", VT::I64, VT::I64),
    ("I64LtU", VT::I64, VT::I32),
    ("F32Add", VT::F32, VT::F32),
    ("F32Mul", VT::F32, VT::F32),
    ("F32Lt", VT::F32, VT::I32),
    ("F64Add", VT::F64, VT::F64),
    ("F64Div", VT::F64, VT::F64),
    ("F64Max", VT::F64, VT::F64),
    ("F64Ge", VT::F64, VT::I32),
];

const UN: [(&str, VT, VT); 14] = [
    ("I32Eqz", VT::I32, VT::I32),
    ("I32Clz", VT::I32, VT::I32),
    ("I32Popcnt", VT::I32, VT::I32),
    ("I64Eqz", VT::I64, VT::I32),
    ("I64Ctz", VT::I64, VT::I64),
    ("I32WrapI64", VT::I64, VT::I32),
    ("I64ExtendI32S", VT::I32, VT::I64),
    ("I64ExtendI32U", VT::I32, VT::I64),
    ("F32Neg", VT::F32, VT::F32),
    ("F64Sqrt", VT::F64, VT::F64),
    ("F64PromoteF32", VT::F32, VT::F64),
    ("F32DemoteF64", VT::F64, VT::F32),
    ("F32ConvertI32S", VT::I32, VT::F32),
    ("I32ReinterpretF32", VT::F32, VT::I32),
];

struct Lab {
    id: usize,
    tys: Vec<VT>,
}

struct G<'a> {
    rng: &'a mut Rng,
    locals: Vec<VT>,
    labels: Vec<Lab>,
    next_id: usize,
    budget: i64,
    results: Vec<VT>,
    multivalue: bool,
}

const TYS: [VT; 4] = [VT::I32, VT::I64, VT::F32, VT::F64];

impl<'a> G<'a> {
    fn new_id(&mut self) -> usize {
        self.next_id += 1;
        self.next_id
    }
    fn leaf(&mut self, t: VT, out: &mut Vec<TNode>) {
        let ls: Vec<usize> = (0..self.locals.len()).filter(|i| self.locals[*i] == t).collect();
        match self.rng.below(3) {
            0 if !ls.is_empty() => out.push(TNode::Op(TOp::LocalGet(*self.rng.pick(&ls)))),
            1 => out.push(TNode::Op(TOp::GlobalGet(ENV_GLOBALS.iter().position(|x| *x == t).unwrap()))),
            _ => out.push(TNode::Op(match t {
                VT::I32 => TOp::I32Const(self.rng.interesting_u64() as i32),
                VT::I64 => TOp::I64Const(self.rng.interesting_u64() as i64),
                VT::F32 => TOp::F32Const(self.rng.next() as u32),
                _ => TOp::F64Const(self.rng.next()),
            })),
        }
    }
    fn expr(&mut self, t: VT, depth: usize, out: &mut Vec<TNode>) {
        self.budget -= 1;
        if depth > 5 || self.budget <= 0 {
            self.leaf(t, out);
            return;
        }
        match self.rng.below(12) {
            0..=2 => {
                let c: Vec<&(&str, VT, VT)> = BIN.iter().filter(|b| b.2 == t).collect();
                let b = **self.rng.pick(&c);
                self.expr(b.1, depth + 1, out);
                self.expr(b.1, depth + 1, out);
                out.push(TNode::Op(TOp::Bin(b.0)));
            }
            3 | 4 => {
                let c: Vec<&(&str, VT, VT)> = UN.iter().filter(|b| b.2 == t).collect();
                let u = **self.rng.pick(&c);
                self.expr(u.1, depth + 1, out);
                out.push(TNode::Op(TOp::Un(u.0)));
            }
            5 => {
                // block with result, possibly left early
                let id = self.new_id();
                self.labels.push(Lab { id, tys: vec![t] });
                let mut body = Vec::new();
                self.stmts(depth + 1, 2, &mut body);
                if self.rng.chance(1, 2) {
                    self.expr(t, depth + 1, &mut body);
                    self.expr(VT::I32, depth + 1, &mut body);
                    body.push(TNode::Op(TOp::BrIf(id)));
                    body.push(TNode::Op(TOp::Drop));
                }
                self.expr(t, depth + 1, &mut body);
                self.labels.pop();
                out.push(TNode::Block { id, params: vec![], results: vec![t], body });
            }
            6 => {
                let id = self.new_id();
                self.expr(VT::I32, depth + 1, out);
                self.labels.push(Lab { id, tys: vec![t] });
                let mut a = Vec::new();
                self.stmts(depth + 1, 1, &mut a);
                self.expr(t, depth + 1, &mut a);
                let mut b = Vec::new();
                self.expr(t, depth + 1, &mut b);
                self.labels.pop();
                out.push(TNode::If { id, params: vec![], results: vec![t], then_: a, else_: b });
            }
            7 => {
                self.expr(t, depth + 1, out);
                self.expr(t, depth + 1, out);
                self.expr(VT::I32, depth + 1, out);
                out.push(TNode::Op(TOp::Select));
            }
            8 => {
                let ls: Vec<usize> = (0..self.locals.len()).filter(|i| self.locals[*i] == t).collect();
                if ls.is_empty() {
                    self.leaf(t, out);
                } else {
                    self.expr(t, depth + 1, out);
                    out.push(TNode::Op(TOp::LocalTee(*self.rng.pick(&ls))));
                }
            }
            9 if t == VT::I32 => {
                self.expr(VT::I32, depth + 1, out);
                let k = self.rng.below(4);
                let op = match k {
                    0 => TOp::I32Load { align_log2: self.rng.below(3) as u8, offset: self.rng.below(4) as u32 * 4 },
                    1 => TOp::MemoryGrow,
                    2 => TOp::CallHelper,
                    _ => {
                        out.push(TNode::Op(TOp::Drop));
                        TOp::MemorySize
                    }
                };
                out.push(TNode::Op(op));
            }
            9 if t == VT::I64 => {
                self.expr(VT::I32, depth + 1, out);
                out.push(TNode::Op(TOp::I64Load { align_log2: self.rng.below(4) as u8, offset: 0x1_0000 }));
            }
            11 if self.multivalue => {
                // multi-value block without parameters: (result t i32), the second result dropped afterwards
                let id = self.new_id();
                self.labels.push(Lab { id, tys: vec![t, VT::I32] });
                let mut body = Vec::new();
                self.expr(t, depth + 1, &mut body);
                self.expr(VT::I32, depth + 1, &mut body);
                self.labels.pop();
                out.push(TNode::Block { id, params: vec![], results: vec![t, VT::I32], body });
                out.push(TNode::Op(TOp::Drop));
            }
            10 if self.multivalue => {
                // multi-value block: (param i32) (result t)
                let id = self.new_id();
                self.expr(VT::I32, depth + 1, out);
                self.labels.push(Lab { id, tys: vec![t] });
                let mut body = vec![TNode::Op(TOp::Drop)];
                self.expr(t, depth + 1, &mut body);
                self.labels.pop();
                out.push(TNode::Block { id, params: vec![VT::I32], results: vec![t], body });
            }
            _ => self.leaf(t, out),
        }
    }
    fn stmts(&mut self, depth: usize, max: u64, out: &mut Vec<TNode>) {
        let n = self.rng.below(max + 1);
        for _ in 0..n {
            if self.budget <= 0 {
                break;
            }
            self.stmt(depth, out);
        }
    }
    fn stmt(&mut self, depth: usize, out: &mut Vec<TNode>) {
        self.budget -= 1;
        let k = self.rng.below(12);
        if (depth > 5 || self.budget <= 0) && k > 2 {
            return;
        }
        match k {
            0 => {
                let t = *self.rng.pick(&TYS);
                self.expr(t, depth + 1, out);
                out.push(TNode::Op(TOp::Drop));
            }
            1 => {
                if self.locals.is_empty() {
                    return;
                }
                let l = self.rng.usize(self.locals.len());
                let t = self.locals[l];
                self.expr(t, depth + 1, out);
                out.push(TNode::Op(TOp::LocalSet(l)));
            }
            2 => {
                let g = self.rng.usize(4);
                self.expr(ENV_GLOBALS[g], depth + 1, out);
                out.push(TNode::Op(TOp::GlobalSet(g)));
            }
            3 if self.multivalue && self.rng.chance(1, 3) => {
                // a bulk operator with its (small constant) operands
                let (a, b) = (self.rng.usize(2), self.rng.usize(2));
                let op = match self.rng.below(8) {
                    0 => TOp::MemoryCopy { src: a, dst: b },
                    1 | 2 => TOp::TableCopy { src: a, dst: b },
                    3 => TOp::MemoryInit { mem: a },
                    4 => TOp::TableInit { table: a },
                    5 => TOp::MemoryFill { mem: a },
                    6 => TOp::DataDrop,
                    _ => TOp::ElemDrop,
                };
                if !matches!(op, TOp::DataDrop | TOp::ElemDrop) {
                    for _ in 0..3 {
                        out.push(TNode::Op(TOp::I32Const(self.rng.below(3) as i32)));
                    }
                }
                out.push(TNode::Op(op));
            }
            3 => {
                self.expr(VT::I32, depth + 1, out);
                self.expr(VT::I32, depth + 1, out);
                out.push(TNode::Op(if self.rng.bool() { TOp::I32Store { align_log2: self.rng.below(3) as u8, offset: self.rng.below(64) as u32 } } else { TOp::I32Store8 { offset: 0xffff } }));
            }
            4 | 5 => {
                let id = self.new_id();
                self.expr(VT::I32, depth + 1, out);
                self.labels.push(Lab { id, tys: vec![] });
                let mut a = Vec::new();
                self.stmts(depth + 1, 3, &mut a);
                let mut b = Vec::new();
                if self.rng.bool() {
                    self.stmts(depth + 1, 2, &mut b);
                }
                self.labels.pop();
                out.push(TNode::If { id, params: vec![], results: vec![], then_: a, else_: b });
            }
            6 if self.multivalue && self.rng.chance(1, 3) => {
                // block with a parameter and no result: (param i32)
                let id = self.new_id();
                self.expr(VT::I32, depth + 1, out);
                self.labels.push(Lab { id, tys: vec![] });
                let mut body = vec![TNode::Op(TOp::Drop)];
                self.stmts(depth + 1, 2, &mut body);
                self.labels.pop();
                out.push(TNode::Block { id, params: vec![VT::I32], results: vec![], body });
            }
            7 if self.multivalue && self.rng.chance(1, 3) => {
                // loop with a parameter and no result: the back edge carries the parameter
                let id = self.new_id();
                self.expr(VT::I64, depth + 1, out);
                self.labels.push(Lab { id, tys: vec![VT::I64] });
                let mut body = vec![TNode::Op(TOp::Drop)];
                self.stmts(depth + 1, 2, &mut body);
                self.expr(VT::I64, depth + 1, &mut body);
                self.expr(VT::I32, depth + 1, &mut body);
                body.push(TNode::Op(TOp::BrIf(id)));
                body.push(TNode::Op(TOp::Drop));
                self.labels.pop();
                out.push(TNode::Loop { id, params: vec![VT::I64], results: vec![], body });
            }
            6 => {
                let id = self.new_id();
                self.labels.push(Lab { id, tys: vec![] });
                let mut body = Vec::new();
                self.stmts(depth + 1, 2, &mut body);
                self.expr(VT::I32, depth + 1, &mut body);
                body.push(TNode::Op(TOp::BrIf(id)));
                self.stmts(depth + 1, 2, &mut body);
                self.labels.pop();
                out.push(TNode::Block { id, params: vec![], results: vec![], body });
            }
            7 => {
                // loop with a conditional back edge
                let id = self.new_id();
                // branching to a loop label carries the loop's parameters (none here)
                self.labels.push(Lab { id, tys: vec![] });
                let mut body = Vec::new();
                self.stmts(depth + 1, 3, &mut body);
                self.expr(VT::I32, depth + 1, &mut body);
                body.push(TNode::Op(TOp::BrIf(id)));
                self.labels.pop();
                out.push(TNode::Loop { id, params: vec![], results: vec![], body });
            }
            8 => {
                // unconditional transfer at the end of a block
                let id = self.new_id();
                self.labels.push(Lab { id, tys: vec![] });
                let mut body = Vec::new();
                self.stmts(depth + 1, 2, &mut body);
                let li = self.rng.usize(self.labels.len());
                let (tid, tys) = (self.labels[li].id, self.labels[li].tys.clone());
                match self.rng.below(4) {
                    0 => {
                        for t in &tys {
                            self.expr(*t, depth + 1, &mut body);
                        }
                        body.push(TNode::Op(TOp::Br(tid)));
                    }
                    1 => {
                        let same: Vec<usize> = self.labels.iter().filter(|l| l.tys == tys).map(|l| l.id).collect();
                        let n = self.rng.below(4) as usize;
                        let ts: Vec<usize> = (0..n).map(|_| *self.rng.pick(&same)).collect();
                        for t in &tys {
                            self.expr(*t, depth + 1, &mut body);
                        }
                        self.expr(VT::I32, depth + 1, &mut body);
                        body.push(TNode::Op(TOp::BrTable(ts, tid)));
                    }
                    2 => {
                        let rs = self.results.clone();
                        for t in &rs {
                            self.expr(*t, depth + 1, &mut body);
                        }
                        body.push(TNode::Op(TOp::Return));
                    }
                    _ => body.push(TNode::Op(TOp::Unreachable)),
                }
                self.labels.pop();
                out.push(TNode::Block { id, params: vec![], results: vec![], body });
            }
            9 => {
                // br_if carrying the values of an enclosing label
                let li = self.rng.usize(self.labels.len());
                let (tid, tys) = (self.labels[li].id, self.labels[li].tys.clone());
                for t in &tys {
                    self.expr(*t, depth + 1, out);
                }
                self.expr(VT::I32, depth + 1, out);
                out.push(TNode::Op(TOp::BrIf(tid)));
                for _ in &tys {
                    out.push(TNode::Op(TOp::Drop));
                }
            }
            _ => {
                let t = *self.rng.pick(&TYS);
                self.expr(t, depth + 1, out);
                out.push(TNode::Op(TOp::Drop));
            }
        }
    }
}

pub fn gen_tree(rng: &mut Rng) -> TFunc {
    let np = rng.below(4) as usize;
    let multivalue = rng.chance(2, 3);
    let nr = if multivalue { rng.below(3) as usize } else { rng.below(2) as usize };
    let params: Vec<VT> = (0..np).map(|_| *rng.pick(&TYS)).collect();
    let results: Vec<VT> = (0..nr).map(|_| *rng.pick(&TYS)).collect();
    let mut locals = params.clone();
    for _ in 0..rng.below(6) {
        locals.push(*rng.pick(&TYS));
    }
    let budget = 10 + rng.below(50) as i64;
    let mut g = G { rng, locals: locals.clone(), labels: vec![Lab { id: 0, tys: results.clone() }], next_id: 0, budget, results: results.clone(), multivalue };
    let mut body = Vec::new();
    g.stmts(0, 5, &mut body);
    for t in &results {
        g.expr(*t, 0, &mut body);
    }
    let constructs = g.next_id;
    TFunc { params, results, locals, body, constructs }
}

pub fn tree_for(seed: u64, index: u64) -> TFunc {
    let mut rng = Rng::derive(seed, &[0xC15, index]);
    gen_tree(&mut rng)
}

/// One expected operator of the in-order flattening.
#[derive(Clone, Debug, PartialEq)]
pub enum Flat {
    /// operator name (wasmparser spelling) and literal immediates
    Plain(String),
    /// local access: operator name and the tree's local number
    Local(&'static str, usize),
    /// block-like start with signature
    Start(&'static str, Vec<VT>, Vec<VT>),
    Else,
    End,
    Br(&'static str, u32),
    BrTable(Vec<u32>, u32),
}

/// In-order flattening with branch depths resolved by lexical scoping.
pub fn flatten(f: &TFunc) -> Vec<Flat> {
    fn depth_of(stack: &[usize], id: usize) -> u32 {
        let pos = stack.iter().rposition(|x| *x == id).expect("label in scope");
        (stack.len() - 1 - pos) as u32
    }
    fn walk(nodes: &[TNode], stack: &mut Vec<usize>, out: &mut Vec<Flat>) {
        for n in nodes {
            match n {
                TNode::Op(op) => out.push(match op {
                    TOp::I32Const(v) => Flat::Plain(format!("I32Const value={}", v)),
                    TOp::I64Const(v) => Flat::Plain(format!("I64Const value={}", v)),
                    TOp::F32Const(v) => Flat::Plain(format!("F32Const value={:08x}", v)),
                    TOp::F64Const(v) => Flat::Plain(format!("F64Const value={:016x}", v)),
                    TOp::LocalGet(l) => Flat::Local("LocalGet", *l),
                    TOp::LocalSet(l) => Flat::Local("LocalSet", *l),
                    TOp::LocalTee(l) => Flat::Local("LocalTee", *l),
                    TOp::GlobalGet(g) => Flat::Plain(format!("GlobalGet global_index={}", g)),
                    TOp::GlobalSet(g) => Flat::Plain(format!("GlobalSet global_index={}", g)),
                    TOp::Bin(n) | TOp::Un(n) => Flat::Plain(n.to_string()),
                    TOp::Drop => Flat::Plain("Drop".into()),
                    TOp::Select => Flat::Plain("Select".into()),
                    TOp::Br(id) => Flat::Br("Br", depth_of(stack, *id)),
                    TOp::BrIf(id) => Flat::Br("BrIf", depth_of(stack, *id)),
                    TOp::BrTable(ts, d) => Flat::BrTable(ts.iter().map(|t| depth_of(stack, *t)).collect(), depth_of(stack, *d)),
                    TOp::Return => Flat::Plain("Return".into()),
                    TOp::Unreachable => Flat::Plain("Unreachable".into()),
                    TOp::I32Load { align_log2, offset } => Flat::Plain(format!("I32Load align={} offset={} memory=0", align_log2, offset)),
                    TOp::I64Load { align_log2, offset } => Flat::Plain(format!("I64Load align={} offset={} memory=0", align_log2, offset)),
                    TOp::I32Store { align_log2, offset } => Flat::Plain(format!("I32Store align={} offset={} memory=0", align_log2, offset)),
                    TOp::I32Store8 { offset } => Flat::Plain(format!("I32Store8 align=0 offset={} memory=0", offset)),
                    TOp::MemorySize => Flat::Plain("MemorySize mem=0".into()),
                    TOp::MemoryGrow => Flat::Plain("MemoryGrow mem=0".into()),
                    TOp::CallHelper => Flat::Plain("Call helper".into()),
                    TOp::MemoryCopy { src, dst } => Flat::Plain(format!("MemoryCopy dst_mem={} src_mem={}", dst, src)),
                    TOp::TableCopy { src, dst } => Flat::Plain(format!("TableCopy dst_table={} src_table={}", dst, src)),
                    TOp::MemoryInit { mem } => Flat::Plain(format!("MemoryInit data_index=0 mem={}", mem)),
                    TOp::DataDrop => Flat::Plain("DataDrop data_index=0".into()),
                    TOp::TableInit { table } => Flat::Plain(format!("TableInit elem_index=0 table={}", table)),
                    TOp::ElemDrop => Flat::Plain("ElemDrop elem_index=0".into()),
                    TOp::MemoryFill { mem } => Flat::Plain(format!("MemoryFill mem={}", mem)),
                    TOp::TableSize { table } => Flat::Plain(format!("TableSize table={}", table)),
                }),
                TNode::Block { id, params, results, body } => {
                    out.push(Flat::Start("Block", params.clone(), results.clone()));
                    stack.push(*id);
                    walk(body, stack, out);
                    stack.pop();
                    out.push(Flat::End);
                }
                TNode::Loop { id, params, results, body } => {
                    out.push(Flat::Start("Loop", params.clone(), results.clone()));
                    stack.push(*id);
                    walk(body, stack, out);
                    stack.pop();
                    out.push(Flat::End);
                }
                TNode::If { id, params, results, then_, else_ } => {
                    out.push(Flat::Start("If", params.clone(), results.clone()));
                    stack.push(*id);
                    walk(then_, stack, out);
                    out.push(Flat::Else);
                    walk(else_, stack, out);
                    stack.pop();
                    out.push(Flat::End);
                }
            }
        }
    }
    let mut out = Vec::new();
    let mut stack = vec![0usize];
    walk(&f.body, &mut stack, &mut out);
    out.push(Flat::End);
    out
}

pub fn count_nodes(nodes: &[TNode]) -> usize {
    nodes
        .iter()
        .map(|n| match n {
            TNode::Op(_) => 1,
            TNode::Block { body, .. } | TNode::Loop { body, .. } => 1 + count_nodes(body),
            TNode::If { then_, else_, .. } => 1 + count_nodes(then_) + count_nodes(else_),
        })
        .sum()
}

//! DWARF synthesiser: given any wasm module, append well-formed `.debug_*`
//! sections in which every line-table row carries a unique line number (one
//! row per instruction) and there is one `DW_TAG_subprogram` named `f<index>`
//! per local function (`low_pc` = start of the function body after the size
//! LEB, `high_pc` = length up to the function end - the convention measured in
//! LLVM-produced modules). Built with `gimli::write`; the "file 0" variant of
//! DWARF 5 is produced by patching `DW_LNS_set_file 0` into the program.

use gimli::write::*;
use gimli::{Encoding, Format, LineEncoding, LittleEndian};
use wasmparser::{Parser, Payload};

#[derive(Clone, Copy, Debug, PartialEq, Eq)]
pub struct DwarfOpts {
    pub version: u16,
    /// one line sequence spanning all functions (otherwise one sequence per function)
    pub spanning: bool,
    /// DWARF 5 only: rows name file index 0
    pub file0: bool,
    /// DW_AT_high_pc given as an address (DW_FORM_addr) instead of an offset from low_pc
    pub high_addr: bool,
    /// one spanning sequence that has no DW_LNE_set_address (its addresses count from 0)
    pub no_set_address: bool,
    /// an extra line sequence based at 0xFFFFFFFF (what a linker leaves for code it discarded), lines from 1000000
    pub tombstoned_seq: bool,
    /// every other subprogram has children (a parameter, a lexical block with its own range holding a variable), so
    /// that sibling subprograms follow nested entries
    pub nested: bool,
}

pub struct FuncLayout {
    /// offsets relative to the start of the code section contents
    pub entry_start: u64,
    pub body_start: u64,
    pub end: u64,
    pub instrs: Vec<u64>,
}

pub fn layout(wasm: &[u8]) -> Vec<FuncLayout> {
    let mut code_start = 0usize;
    let mut funcs = vec![];
    for p in Parser::new(0).parse_all(wasm) {
        match p {
            Ok(Payload::CodeSectionStart { range, .. }) => code_start = range.start,
            Ok(Payload::CodeSectionEntry(b)) => {
                let r = b.range();
                let size = (r.end - r.start) as u64;
                let mut leb = 1usize;
                let mut s = size >> 7;
                while s > 0 {
                    leb += 1;
                    s >>= 7;
                }
                // non-minimal size LEBs: scan back over continuation bytes
                let mut start = r.start - leb;
                while start > code_start && start + 5 > r.start && wasm[start - 1] & 0x80 != 0 && r.start - (start - 1) <= 5 {
                    start -= 1;
                }
                let mut instrs = vec![];
                if let Ok(mut ops) = b.get_operators_reader() {
                    while !ops.eof() {
                        let pos = ops.original_position();
                        if ops.read().is_err() {
                            break;
                        }
                        instrs.push((pos - code_start) as u64);
                    }
                }
                funcs.push(FuncLayout { entry_start: (start - code_start) as u64, body_start: (r.start - code_start) as u64, end: (r.end - code_start) as u64, instrs });
            }
            Ok(_) => {}
            Err(_) => break,
        }
    }
    funcs
}

/// Offset of the code section's contents (the function count) in the module.
pub fn code_section_start(wasm: &[u8]) -> Option<usize> {
    for p in Parser::new(0).parse_all(wasm) {
        if let Ok(Payload::CodeSectionStart { range, .. }) = p {
            return Some(range.start);
        }
    }
    None
}

pub fn num_imported_funcs(wasm: &[u8]) -> u32 {
    let mut n = 0;
    for p in Parser::new(0).parse_all(wasm) {
        if let Ok(Payload::ImportSection(s)) = p {
            for i in s.into_iter().flatten() {
                if matches!(i.ty, wasmparser::TypeRef::Func(_)) {
                    n += 1;
                }
            }
        }
    }
    n
}

/// Returns the module with DWARF sections appended, or None if it has no code.
pub fn add_dwarf(wasm: &[u8], opts: DwarfOpts) -> Option<Vec<u8>> {
    // a module without local functions still gets a unit (compile unit DIE, empty line program): that is what a
    // C file with only data compiles to
    let funcs = layout(wasm);
    let nimp = num_imported_funcs(wasm);
    let encoding = Encoding { format: Format::Dwarf32, version: opts.version, address_size: 4 };
    let mut dwarf = DwarfUnit::new(encoding);
    let comp_dir = LineString::String(b"/comp".to_vec());
    let comp_name = LineString::String(b"main.c".to_vec());
    let mut lp = LineProgram::new(encoding, LineEncoding::default(), comp_dir, comp_name, None);
    let dir = lp.default_directory();
    let file = lp.add_file(LineString::String(b"f.c".to_vec()), dir, None);
    let mut line = 1u64;
    let base0 = if opts.no_set_address { 0 } else { funcs.first().map(|f| f.body_start).unwrap_or(0) };
    if opts.spanning && !funcs.is_empty() {
        lp.begin_sequence(if opts.no_set_address { None } else { Some(Address::Constant(base0)) });
    }
    for f in &funcs {
        if !opts.spanning {
            lp.begin_sequence(Some(Address::Constant(f.body_start)));
        }
        let base = if opts.spanning { base0 } else { f.body_start };
        for a in &f.instrs {
            lp.row().address_offset = a - base;
            lp.row().file = file;
            lp.row().line = line;
            line += 1;
            lp.generate_row();
        }
        if !opts.spanning {
            lp.end_sequence(f.end - base);
        }
    }
    if opts.spanning && !funcs.is_empty() {
        lp.end_sequence(funcs.last().unwrap().end - base0);
    }
    if opts.tombstoned_seq {
        lp.begin_sequence(Some(Address::Constant(0xFFFF_FFFF)));
        for k in 0..6u64 {
            lp.row().address_offset = k * 2;
            lp.row().file = file;
            lp.row().line = 1_000_000 + k;
            lp.generate_row();
        }
        lp.end_sequence(14);
    }
    dwarf.unit.line_program = lp;
    let root = dwarf.unit.root();
    dwarf.unit.get_mut(root).set(gimli::DW_AT_name, AttributeValue::String(b"main.c".to_vec()));
    dwarf.unit.get_mut(root).set(gimli::DW_AT_low_pc, AttributeValue::Address(Address::Constant(0)));
    for (i, f) in funcs.iter().enumerate() {
        let id = dwarf.unit.add(root, gimli::DW_TAG_subprogram);
        let e = dwarf.unit.get_mut(id);
        e.set(gimli::DW_AT_name, AttributeValue::String(format!("f{}", nimp as usize + i).into_bytes()));
        e.set(gimli::DW_AT_low_pc, AttributeValue::Address(Address::Constant(f.body_start)));
        if opts.high_addr {
            e.set(gimli::DW_AT_high_pc, AttributeValue::Address(Address::Constant(f.end)));
        } else {
            e.set(gimli::DW_AT_high_pc, AttributeValue::Udata(f.end - f.body_start));
        }
        if opts.nested && i % 2 == 0 {
            let p = dwarf.unit.add(id, gimli::DW_TAG_formal_parameter);
            dwarf.unit.get_mut(p).set(gimli::DW_AT_name, AttributeValue::String(format!("p{}", i).into_bytes()));
            let b = dwarf.unit.add(id, gimli::DW_TAG_lexical_block);
            let lo = f.instrs.get(1).or(f.instrs.first()).copied().unwrap_or(f.body_start);
            let e = dwarf.unit.get_mut(b);
            e.set(gimli::DW_AT_low_pc, AttributeValue::Address(Address::Constant(lo)));
            e.set(gimli::DW_AT_high_pc, AttributeValue::Udata(f.end - lo));
            let v = dwarf.unit.add(b, gimli::DW_TAG_variable);
            dwarf.unit.get_mut(v).set(gimli::DW_AT_name, AttributeValue::String(format!("v{}", i).into_bytes()));
            if i % 4 == 0 {
                let v2 = dwarf.unit.add(id, gimli::DW_TAG_variable);
                dwarf.unit.get_mut(v2).set(gimli::DW_AT_name, AttributeValue::String(format!("w{}", i).into_bytes()));
            }
        }
    }
    let mut sections = Sections::new(EndianVec::new(LittleEndian));
    dwarf.write(&mut sections).ok()?;
    let mut out = wasm.to_vec();
    let file0 = opts.file0 && opts.version >= 5;
    sections
        .for_each(|id, data| -> Result<()> {
            if !data.slice().is_empty() {
                let mut bytes = data.slice().to_vec();
                if file0 && id.name() == ".debug_line" {
                    // insert `DW_LNS_set_file 0` (04 00) at the start of the line number program
                    let ul = u32::from_le_bytes(bytes[0..4].try_into().unwrap());
                    let hl = u32::from_le_bytes(bytes[8..12].try_into().unwrap()) as usize;
                    let ps = 12 + hl;
                    bytes.splice(ps..ps, [0x04u8, 0x00]);
                    bytes[0..4].copy_from_slice(&(ul + 2).to_le_bytes());
                }
                crate::mspec::custom_section(&mut out, id.name(), &bytes);
            }
            Ok(())
        })
        .ok()?;
    Some(out)
}

/// `dwarf:<version>:<f|s|z>:<base spec>`
pub fn materialize(spec: &str) -> Option<Vec<u8>> {
    let rest = spec.strip_prefix("dwarf:")?;
    let mut it = rest.splitn(3, ':');
    let version: u16 = it.next()?.parse().ok()?;
    let mode = it.next()?;
    let base = it.next()?;
    let wasm = crate::workload::materialize(base)?;
    add_dwarf(&wasm, DwarfOpts { version, spanning: mode == "s" || mode == "n", file0: mode == "z", high_addr: mode == "a", no_set_address: mode == "n", tombstoned_seq: mode == "t", nested: mode == "k" })
}

//! Operator reflection built on `wasmparser::for_each_operator!`:
//!  * `OPS`           the full list of operators wasmparser 0.214 knows (name, proposal, field names/types)
//!  * `make_op`       construct an `Operator` of a given kind from an immediate provider
//!  * `fields_of`     decompose any `Operator` into (kind index, classified immediates)
//! Shared by generator and oracle; contains no walrus code.

use wasmparser::*;

#[derive(Clone, Debug, PartialEq)]
pub enum Raw {
    U32(u32),
    U8(u8),
    I32(i32),
    I64(i64),
    F32(u32),
    F64(u64),
    V128([u8; 16]),
    Lanes([u8; 16]),
    MemArg { align: u8, offset: u64, memory: u32 },
    Block(BlockType),
    ValType(ValType),
    HeapType(HeapType),
    RefType(RefType),
    BrTable(Vec<u32>, u32),
    Ordering(bool),
    TryTable,
}

/// Immediate provider used to construct operators.
#[derive(Clone, Debug)]
pub struct Imm {
    pub u32s: Vec<(&'static str, u32)>,
    pub default_u32: u32,
    pub lane: u8,
    pub lanes: [u8; 16],
    pub memarg: MemArg,
    pub i32v: i32,
    pub i64v: i64,
    pub f32v: u32,
    pub f64v: u64,
    pub v128: [u8; 16],
    pub blockty: BlockType,
    pub valty: ValType,
    pub hty: HeapType,
    pub targets: Vec<u32>,
    pub default_target: u32,
}

impl Default for Imm {
    fn default() -> Imm {
        Imm {
            u32s: vec![],
            default_u32: 0,
            lane: 0,
            lanes: [0; 16],
            memarg: MemArg { align: 0, max_align: 0, offset: 0, memory: 0 },
            i32v: 7,
            i64v: 7,
            f32v: 1.5f32.to_bits(),
            f64v: 1.5f64.to_bits(),
            v128: [1, 0, 0, 0, 0, 0, 0, 0, 0, 0, 0, 0, 0, 0, 0, 0],
            blockty: BlockType::Empty,
            valty: ValType::I32,
            hty: HeapType::FUNC,
            targets: vec![],
            default_target: 0,
        }
    }
}

impl Imm {
    pub fn u32(&self, name: &str) -> u32 {
        self.u32s.iter().rev().find(|(n, _)| *n == name).map(|(_, v)| *v).unwrap_or(self.default_u32)
    }
    pub fn set(mut self, name: &'static str, v: u32) -> Imm {
        self.u32s.push((name, v));
        self
    }
}

trait FromImm: Sized {
    fn from_imm(imm: &Imm, field: &'static str) -> Self;
    fn tyname() -> &'static str;
}
impl FromImm for u32 {
    fn from_imm(imm: &Imm, field: &'static str) -> u32 { imm.u32(field) }
    fn tyname() -> &'static str { "u32" }
}
impl FromImm for u8 {
    fn from_imm(imm: &Imm, _: &'static str) -> u8 { imm.lane }
    fn tyname() -> &'static str { "u8" }
}
impl FromImm for i32 {
    fn from_imm(imm: &Imm, _: &'static str) -> i32 { imm.i32v }
    fn tyname() -> &'static str { "i32" }
}
impl FromImm for i64 {
    fn from_imm(imm: &Imm, _: &'static str) -> i64 { imm.i64v }
    fn tyname() -> &'static str { "i64" }
}
impl FromImm for Ieee32 {
    fn from_imm(imm: &Imm, _: &'static str) -> Ieee32 { Ieee32::from(f32::from_bits(imm.f32v)) }
    fn tyname() -> &'static str { "f32" }
}
impl FromImm for Ieee64 {
    fn from_imm(imm: &Imm, _: &'static str) -> Ieee64 { Ieee64::from(f64::from_bits(imm.f64v)) }
    fn tyname() -> &'static str { "f64" }
}
impl FromImm for V128 {
    fn from_imm(imm: &Imm, _: &'static str) -> V128 {
        let mut bytes = vec![0xfd, 0x0c];
        bytes.extend_from_slice(&imm.v128);
        let bytes: &'static [u8] = Box::leak(bytes.into_boxed_slice());
        let mut r = BinaryReader::new(bytes, 0, WasmFeatures::all());
        match r.read_operator().unwrap() {
            Operator::V128Const { value } => value,
            _ => unreachable!(),
        }
    }
    fn tyname() -> &'static str { "v128" }
}
impl FromImm for [u8; 16] {
    fn from_imm(imm: &Imm, _: &'static str) -> [u8; 16] { imm.lanes }
    fn tyname() -> &'static str { "lanes" }
}
impl FromImm for MemArg {
    fn from_imm(imm: &Imm, _: &'static str) -> MemArg { imm.memarg }
    fn tyname() -> &'static str { "memarg" }
}
impl FromImm for BlockType {
    fn from_imm(imm: &Imm, _: &'static str) -> BlockType { imm.blockty }
    fn tyname() -> &'static str { "blockty" }
}
impl FromImm for ValType {
    fn from_imm(imm: &Imm, _: &'static str) -> ValType { imm.valty }
    fn tyname() -> &'static str { "valty" }
}
impl FromImm for HeapType {
    fn from_imm(imm: &Imm, _: &'static str) -> HeapType { imm.hty }
    fn tyname() -> &'static str { "hty" }
}
impl FromImm for RefType {
    fn from_imm(_: &Imm, _: &'static str) -> RefType { RefType::FUNCREF }
    fn tyname() -> &'static str { "refty" }
}
impl FromImm for Ordering {
    fn from_imm(_: &Imm, _: &'static str) -> Ordering { Ordering::SeqCst }
    fn tyname() -> &'static str { "ordering" }
}
impl<'a> FromImm for BrTable<'a> {
    fn from_imm(imm: &Imm, _: &'static str) -> BrTable<'a> {
        let mut bytes = vec![0x0e];
        leb_u32(&mut bytes, imm.targets.len() as u32);
        for t in &imm.targets {
            leb_u32(&mut bytes, *t);
        }
        leb_u32(&mut bytes, imm.default_target);
        let bytes: &'static [u8] = Box::leak(bytes.into_boxed_slice());
        let mut r = BinaryReader::new(bytes, 0, WasmFeatures::all());
        match r.read_operator().unwrap() {
            Operator::BrTable { targets } => targets,
            _ => unreachable!(),
        }
    }
    fn tyname() -> &'static str { "brtable" }
}
impl FromImm for TryTable {
    fn from_imm(_: &Imm, _: &'static str) -> TryTable { TryTable { ty: BlockType::Empty, catches: vec![] } }
    fn tyname() -> &'static str { "trytable" }
}

pub fn leb_u32(out: &mut Vec<u8>, mut v: u32) {
    loop {
        let b = (v & 0x7f) as u8;
        v >>= 7;
        if v == 0 {
            out.push(b);
            break;
        }
        out.push(b | 0x80);
    }
}
pub fn leb_u64(out: &mut Vec<u8>, mut v: u64) {
    loop {
        let b = (v & 0x7f) as u8;
        v >>= 7;
        if v == 0 {
            out.push(b);
            break;
        }
        out.push(b | 0x80);
    }
}

trait ToRaw {
    fn to_raw(&self) -> Raw;
}
impl ToRaw for u32 { fn to_raw(&self) -> Raw { Raw::U32(*self) } }
impl ToRaw for u8 { fn to_raw(&self) -> Raw { Raw::U8(*self) } }
impl ToRaw for i32 { fn to_raw(&self) -> Raw { Raw::I32(*self) } }
impl ToRaw for i64 { fn to_raw(&self) -> Raw { Raw::I64(*self) } }
impl ToRaw for Ieee32 { fn to_raw(&self) -> Raw { Raw::F32(self.bits()) } }
impl ToRaw for Ieee64 { fn to_raw(&self) -> Raw { Raw::F64(self.bits()) } }
impl ToRaw for V128 { fn to_raw(&self) -> Raw { Raw::V128(*self.bytes()) } }
impl ToRaw for [u8; 16] { fn to_raw(&self) -> Raw { Raw::Lanes(*self) } }
impl ToRaw for MemArg { fn to_raw(&self) -> Raw { Raw::MemArg { align: self.align, offset: self.offset, memory: self.memory } } }
impl ToRaw for BlockType { fn to_raw(&self) -> Raw { Raw::Block(*self) } }
impl ToRaw for ValType { fn to_raw(&self) -> Raw { Raw::ValType(*self) } }
impl ToRaw for HeapType { fn to_raw(&self) -> Raw { Raw::HeapType(*self) } }
impl ToRaw for RefType { fn to_raw(&self) -> Raw { Raw::RefType(*self) } }
impl ToRaw for Ordering { fn to_raw(&self) -> Raw { Raw::Ordering(matches!(self, Ordering::SeqCst)) } }
impl<'a> ToRaw for BrTable<'a> {
    fn to_raw(&self) -> Raw {
        Raw::BrTable(self.targets().map(|t| t.unwrap_or(u32::MAX)).collect(), self.default())
    }
}
impl ToRaw for TryTable { fn to_raw(&self) -> Raw { Raw::TryTable } }

#[derive(Clone, Debug)]
pub struct OpInfo {
    pub name: &'static str,
    pub proposal: &'static str,
    pub fields: Vec<(&'static str, &'static str)>,
}

macro_rules! define_ops {
    ($( @$proposal:ident $op:ident $({ $($arg:ident: $argty:ty),* })? => $visit:ident)*) => {
        pub fn op_infos_a<'a>() -> Vec<OpInfo> {
            vec![ $( OpInfo { name: stringify!($op), proposal: stringify!($proposal),
                fields: vec![ $($( (stringify!($arg), <$argty as FromImm>::tyname()) ),*)? ] } ),* ]
        }
        #[allow(unused_variables)]
        pub fn make_op<'a>(index: usize, imm: &Imm) -> Operator<'a> {
            let mut i = 0usize;
            $(
                if i == index {
                    return Operator::$op $({ $($arg: <$argty as FromImm>::from_imm(imm, stringify!($arg))),* })?;
                }
                i += 1;
            )*
            let _ = i;
            panic!("operator index out of range")
        }
        /// (operator kind index, immediates by field name)
        pub fn fields_of<'a>(op: &Operator<'a>) -> (usize, Vec<(&'static str, Raw)>) {
            let mut i = 0usize;
            $(
                #[allow(unused_variables)]
                if let Operator::$op $({ $($arg),* })? = op {
                    return (i, vec![ $($( (stringify!($arg), ToRaw::to_raw($arg)) ),*)? ]);
                }
                i += 1;
            )*
            let _ = i;
            unreachable!()
        }
    }
}
for_each_operator!(define_ops);

pub fn op_infos() -> Vec<OpInfo> {
    op_infos_a()
}

pub fn op_index(name: &str) -> Option<usize> {
    thread_local! { static MAP: std::collections::HashMap<&'static str, usize> = op_infos().iter().enumerate().map(|(i, o)| (o.name, i)).collect(); }
    MAP.with(|m| m.get(name).copied())
}

/// What an immediate field denotes. Used by the isomorphism oracle and the census.
#[derive(Clone, Copy, Debug, PartialEq, Eq, Hash, PartialOrd, Ord)]
pub enum RefKind {
    Func,
    Global,
    Table,
    Memory,
    Type,
    Data,
    Elem,
    Local,
    Label,
}

pub fn field_ref_kind(field: &str) -> Option<RefKind> {
    Some(match field {
        "function_index" => RefKind::Func,
        "global_index" => RefKind::Global,
        "table_index" | "table" | "src_table" | "dst_table" => RefKind::Table,
        "mem" | "src_mem" | "dst_mem" => RefKind::Memory,
        "type_index" => RefKind::Type,
        "data_index" => RefKind::Data,
        "elem_index" => RefKind::Elem,
        "local_index" => RefKind::Local,
        "relative_depth" => RefKind::Label,
        _ => return None,
    })
}

//! Corpora read from disk at run time: the repository's own fixtures (so
//! fixture edits are picked up), committed regression inputs and committed
//! real-world modules.

use std::path::{Path, PathBuf};

pub const FIXTURE_ROOT: &str = "/repo/crates/tests/tests";
pub const FIXTURE_DIRS: [&str; 5] = ["round_trip", "valid", "ir", "function_imports", "invalid"];

pub fn verif_root() -> PathBuf {
    std::env::var("VERIF_ROOT").map(PathBuf::from).unwrap_or_else(|_| PathBuf::from("/verif"))
}

fn list(dir: &Path, exts: &[&str]) -> Vec<PathBuf> {
    let mut v: Vec<PathBuf> = match std::fs::read_dir(dir) {
        Ok(rd) => rd
            .filter_map(|e| e.ok().map(|e| e.path()))
            .filter(|p| p.extension().and_then(|e| e.to_str()).map(|e| exts.contains(&e)).unwrap_or(false))
            .collect(),
        Err(_) => vec![],
    };
    v.sort();
    v
}

/// Specs `fixture:<dir>/<file>`.
pub fn fixture_specs(include_invalid: bool) -> Vec<String> {
    let mut out = Vec::new();
    for d in FIXTURE_DIRS {
        if d == "invalid" && !include_invalid {
            continue;
        }
        for p in list(&Path::new(FIXTURE_ROOT).join(d), &["wat", "wast"]) {
            out.push(format!("fixture:{}/{}", d, p.file_name().unwrap().to_string_lossy()));
        }
    }
    out
}

/// Specs `regress:<file>` (committed inputs of every defect found; .wat or .wasm).
pub fn regress_specs() -> Vec<String> {
    list(&verif_root().join("corpus/regress"), &["wat", "wasm"])
        .into_iter()
        .map(|p| format!("regress:{}", p.file_name().unwrap().to_string_lossy()))
        .collect()
}

/// Specs `probe:<file>` (one exemplar per proposal, supported and unsupported).
pub fn probe_specs() -> Vec<String> {
    list(&verif_root().join("corpus/featprobe"), &["wat", "wasm"])
        .into_iter()
        .map(|p| format!("probe:{}", p.file_name().unwrap().to_string_lossy()))
        .collect()
}

/// Specs `gcedge:<file>` (one module per reference-edge kind: the edge is the only path to an entity, next to an unreferenced twin).
pub fn gcedge_specs() -> Vec<String> {
    list(&verif_root().join("corpus/gcedge"), &["wat", "wasm"])
        .into_iter()
        .map(|p| format!("gcedge:{}", p.file_name().unwrap().to_string_lossy()))
        .collect()
}

/// Specs `real:<file>` (committed LLVM-produced modules).
pub fn real_specs() -> Vec<String> {
    list(&verif_root().join("corpus/realworld"), &["wasm"])
        .into_iter()
        .map(|p| format!("real:{}", p.file_name().unwrap().to_string_lossy()))
        .collect()
}

pub fn load_file(p: &Path) -> Option<Vec<u8>> {
    match p.extension().and_then(|e| e.to_str()) {
        Some("wasm") => std::fs::read(p).ok(),
        _ => wat::parse_file(p).ok(),
    }
}

pub fn load_disk(spec: &str) -> Option<Vec<u8>> {
    if let Some(rest) = spec.strip_prefix("fixture:") {
        load_file(&Path::new(FIXTURE_ROOT).join(rest))
    } else if let Some(rest) = spec.strip_prefix("regress:") {
        load_file(&verif_root().join("corpus/regress").join(rest))
    } else if let Some(rest) = spec.strip_prefix("real:") {
        load_file(&verif_root().join("corpus/realworld").join(rest))
    } else if let Some(rest) = spec.strip_prefix("gcedge:") {
        load_file(&verif_root().join("corpus/gcedge").join(rest))
    } else if let Some(rest) = spec.strip_prefix("file:") {
        load_file(Path::new(rest))
    } else {
        None
    }
}

//! Splittable deterministic PRNG (splitmix64 / xorshift*). No global state.

#[derive(Clone, Debug)]
pub struct Rng(u64);

pub fn mix(mut z: u64) -> u64 {
    z = z.wrapping_add(0x9e3779b97f4a7c15);
    z = (z ^ (z >> 30)).wrapping_mul(0xbf58476d1ce4e5b9);
    z = (z ^ (z >> 27)).wrapping_mul(0x94d049bb133111eb);
    z ^ (z >> 31)
}

impl Rng {
    pub fn new(seed: u64) -> Rng {
        Rng(mix(seed ^ 0x5851f42d4c957f2d) | 1)
    }
    /// Derive an independent stream (seed -> shard -> case ...).
    pub fn derive(seed: u64, path: &[u64]) -> Rng {
        let mut s = mix(seed);
        for p in path {
            s = mix(s ^ mix(*p));
        }
        Rng::new(s)
    }
    pub fn split(&mut self) -> Rng {
        Rng::new(self.next())
    }
    pub fn next(&mut self) -> u64 {
        let mut x = self.0;
        x ^= x >> 12;
        x ^= x << 25;
        x ^= x >> 27;
        self.0 = x;
        x.wrapping_mul(0x2545f4914f6cdd1d)
    }
    pub fn below(&mut self, n: u64) -> u64 {
        if n == 0 {
            0
        } else {
            self.next() % n
        }
    }
    pub fn range(&mut self, lo: u64, hi_incl: u64) -> u64 {
        lo + self.below(hi_incl - lo + 1)
    }
    pub fn usize(&mut self, n: usize) -> usize {
        self.below(n as u64) as usize
    }
    pub fn bool(&mut self) -> bool {
        self.next() & 1 == 1
    }
    /// true with probability num/den
    pub fn chance(&mut self, num: u64, den: u64) -> bool {
        self.below(den) < num
    }
    pub fn pick<'a, T>(&mut self, xs: &'a [T]) -> &'a T {
        &xs[self.usize(xs.len())]
    }
    pub fn shuffle<T>(&mut self, xs: &mut [T]) {
        for i in (1..xs.len()).rev() {
            let j = self.usize(i + 1);
            xs.swap(i, j);
        }
    }
    /// "Interesting" 64-bit value: boundaries mixed with random bits.
    pub fn interesting_u64(&mut self) -> u64 {
        const B: [u64; 16] = [
            0, 1, 2, 0x7f, 0x80, 0xff, 0x7fff, 0x8000, 0xffff, 0x7fff_ffff, 0x8000_0000, 0xffff_ffff,
            0x1_0000_0000, 0x7fff_ffff_ffff_ffff, 0x8000_0000_0000_0000, 0xffff_ffff_ffff_ffff,
        ];
        match self.below(4) {
            0 => *self.pick(&B),
            1 => self.pick(&B).wrapping_add(self.below(3)).wrapping_sub(1),
            2 => self.below(256),
            _ => self.next(),
        }
    }
}

pub fn fnv64(data: &[u8]) -> u64 {
    let mut h: u64 = 0xcbf29ce484222325;
    for b in data {
        h ^= *b as u64;
        h = h.wrapping_mul(0x100000001b3);
    }
    h
}

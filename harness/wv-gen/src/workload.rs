//! Workload enumeration: for a property, tier and seed, the ordered list of
//! cases (input spec + scenario). Deterministic; shared by driver and judge.

use crate::corpus;

#[derive(Clone, Debug)]
pub struct CaseDesc {
    /// how to obtain the input bytes (see `materialize`)
    pub spec: String,
    /// scenario name and parameters, e.g. "rt:emit,gc"
    pub scenario: String,
}

#[derive(Clone, Copy, Debug, PartialEq, Eq)]
pub enum Tier {
    Quick,
    Thorough,
}

impl Tier {
    pub fn parse(s: &str) -> Tier {
        if s == "thorough" {
            Tier::Thorough
        } else {
            Tier::Quick
        }
    }
    pub fn name(self) -> &'static str {
        match self {
            Tier::Quick => "quick",
            Tier::Thorough => "thorough",
        }
    }
}

pub fn materialize(spec: &str) -> Option<Vec<u8>> {
    if spec.starts_with("fixture:") || spec.starts_with("regress:") || spec.starts_with("real:") || spec.starts_with("file:") {
        return corpus::load_disk(spec);
    }
    crate::gen::materialize(spec)
}

pub const FEATURE_NAMES: [&str; 12] = ["mutable-global", "sat-float-to-int", "sign-extension", "multi-value", "reference-types", "bulk-memory", "simd", "relaxed-simd", "tail-call", "multi-memory", "memory64", "threads"];

fn disk_corpus(include_invalid: bool) -> Vec<String> {
    let mut v = corpus::regress_specs();
    v.extend(corpus::fixture_specs(include_invalid));
    v.extend(corpus::real_specs());
    v
}

fn with_scenario(specs: Vec<String>, scenario: &str) -> Vec<CaseDesc> {
    specs.into_iter().map(|spec| CaseDesc { spec, scenario: scenario.to_string() }).collect()
}

/// The cases of one property. `seed` perturbs every generated part.
pub fn cases(prop: &str, tier: Tier, seed: u64) -> Vec<CaseDesc> {
    let q = tier == Tier::Quick;
    let mut out = Vec::new();
    let g = |profile: &str, n_quick: u64, n_thorough: u64| -> Vec<String> { crate::gen::gen_specs(profile, seed, if q { n_quick } else { n_thorough }) };
    match prop {
        "C02" => {
            out.extend(with_scenario(disk_corpus(false), "rt:emit,gc"));
            for (p, nq, nt) in [("full", 3000, 150_000), ("mvp", 800, 30_000), ("stable", 800, 30_000), ("gcgraph", 1500, 60_000), ("names", 600, 20_000), ("customs", 600, 20_000)] {
                out.extend(with_scenario(g(p, nq, nt), "rt:emit,gc"));
            }
            // configurations: names/producers off
            out.extend(with_scenario(g("names", 300, 10_000), "rt:emit,gc;cfg=8"));
            out.extend(with_scenario(g("customs", 300, 10_000), "rt:emit,gc;cfg=10"));
            out.extend(with_scenario(g("stable", 300, 10_000), "rt:emit,gc;cfg=58"));
        }
        "C08" => {
            out.extend(with_scenario(disk_corpus(false), "rt:emit,emit2,fix,shift"));
            for (p, nq, nt) in [("full", 1500, 80_000), ("customs", 800, 30_000), ("names", 800, 30_000), ("gcgraph", 500, 20_000)] {
                let specs = g(p, nq, nt);
                for (i, s) in specs.into_iter().enumerate() {
                    out.push(CaseDesc { spec: s, scenario: format!("rt:emit,emit2,fix,shift;shift={}", 1 + (i % 7)) });
                }
            }
        }
        "C12" => {
            out.extend(with_scenario(disk_corpus(false), "rt:emit,emit2,gc"));
            out.extend(with_scenario(g("customs", 4000, 150_000), "rt:emit,emit2,gc"));
        }
        "C20" => {
            out.extend(with_scenario(disk_corpus(false), "rt:emit"));
            for (p, nq, nt) in [("mvp", 1200, 40_000), ("full", 600, 20_000), ("stable", 400, 20_000)] {
                out.extend(with_scenario(g(p, nq, nt), "rt:emit"));
            }
            for (name, _) in FEATURE_NAMES.iter().map(|n| (n, ())) {
                out.extend(with_scenario(g(&format!("feature-{}", name), 250, 8_000), "rt:emit"));
            }
        }
        "C03" => {
            out.extend(with_scenario(disk_corpus(false), "rt:emit"));
            for (p, nq, nt) in [("full", 4000, 200_000), ("mvp", 600, 20_000), ("stable", 600, 20_000)] {
                out.extend(with_scenario(g(p, nq, nt), "rt:emit"));
            }
        }
        "C04" => {
            out.extend(with_scenario(disk_corpus(false), "rt:emit"));
            for (p, nq, nt) in [("full", 2500, 100_000), ("gcgraph", 1500, 60_000), ("mvp", 500, 20_000), ("customs", 500, 20_000)] {
                out.extend(with_scenario(g(p, nq, nt), "rt:emit"));
            }
        }
        "C06" | "C07" => {
            out.extend(with_scenario(disk_corpus(false), "rt:gc,gc2"));
            for (p, nq, nt) in [("gcgraph", 3000, 150_000), ("exec", 800, 30_000), ("full", 500, 20_000)] {
                let specs = g(p, nq, nt);
                for (i, s) in specs.into_iter().enumerate() {
                    // every third case registers custom-section roots through the harness section
                    let scn = if i % 3 == 2 { "rt:gc,gc2,probe,roots" } else { "rt:gc,gc2" };
                    out.push(CaseDesc { spec: s, scenario: scn.to_string() });
                }
            }
        }
        "C01" => {
            out.extend(with_scenario(disk_corpus(false), "rt:emit"));
            for (p, nq, nt) in [("exec", 3000, 120_000), ("execmvp", 600, 20_000), ("gcgraph", 600, 20_000)] {
                out.extend(with_scenario(g(p, nq, nt), "rt:emit"));
            }
        }
        _ => {}
    }
    out
}

//! Workload enumeration: for a property, tier and seed, the ordered list of
//! cases (input spec + scenario). Deterministic; shared by driver and judge.

use crate::corpus;

#[derive(Clone, Debug)]
pub struct CaseDesc {
    /// how to obtain the input bytes (see `materialize`)
    pub spec: String,
    /// scenario name and parameters, e.g. "rt:emit,gc"
    pub scenario: String,
}

#[derive(Clone, Copy, Debug, PartialEq, Eq)]
pub enum Tier {
    Quick,
    Thorough,
}

impl Tier {
    pub fn parse(s: &str) -> Tier {
        if s == "thorough" {
            Tier::Thorough
        } else {
            Tier::Quick
        }
    }
    pub fn name(self) -> &'static str {
        match self {
            Tier::Quick => "quick",
            Tier::Thorough => "thorough",
        }
    }
}

pub fn materialize(spec: &str) -> Option<Vec<u8>> {
    if spec.starts_with("fixture:") || spec.starts_with("regress:") || spec.starts_with("real:") || spec.starts_with("file:") || spec.starts_with("gcedge:") {
        return corpus::load_disk(spec);
    }
    crate::gen::materialize(spec)
}

pub const FEATURE_NAMES: [&str; 12] = ["mutable-global", "sat-float-to-int", "sign-extension", "multi-value", "reference-types", "bulk-memory", "simd", "relaxed-simd", "tail-call", "multi-memory", "memory64", "threads"];

fn disk_corpus(include_invalid: bool) -> Vec<String> {
    let mut v = corpus::regress_specs();
    v.extend(corpus::fixture_specs(include_invalid));
    v.extend(corpus::real_specs());
    // hand-written shapes (segments, globals, ref.func declarations, multi-memory/-table edges)
    v.extend(corpus::gcedge_specs());
    v
}

fn with_scenario(specs: Vec<String>, scenario: &str) -> Vec<CaseDesc> {
    specs.into_iter().map(|spec| CaseDesc { spec, scenario: scenario.to_string() }).collect()
}

/// The cases of one property. `seed` perturbs every generated part.
pub fn cases(prop: &str, tier: Tier, seed: u64) -> Vec<CaseDesc> {
    let q = tier == Tier::Quick;
    let mut out = Vec::new();
    // thorough: the generated part of every workload is 4x the figure given below
    // quick: 3x the figure given below (the whole quick tier stays within about half a minute per property);
    // thorough: 4x
    let g = |profile: &str, n_quick: u64, n_thorough: u64| -> Vec<String> { crate::gen::gen_specs(profile, seed, if q { n_quick * 3 } else { n_thorough * 4 }) };
    match prop {
        "C02" => {
            out.extend(with_scenario(crate::census::op_census_specs(), "rt:emit,gc"));
            out.extend(with_scenario(crate::census::attr_specs(), "rt:emit,gc"));
            out.extend(with_scenario(disk_corpus(false), "rt:emit,gc"));
            for (p, nq, nt) in [("full", 3000, 150_000), ("mvp", 800, 30_000), ("stable", 800, 30_000), ("gcgraph", 1500, 60_000), ("names", 600, 20_000), ("customs", 600, 20_000), ("oddknown", 300, 10_000)] {
                out.extend(with_scenario(g(p, nq, nt), "rt:emit,gc"));
            }
            // generated well-formed edit scripts through the public builder / edit APIs
            for (p, nq, nt) in [("full", 2500, 120_000), ("gcgraph", 1500, 60_000), ("customs", 500, 20_000)] {
                let specs = g(p, nq, nt);
                for (i, s) in specs.into_iter().enumerate() {
                    let cfg = [26u32, 26, 26, 8, 10, 90][i % 6];
                    let first = if i % 3 == 1 { ";gcfirst" } else { "" };
                    out.push(CaseDesc { spec: s, scenario: format!("edit;cfg={};seed={}{}", cfg, seed.wrapping_add(i as u64), first) });
                }
            }
            // configurations: names/producers off
            out.extend(with_scenario(g("names", 300, 10_000), "rt:emit,gc;cfg=8"));
            out.extend(with_scenario(g("customs", 300, 10_000), "rt:emit,gc;cfg=10"));
            out.extend(with_scenario(g("stable", 300, 10_000), "rt:emit,gc;cfg=58"));
        }
        "C05" => {
            // valid corpus (completeness), feature probes, deep nesting, mutations (soundness + totality)
            let mut base: Vec<String> = disk_corpus(true);
            base.extend(corpus::probe_specs());
            // every census module must be accepted (completeness) and is a base for mutation
            base.extend(crate::census::attr_specs());
            base.extend(crate::census::op_census_specs());
            base.extend(corpus::gcedge_specs());
            base.extend(crate::census::leb_specs(false).into_iter().filter(|s| !s.contains(":16384:") && !s.contains(":16383:")));
            for (p, n) in [("full", if q { 1500 } else { 40_000 }), ("mvp", if q { 300 } else { 10_000 }), ("stable", if q { 400 } else { 10_000 }), ("customs", if q { 200 } else { 5_000 }), ("names", if q { 200 } else { 5_000 }), ("oddknown", if q { 300 } else { 8_000 })] {
                base.extend(crate::gen::gen_specs(p, seed, n));
            }
            for fname in FEATURE_NAMES {
                base.extend(crate::gen::gen_specs(&format!("feature-{}", fname), seed, if q { 60 } else { 1500 }));
            }
            out.extend(with_scenario(base.clone(), "gate"));
            for (kind, d) in [("block", 1000), ("block", 100_000), ("loop", 100_000), ("if", 100_000), ("mixed", 100_000), ("blockbr", 50_000)] {
                out.push(CaseDesc { spec: format!("deep:{}:{}", kind, d), scenario: "gate".into() });
            }
            if !q {
                for kind in ["block", "loop", "if", "mixed"] {
                    out.push(CaseDesc { spec: format!("deep:{}:1000000", kind), scenario: "gate".into() });
                }
            }
            let per_base = if q { 6 } else { 24 };
            let mut rng = crate::rng::Rng::derive(seed, &[0xC05]);
            for b in &base {
                for _ in 0..per_base {
                    let k = rng.below(crate::mutate::NUM_MUTATORS);
                    out.push(CaseDesc { spec: format!("mut:{}:{}:{}", rng.below(1 << 30), k, b), scenario: "gate".into() });
                }
            }
            for i in 0..(if q { 2000 } else { 50_000 }) {
                out.push(CaseDesc { spec: format!("rand:{}:{}", seed.wrapping_add(i), i % 64), scenario: "gate".into() });
            }
        }
        "C14" => {
            let mut base: Vec<String> = corpus::regress_specs();
            base.extend(corpus::fixture_specs(true).into_iter().filter(|s| s.contains("name") || s.contains("invalid") || s.contains("import") || s.contains("simd") || s.contains("atomic") || s.contains("mem")));
            base.extend(corpus::probe_specs());
            base.extend(g("customs", 30, 1500));
            base.extend(g("oddknown", 20, 800));
            // inputs with well-formed DWARF: .debug_* must be carried iff generate_dwarf
            for (i, b) in g("tiny", 6, 200).into_iter().enumerate() {
                base.push(format!("dwarf:{}:{}:{}", if i % 2 == 0 { 4 } else { 5 }, ["f", "s", "z"][i % 3], b));
            }
            // DWARF on modules without any local function (data only, imports only)
            for (i, g) in ["active_data_root.wat", "active_data_imported_memory.wat", "global_init_global_get.wat", "elem_funcref_expr_global_get.wat"].iter().enumerate() {
                base.push(format!("dwarf:{}:f:gcedge:{}", 4 + (i % 2), g));
            }
            base.push("dwarf:4:f:leb:2:127:0".to_string());
            base.push("dwarf:5:s:leb:129:60:0".to_string());
            base.extend(g("names", 10, 500));
            base.extend(g("full", 10, 500));
            // invalid inputs: the callback must not run
            let mut rng = crate::rng::Rng::derive(seed, &[0xC14]);
            let valid: Vec<String> = g("customs", 20, 400);
            for b in &valid {
                let k = rng.below(crate::mutate::NUM_MUTATORS);
                base.push(format!("mut:{}:{}:{}", rng.below(1 << 30), k, b));
            }
            out.extend(with_scenario(base, "cfg"));
        }
        "C09" => {
            let mut base: Vec<String> = Vec::new();
            base.extend(g("manyfuncs", 60, 3000));
            base.extend(g("full", 40, 2000));
            for (n, b) in [(64, 60), (127, 127), (128, 128), (500, 129), (2000, 60)] {
                base.push(format!("leb:{}:{}:{}", n, b, seed % 7));
            }
            // hand-written shapes, among them modules without any function body
            base.extend(corpus::gcedge_specs());
            // function entries beyond 32 KiB and 64 KiB (buffer growth and reuse in the per-function work)
            // many functions of exactly the same size
            base.push("lebe:300".to_string());
            base.push("lebb:6:60:70000".to_string());
            base.push("lebb:3:20:40000".to_string());
            if !q {
                // more than 2^16 functions, many of equal size
                base.push("leb:65600:60:2".to_string());
                base.push("lebe:65600".to_string());
                base.push("lebb:24:300:70000".to_string());
                base.push("lebb:2:10:2200000".to_string());
            }
            base.extend(corpus::real_specs());
            base.extend(corpus::fixture_specs(false).into_iter().filter(|s| s.contains("many") || s.contains("fac") || s.contains("call")));
            // invalid bodies at some indices: accept/reject must agree too
            let mut rng = crate::rng::Rng::derive(seed, &[0xC09]);
            let valid = g("manyfuncs", 30, 1500);
            for b in &valid {
                let k = *rng.pick(&[8u64, 15, 9, 7]);
                base.push(format!("mut:{}:{}:{}", rng.below(1 << 30), k, b));
            }
            out.extend(with_scenario(base, "par"));
        }
        "C10" => {
            // cfg 27 = defaults + generate_dwarf (implies the code-transform map)
            let mut bases: Vec<String> = crate::census::leb_specs(!q);
            bases.extend(g("tiny", 40, 500));
            bases.extend(g("full", 30, 500));
            // every operator carries a row once (operator census): a row must not depend on the operator it sits on
            // (no inserted instructions here: the census environment has identical unreferenced helper functions,
            // which the function pairing cannot tell apart once only some of them received a marker)
            for (i, b) in crate::census::op_census_specs().into_iter().enumerate() {
                out.push(CaseDesc { spec: format!("dwarf:{}:{}:{}", 4 + (i % 2), ["f", "s"][i % 2], b), scenario: ["rt:emit;cfg=27", "rt:emit,gc;cfg=27"][i % 2].to_string() });
            }
            bases.push("gcedge:active_data_root.wat".to_string());
            bases.push("gcedge:elem_funcref_expr_global_get.wat".to_string());
            let mut i = 0usize;
            for b in &bases {
                for (ver, mode) in [(4, "f"), (5, "f"), (4, "s"), (5, "s"), (5, "z"), (4, "a"), (5, "a"), (4, "n"), (5, "n"), (4, "t"), (5, "t"), (4, "k"), (5, "k")] {
                    let spec = format!("dwarf:{}:{}:{}", ver, mode, b);
                    let scn = match i % 5 { 0 => "rt:emit;cfg=27", 1 => "rt:emit,gc;cfg=27", 2 => "rt:emit,ins;cfg=27", 3 => "rt:emit,addfn;cfg=27", _ => "rt:emit,reedit;cfg=27" };
                    i += 1;
                    out.push(CaseDesc { spec: spec.clone(), scenario: scn.to_string() });
                    if b.starts_with("leb:") {
                        // census: every scenario on every boundary module
                        for s in ["rt:emit;cfg=27", "rt:emit,gc;cfg=27", "rt:emit,ins;cfg=27", "rt:emit,addfn;cfg=27", "rt:emit,reedit;cfg=27", "rt:emit,ghostimp;cfg=27"] {
                            if s != scn {
                                out.push(CaseDesc { spec: spec.clone(), scenario: s.to_string() });
                            }
                        }
                    }
                }
            }
        }
        "C11" => {
            // cfg 90 = defaults + preserve_code_transform
            out.extend(with_scenario(crate::census::leb_specs(!q), "rt:emit,gc,probe;cfg=90"));
            out.extend(with_scenario(crate::census::leb_specs(false), "rt:emit,probe,ins;cfg=90"));
            out.extend(with_scenario(crate::census::leb_specs(false), "rt:emit,probe,addfn;cfg=90"));
            out.extend(with_scenario(disk_corpus(false), "rt:emit,probe,reseq;cfg=90"));
            // the map has two users when DWARF is rewritten as well (generate_dwarf implies the map): inputs with
            // debug sections, the probe section reading the same transform after the debug emitter
            let mut dw: Vec<String> = crate::census::leb_specs(false);
            dw.extend(g("tiny", 40, 600));
            for (i, b) in dw.iter().enumerate() {
                let spec = format!("dwarf:{}:{}:{}", 4 + (i % 2), ["f", "s", "k"][i % 3], b);
                out.push(CaseDesc { spec, scenario: format!("rt:emit,gc,probe{};cfg={}", if i % 4 == 3 { ",ins" } else { "" }, if i % 2 == 0 { 27 } else { 91 }) });
            }
            out.extend(with_scenario(crate::census::op_census_specs(), "rt:emit,gc,probe;cfg=90"));
            // an imported function without an import entry in the arena, on the LEB-boundary function counts
            out.extend(with_scenario(crate::census::leb_specs(false), "rt:emit,probe,ghostimp;cfg=90"));
            // function entries with three- and four-byte size prefixes: bodies beyond 2^14, 2^20 and 2^21 bytes
            for s in ["lebb:2:6:20000", "lebb:1:4:1100000", "leb:16383:8:1", "leb:16384:8:1", "leb:16385:8:1"] {
                out.push(CaseDesc { spec: s.to_string(), scenario: "rt:emit,gc,probe;cfg=90".to_string() });
            }
            if !q {
                out.push(CaseDesc { spec: "lebb:1:4:2200000".to_string(), scenario: "rt:emit,gc,probe;cfg=90".to_string() });
                out.push(CaseDesc { spec: "lebb:3:4:1048500".to_string(), scenario: "rt:emit,probe,ins;cfg=90".to_string() });
            }
            out.extend(with_scenario(disk_corpus(false), "rt:emit,gc,probe;cfg=90"));
            for (p, nq, nt) in [("full", 1500, 60_000), ("gcgraph", 800, 30_000), ("tiny", 500, 20_000)] {
                let specs = g(p, nq, nt);
                for (i, s) in specs.into_iter().enumerate() {
                    // every fifth case: ids come from an on_instr_loc callback (bit 128) instead of being the offsets
                    let cfgm = if i % 5 == 4 { 90 | 128 } else { 90 };
                    let scn = match i % 4 { 0 => format!("rt:emit,gc,probe;cfg={}", cfgm), 1 => format!("rt:emit,probe,ins{};cfg={}", if i % 8 == 1 { ",reseq" } else { "" }, cfgm), 2 => format!("rt:emit,probe,addfn;cfg={}", cfgm), _ => format!("rt:emit,probe,emptied;cfg={}", cfgm) };
                    out.push(CaseDesc { spec: s, scenario: scn });
                }
            }
        }
        "C15" => {
            for i in 0..(if q { 20_000u64 } else { 600_000 }) {
                out.push(CaseDesc { spec: format!("tree:{}:{}", seed, i), scenario: "build".into() });
            }
        }
        "C18" => {
            out.extend(with_scenario(disk_corpus(false), "replace"));
            for (p, nq, nt) in [("exec", 2500, 100_000), ("gcgraph", 500, 20_000), ("execmvp", 300, 10_000)] {
                out.extend(with_scenario(g(p, nq, nt), "replace"));
            }
        }
        "C16" => {
            out.extend(with_scenario(disk_corpus(false), "visit"));
            for (p, nq, nt) in [("full", 2000, 80_000), ("mvp", 300, 10_000), ("gcgraph", 300, 10_000)] {
                out.extend(with_scenario(g(p, nq, nt), "visit"));
            }
            for (kind, d) in [("block", 10), ("block", 100_000), ("loop", 100_000), ("if", 100_000), ("mixed", 100_000), ("blockbr", 50_000)] {
                out.push(CaseDesc { spec: format!("deep:{}:{}", kind, d), scenario: "visit".into() });
            }
            // nested constructs at positions beyond 2^16 of one flat sequence
            out.push(CaseDesc { spec: "wide:33000".into(), scenario: "visit".into() });
            out.push(CaseDesc { spec: "wide:70000".into(), scenario: "visit".into() });
            if !q {
                out.push(CaseDesc { spec: "deep:mixed:1000000".into(), scenario: "visit".into() });
            }
        }
        "C17" => {
            out.extend(with_scenario(crate::census::hist_exhaustive(if q { 6 } else { 7 }), "hist"));
            out.extend(with_scenario(crate::census::hist_random(seed, if q { 300 } else { 10_000 }, 200), "hist"));
        }
        "C13" => {
            out.extend(with_scenario(disk_corpus(false), "rt:emit,gc,onparse"));
            out.extend(with_scenario(g("names", 4000, 150_000), "rt:emit,gc,onparse"));
            out.extend(with_scenario(g("customs", 500, 20_000), "rt:emit,gc"));
            if !q {
                // function indices beyond 2^16 in the name section
                out.push(CaseDesc { spec: "lebn:65540".to_string(), scenario: "rt:emit,gc".to_string() });
            }
            // imports added through the API in front of named local entities
            out.extend(with_scenario(crate::gen::gen_specs("names", seed ^ 0xadd1, if q { 1200 } else { 40_000 }), "rt:addimp"));
            out.extend(with_scenario(corpus::gcedge_specs(), "rt:addimp"));
            // gc, then an edit that starts using named locals no body mentioned, then emit
            out.extend(with_scenario(crate::gen::gen_specs("names", seed ^ 0x05e1, if q { 900 } else { 30_000 }), "rt:emit,gc,onparse,uselocal"));
            // function replacement (the C18 operations): the original keeps its name, nothing migrates
            out.extend(with_scenario(crate::gen::gen_specs("names", seed ^ 0x4e9, if q { 900 } else { 30_000 }), "replace"));
            // synthetic names switched on: the names the input gives must still win
            out.extend(with_scenario(crate::gen::gen_specs("names", seed ^ 0x5e7, if q { 1500 } else { 60_000 }), "rt:emit,gc;cfg=30"));
            out.extend(with_scenario(disk_corpus(false), "rt:emit,gc;cfg=30"));
        }
        "C19" => {
            out.extend(with_scenario(disk_corpus(false), "rt:emit,gc,probe,onparse"));
            for (p, nq, nt) in [("full", 2500, 100_000), ("gcgraph", 1500, 60_000), ("mvp", 300, 10_000)] {
                out.extend(with_scenario(g(p, nq, nt), "rt:emit,gc,probe,onparse"));
            }
        }
        "C08" => {
            out.extend(with_scenario(disk_corpus(false), "rt:emit,emit2,fix,shift,reedit"));
            // the output of the GC pass must be a fixpoint as well
            out.extend(with_scenario(disk_corpus(false), "rt:emit,fix,gc"));
            out.extend(with_scenario(crate::census::attr_specs(), "rt:emit,fix,gc"));
            out.extend(with_scenario(g("gcgraph", 700, 30_000), "rt:emit,fix,gc"));
            // outputs of edited modules are walrus's own output as well: fixpoint after adding named imports
            out.extend(with_scenario(g("names", 400, 15_000), "rt:addimp"));
            out.extend(with_scenario(g("full", 300, 10_000), "rt:addimp"));
            for (p, nq, nt) in [("full", 1500, 80_000), ("customs", 800, 30_000), ("names", 800, 30_000), ("gcgraph", 500, 20_000), ("oddknown", 500, 20_000)] {
                let specs = g(p, nq, nt);
                for (i, s) in specs.into_iter().enumerate() {
                    out.push(CaseDesc { spec: s, scenario: format!("rt:emit,emit2,fix,shift,reedit;shift={}", 1 + (i % 7)) });
                }
            }
            // with DWARF generation on: the rewritten debug sections are walrus's own output too
            let mut dw: Vec<String> = crate::census::leb_specs(false);
            dw.extend(g("tiny", 30, 400));
            for (i, b) in dw.iter().enumerate() {
                let spec = format!("dwarf:{}:{}:{}", 4 + (i % 2), ["f", "s", "z"][i % 3], b);
                out.push(CaseDesc { spec, scenario: "rt:emit,emit2,fix,reedit;cfg=27".to_string() });
            }
        }
        "C12" => {
            out.extend(with_scenario(disk_corpus(false), "rt:emit,emit2,gc"));
            out.extend(with_scenario(g("customs", 4000, 150_000), "rt:emit,emit2,gc"));
            out.extend(with_scenario(g("oddknown", 500, 20_000), "rt:emit,emit2,gc"));
            // the same with DWARF emission on (the .debug* sections mixed between the unknown ones are then re-emitted)
            out.extend(with_scenario(crate::gen::gen_specs("customs", seed ^ 0xd3b, if q { 2000 } else { 100_000 }), "rt:emit,emit2,gc;cfg=27"));
        }
        "C20" => {
            // every accepted operator alone in an otherwise MVP module, then the full census
            out.extend(with_scenario(crate::census::op_alone_specs(), "rt:emit"));
            out.extend(with_scenario(crate::census::op_census_specs(), "rt:emit"));
            out.extend(with_scenario(crate::census::attr_specs(), "rt:emit"));
            out.extend(with_scenario(disk_corpus(false), "rt:emit"));
            for (p, nq, nt) in [("mvp", 1200, 40_000), ("full", 600, 20_000), ("stable", 400, 20_000)] {
                out.extend(with_scenario(g(p, nq, nt), "rt:emit"));
            }
            for (name, _) in FEATURE_NAMES.iter().map(|n| (n, ())) {
                out.extend(with_scenario(g(&format!("feature-{}", name), 250, 8_000), "rt:emit"));
            }
        }
        "C03" => {
            // operator census first: every accepted operator with boundary immediates
            out.extend(with_scenario(crate::census::op_census_specs(), "rt:emit"));
            out.extend(with_scenario(disk_corpus(false), "rt:emit"));
            for (p, nq, nt) in [("full", 4000, 200_000), ("mvp", 600, 20_000), ("stable", 600, 20_000)] {
                out.extend(with_scenario(g(p, nq, nt), "rt:emit"));
            }
        }
        "C04" => {
            out.extend(with_scenario(crate::census::attr_specs(), "rt:emit"));
            out.extend(with_scenario(disk_corpus(false), "rt:emit"));
            for (p, nq, nt) in [("full", 2500, 100_000), ("gcgraph", 1500, 60_000), ("mvp", 500, 20_000), ("customs", 500, 20_000)] {
                out.extend(with_scenario(g(p, nq, nt), "rt:emit"));
            }
            // "unless a pass was asked to": an edit that adds one import of each kind renumbers every index space
            // and must retarget nothing
            out.extend(with_scenario(crate::census::attr_specs(), "rt:addimp"));
            out.extend(with_scenario(g("full", 800, 30_000), "rt:addimp"));
            out.extend(with_scenario(g("stable", 300, 10_000), "rt:addimp"));
        }
        "C06" | "C07" => {
            // GC-edge census: module-level edges (hand-written), every instruction operand edge as the only
            // path (one census function per module), attribute census
            out.extend(with_scenario(corpus::gcedge_specs(), "rt:gc,gc2"));
            out.extend(with_scenario(crate::census::gcedge_op_specs(), "rt:gc,gc2"));
            out.extend(with_scenario(crate::census::attr_specs(), "rt:gc,gc2"));
            out.extend(with_scenario(disk_corpus(false), "rt:gc,gc2"));
            for (p, nq, nt) in [("gcgraph", 3000, 150_000), ("exec", 800, 30_000), ("full", 500, 20_000)] {
                let specs = g(p, nq, nt);
                for (i, s) in specs.into_iter().enumerate() {
                    // every third case registers custom-section roots through the harness section
                    let scn = if i % 3 == 2 { "rt:gc,gc2,probe,roots" } else { "rt:gc,gc2" };
                    out.push(CaseDesc { spec: s, scenario: scn.to_string() });
                }
            }
            // roots that did not come from the parser: an active data segment, an active element segment,
            // exports and a start function added through the API before the pass runs
            out.extend(with_scenario(corpus::gcedge_specs(), "rt:gc,gc2,addroots"));
            for (p, nq, nt) in [("gcgraph", 800u64, 40_000u64), ("exec", 400, 15_000)] {
                out.extend(with_scenario(crate::gen::gen_specs(p, seed ^ 0xadd2, if q { nq } else { nt }), "rt:gc,gc2,addroots"));
            }
        }
        "C01" => {
            out.extend(with_scenario(crate::census::attr_specs(), "rt:emit"));
            out.extend(with_scenario(corpus::gcedge_specs(), "rt:emit"));
            out.extend(with_scenario(disk_corpus(false), "rt:emit"));
            for (p, nq, nt) in [("exec", 3000, 120_000), ("execmvp", 600, 20_000), ("gcgraph", 600, 20_000)] {
                out.extend(with_scenario(g(p, nq, nt), "rt:emit"));
            }
        }
        _ => {}
    }
    // The properties are not about one configuration: a sample of the generated cases of the round-trip and GC
    // properties is run again under non-default switch combinations (bits: 1 dwarf, 2 names, 4 synthetic names,
    // 8 strict validation, 16 producers, 64 code-transform preservation; only_stable_features stays off because
    // it changes which inputs are accepted).
    if matches!(prop, "C01" | "C03" | "C04" | "C06" | "C07" | "C08" | "C19" | "C20") {
        const MASKS: [u32; 8] = [0, 30, 91, 18, 90, 10, 24, 95];
        let extra: Vec<CaseDesc> = out
            .iter()
            .filter(|c| c.scenario.starts_with("rt:") && !c.scenario.contains("cfg="))
            .enumerate()
            .filter(|(i, _)| i % 6 == 3)
            .map(|(i, c)| CaseDesc { spec: c.spec.clone(), scenario: format!("{};cfg={}", c.scenario, MASKS[(i / 6) % MASKS.len()]) })
            .collect();
        out.extend(extra);
    }
    out
}

//! Workload enumeration: for a property, tier and seed, the ordered list of
//! cases (input spec + scenario). Deterministic; shared by driver and judge.

use crate::corpus;

#[derive(Clone, Debug)]
pub struct CaseDesc {
    /// how to obtain the input bytes (see `materialize`)
    pub spec: String,
    /// scenario name and parameters, e.g. "rt:emit,gc"
    pub scenario: String,
}

#[derive(Clone, Copy, Debug, PartialEq, Eq)]
pub enum Tier {
    Quick,
    Thorough,
}

impl Tier {
    pub fn parse(s: &str) -> Tier {
        if s == "thorough" {
            Tier::Thorough
        } else {
            Tier::Quick
        }
    }
    pub fn name(self) -> &'static str {
        match self {
            Tier::Quick => "quick",
            Tier::Thorough => "thorough",
        }
    }
}

pub fn materialize(spec: &str) -> Option<Vec<u8>> {
    if spec.starts_with("fixture:") || spec.starts_with("regress:") || spec.starts_with("real:") || spec.starts_with("file:") {
        return corpus::load_disk(spec);
    }
    crate::gen::materialize(spec)
}

fn disk_corpus(include_invalid: bool) -> Vec<String> {
    let mut v = corpus::regress_specs();
    v.extend(corpus::fixture_specs(include_invalid));
    v.extend(corpus::real_specs());
    v
}

fn with_scenario(specs: Vec<String>, scenario: &str) -> Vec<CaseDesc> {
    specs.into_iter().map(|spec| CaseDesc { spec, scenario: scenario.to_string() }).collect()
}

/// The cases of one property. `seed` perturbs every generated part.
pub fn cases(prop: &str, tier: Tier, seed: u64) -> Vec<CaseDesc> {
    let q = tier == Tier::Quick;
    let mut out = Vec::new();
    let _ = (q, seed);
    match prop {
        "C02" => {
            out.extend(with_scenario(disk_corpus(false), "rt:emit,gc,cfgs"));
        }
        "C08" => {
            out.extend(with_scenario(disk_corpus(false), "rt:emit,emit2,fix,shift"));
        }
        "C12" => {
            out.extend(with_scenario(disk_corpus(false), "rt:emit,emit2,gc"));
        }
        "C20" | "C03" | "C04" | "C01" => {
            out.extend(with_scenario(disk_corpus(false), "rt:emit"));
        }
        _ => {}
    }
    out
}

//! Typed random module generator. Bodies are generated top-down (`expr(ty)`
//! leaves one value of type `ty`, `stmt` has no net stack effect), so every
//! generated module is valid by construction; the judge still re-checks every
//! input with the reference validator and counts a rejected one as a generator
//! bug (inconclusive), never as a walrus verdict.
//!
//! Generated modules carry unique markers: a distinct i64 constant at the
//! start of every function body, distinct initialisers, limits, payloads,
//! export and debug names, custom-section payloads.

use crate::mspec::*;
use crate::optable::{self, OpClass, OpEntry};
use crate::ops::{self, Imm};
use crate::rng::{fnv64, Rng};
use std::collections::BTreeSet;
use wasmparser::MemArg;

#[derive(Clone, Debug)]
pub struct Feats {
    pub mutable_global: bool,
    pub sat: bool,
    pub signext: bool,
    pub multivalue: bool,
    pub reftypes: bool,
    pub bulk: bool,
    pub simd: bool,
    pub relaxed: bool,
    pub tail: bool,
    pub multimem: bool,
    pub mem64: bool,
    pub threads: bool,
}

impl Feats {
    pub fn all() -> Feats {
        Feats { mutable_global: true, sat: true, signext: true, multivalue: true, reftypes: true, bulk: true, simd: true, relaxed: true, tail: true, multimem: true, mem64: true, threads: true }
    }
    pub fn mvp() -> Feats {
        Feats { mutable_global: false, sat: false, signext: false, multivalue: false, reftypes: false, bulk: false, simd: false, relaxed: false, tail: false, multimem: false, mem64: false, threads: false }
    }
    pub fn stable() -> Feats {
        let mut f = Feats::all();
        f.multimem = false;
        f.mem64 = false;
        f.threads = false;
        f
    }
    pub fn only(name: &str) -> Feats {
        let mut f = Feats::mvp();
        match name {
            "mutable-global" => f.mutable_global = true,
            "sat-float-to-int" => f.sat = true,
            "sign-extension" => f.signext = true,
            "multi-value" => f.multivalue = true,
            "reference-types" => f.reftypes = true,
            "bulk-memory" => f.bulk = true,
            "simd" => f.simd = true,
            "relaxed-simd" => {
                f.simd = true;
                f.relaxed = true
            }
            "tail-call" => f.tail = true,
            "multi-memory" => f.multimem = true,
            "memory64" => f.mem64 = true,
            "threads" => f.threads = true,
            _ => {}
        }
        f
    }
    fn allows(&self, proposal: &str) -> bool {
        match proposal {
            "mvp" => true,
            "sign_extension" => self.signext,
            "saturating_float_to_int" => self.sat,
            "bulk_memory" => self.bulk,
            "threads" => self.threads,
            "simd" => self.simd,
            "relaxed_simd" => self.relaxed,
            "reference_types" => self.reftypes,
            "tail_call" => self.tail,
            _ => false,
        }
    }
}

#[derive(Clone, Debug)]
pub struct GenCfg {
    pub feats: Feats,
    /// terminating by construction and restricted to operators the reference interpreter implements
    pub exec: bool,
    pub max_funcs: usize,
    pub body_budget: i64,
    pub markers: bool,
    pub names: bool,
    pub customs: bool,
    pub producers: bool,
    /// many entities, few roots (GC workloads)
    pub sparse: bool,
    /// export (almost) everything so state is observable by name
    pub export_all: bool,
}

impl GenCfg {
    pub fn profile(name: &str) -> GenCfg {
        let base = GenCfg { feats: Feats::all(), exec: false, max_funcs: 8, body_budget: 40, markers: true, names: false, customs: false, producers: false, sparse: false, export_all: true };
        match name {
            "mvp" => GenCfg { feats: Feats::mvp(), ..base },
            "stable" => GenCfg { feats: Feats::stable(), ..base },
            "full" => GenCfg { max_funcs: 10, body_budget: 60, ..base },
            "exec" => GenCfg { exec: true, feats: Feats { relaxed: false, ..Feats::all() }, ..base },
            "execmvp" => GenCfg { exec: true, feats: Feats::mvp(), ..base },
            "gcgraph" => GenCfg { sparse: true, exec: true, max_funcs: 14, body_budget: 25, export_all: false, feats: Feats { relaxed: false, ..Feats::all() }, ..base },
            "names" => GenCfg { names: true, max_funcs: 8, body_budget: 30, ..base },
            "customs" => GenCfg { customs: true, names: true, producers: true, max_funcs: 4, body_budget: 15, ..base },
            // unknown customs plus hand-placed sections under the interpreted names with unusual payloads
            "oddknown" => GenCfg { customs: true, max_funcs: 3, body_budget: 12, ..base },
            "manyfuncs" => GenCfg { max_funcs: 160, body_budget: 18, ..base },
            "tiny" => GenCfg { max_funcs: 3, body_budget: 12, ..base },
            n if n.starts_with("feature-") => GenCfg { feats: Feats::only(&n[8..]), ..base },
            _ => base,
        }
    }
}

struct Label {
    tys: Vec<VT>,
    is_loop: bool,
}

struct Env {
    types: Vec<(Vec<VT>, Vec<VT>)>,
    func_tys: Vec<u32>,
    num_imported_funcs: u32,
    tables: Vec<TableTy>,
    memories: Vec<Limits>,
    globals: Vec<GlobalTy>,
    imported_globals: u32,
    elems: Vec<VT>,
    ndatas: u32,
    ref_funcs: BTreeSet<u32>,
    uses_data_ops: bool,
}

impl Env {
    fn ty(&mut self, p: &[VT], r: &[VT]) -> u32 {
        if let Some(i) = self.types.iter().position(|(a, b)| a == p && b == r) {
            return i as u32;
        }
        self.types.push((p.to_vec(), r.to_vec()));
        (self.types.len() - 1) as u32
    }
}

fn val_types(f: &Feats) -> Vec<VT> {
    let mut v = vec![VT::I32, VT::I64, VT::F32, VT::F64];
    if f.simd {
        v.push(VT::V128);
    }
    if f.reftypes {
        v.push(VT::FuncRef);
        v.push(VT::ExternRef);
    }
    v
}

pub fn interesting_const(rng: &mut Rng, t: VT, c: &mut Code) {
    match t {
        VT::I32 => {
            c.i32_const(rng.interesting_u64() as u32 as i32);
        }
        VT::I64 => {
            c.i64_const(rng.interesting_u64() as i64);
        }
        VT::F32 => {
            const B: [u32; 12] = [0, 0x8000_0000, 0x3f80_0000, 0xbf80_0000, 0x7f80_0000, 0xff80_0000, 0x7fc0_0000, 0x7fa0_0001, 0xffc1_2345, 0x0000_0001, 0x7f7f_ffff, 0x4f00_0000];
            let v = if rng.chance(1, 2) { *rng.pick(&B) } else { rng.next() as u32 };
            c.f32_const(v);
        }
        VT::F64 => {
            const B: [u64; 10] = [0, 0x8000_0000_0000_0000, 0x3ff0_0000_0000_0000, 0x7ff0_0000_0000_0000, 0xfff0_0000_0000_0000, 0x7ff8_0000_0000_0000, 0x7ff4_0000_0000_0001, 0xfff8_0000_dead_beef, 1, 0x41e0_0000_0000_0000];
            let v = if rng.chance(1, 2) { *rng.pick(&B) } else { rng.next() };
            c.f64_const(v);
        }
        VT::V128 => {
            let mut b = [0u8; 16];
            let a = rng.interesting_u64().to_le_bytes();
            let d = rng.next().to_le_bytes();
            b[..8].copy_from_slice(&a);
            b[8..].copy_from_slice(&d);
            c.v128_const(&b);
        }
        VT::FuncRef | VT::ExternRef => {
            c.ref_null(t);
        }
    }
}

struct BodyGen<'a> {
    env: &'a mut Env,
    rng: Rng,
    cfg: &'a GenCfg,
    locals: Vec<VT>,
    nparams: usize,
    labels: Vec<Label>,
    code: Code,
    budget: i64,
    func_index: u32,
    ret: Vec<VT>,
    plain_by_result: &'a PlainIndex,
    /// loop counters: never written by generated assignments, so loops terminate
    counters: Vec<u32>,
}

/// Index of table operators by result type for the expression generator.
pub struct PlainIndex {
    by_result: Vec<(VT, Vec<&'static OpEntry>)>,
    void_mem: Vec<&'static OpEntry>,
}

impl PlainIndex {
    fn new(cfg: &GenCfg) -> PlainIndex {
        let tab = optable::table();
        let mut by_result: Vec<(VT, Vec<&'static OpEntry>)> = ALL_TYPES.iter().map(|t| (*t, vec![])).collect();
        let mut void_mem = vec![];
        for e in tab.iter() {
            if e.class == OpClass::Special || !cfg.feats.allows(e.info.proposal) {
                continue;
            }
            if e.info.name.ends_with("Const") {
                continue;
            }
            if e.class == OpClass::Mem && e.info.name.contains("Atomic") && !cfg.feats.threads {
                continue;
            }
            if cfg.exec && (e.info.name == "MemoryAtomicWait32" || e.info.name == "MemoryAtomicWait64") {
                // wait on an unshared memory traps, on a shared one with infinite timeout would block: keep rare
                continue;
            }
            if e.info.name == "AtomicFence" {
                void_mem.push(e);
                continue;
            }
            if e.params.iter().chain(e.results.iter()).any(|t| *t == VT::V128) && !cfg.feats.simd {
                continue;
            }
            match e.results.len() {
                0 => void_mem.push(e),
                1 => by_result.iter_mut().find(|(t, _)| *t == e.results[0]).unwrap().1.push(e),
                _ => {}
            }
        }
        PlainIndex { by_result, void_mem }
    }
    fn for_result(&self, t: VT) -> &[&'static OpEntry] {
        &self.by_result.iter().find(|(x, _)| *x == t).unwrap().1
    }
}

impl<'a> BodyGen<'a> {
    fn depth_ok(&self, depth: usize) -> bool {
        depth < 7 && self.budget > 0
    }

    fn new_local(&mut self, t: VT) -> u32 {
        self.locals.push(t);
        (self.locals.len() - 1) as u32
    }

    fn block_type(&mut self, params: &[VT], results: &[VT]) -> BT {
        if params.is_empty() && results.is_empty() {
            if self.cfg.feats.multivalue && self.rng.chance(1, 10) {
                return BT::Type(self.env.ty(&[], &[]));
            }
            return BT::Empty;
        }
        if params.is_empty() && results.len() == 1 {
            if self.cfg.feats.multivalue && self.rng.chance(1, 10) {
                return BT::Type(self.env.ty(&[], results));
            }
            return BT::Val(results[0]);
        }
        BT::Type(self.env.ty(params, results))
    }

    fn locals_of(&self, t: VT) -> Vec<u32> {
        self.locals.iter().enumerate().filter(|(_, x)| **x == t).map(|(i, _)| i as u32).collect()
    }
    fn globals_of(&self, t: VT, need_mut: bool) -> Vec<u32> {
        self.env.globals.iter().enumerate().filter(|(_, g)| g.ty == t && (!need_mut || g.mutable)).map(|(i, _)| i as u32).collect()
    }
    fn tables_of(&self, t: VT) -> Vec<u32> {
        self.env.tables.iter().enumerate().filter(|(_, x)| x.elem == t).map(|(i, _)| i as u32).collect()
    }

    /// address operand for memory `m`: masked into the first page most of the time
    fn addr(&mut self, m: u32, depth: usize) {
        let is64 = self.env.memories[m as usize].is64;
        let t = if is64 { VT::I64 } else { VT::I32 };
        self.expr(t, depth + 1);
        if !self.rng.chance(1, 10) {
            if is64 {
                self.code.i64_const(0xff8).b(0x83); // i64.and
            } else {
                self.code.i32_const(0xff8).b(0x71); // i32.and
            }
        }
    }

    fn small_index(&mut self, is64: bool, depth: usize) {
        let t = if is64 { VT::I64 } else { VT::I32 };
        if self.rng.chance(2, 3) {
            let v = self.rng.below(6) as i32;
            if is64 {
                self.code.i64_const(v as i64);
            } else {
                self.code.i32_const(v);
            }
        } else {
            self.expr(t, depth + 1);
            if is64 {
                self.code.i64_const(7).b(0x83);
            } else {
                self.code.i32_const(7).b(0x71);
            }
        }
    }

    fn memarg_for(&mut self, e: &OpEntry, m: u32) -> MemArg {
        let is64 = self.env.memories[m as usize].is64;
        let align = if e.exact_align { e.max_align } else { self.rng.below(e.max_align as u64 + 1) as u8 };
        let offset = match self.rng.below(10) {
            0 => 0xfff,
            1 => {
                if is64 && !self.cfg.exec {
                    self.rng.interesting_u64()
                } else if !self.cfg.exec {
                    self.rng.interesting_u64() & 0xffff_ffff
                } else {
                    0x10000
                }
            }
            2 | 3 => self.rng.below(64) * 8,
            _ => 0,
        };
        MemArg { align, max_align: e.max_align, offset, memory: m }
    }

    /// Emit a table operator with operands generated for its (possibly memory-dependent) signature.
    fn emit_table_op(&mut self, e: &'static OpEntry, depth: usize) {
        let mut imm = Imm::default();
        if e.class == OpClass::Mem {
            let m = self.rng.below(self.env.memories.len() as u64) as u32;
            // address, then the remaining parameters
            self.addr(m, depth);
            // atomics need natural alignment of the effective address; the mask 0xff8 keeps 8-byte alignment,
            // for 16-byte accesses alignment is only a hint
            let params: Vec<VT> = e.params[1..].to_vec();
            for p in params {
                self.expr(p, depth + 1);
            }
            let mut ma = self.memarg_for(e, m);
            if e.info.name.contains("Atomic") {
                ma.offset &= !0xf;
            }
            imm.memarg = ma;
            if e.lanes > 0 {
                imm.lane = self.rng.below(e.lanes as u64) as u8;
            }
        } else {
            let params = e.params.clone();
            for p in params {
                self.expr(p, depth + 1);
            }
            if e.lanes > 0 {
                imm.lane = self.rng.below(e.lanes as u64) as u8;
            }
            if e.info.fields.iter().any(|f| f.0 == "lanes") {
                for l in imm.lanes.iter_mut() {
                    *l = self.rng.below(32) as u8;
                }
            }
        }
        let op = ops::make_op(e.index, &imm);
        self.code.op(&op);
    }

    fn leaf(&mut self, t: VT) {
        let ls = self.locals_of(t);
        let gs = self.globals_of(t, false);
        match self.rng.below(4) {
            0 if !ls.is_empty() => {
                let l = *self.rng.pick(&ls);
                self.code.local_get(l);
            }
            1 if !gs.is_empty() => {
                let g = *self.rng.pick(&gs);
                self.code.global_get(g);
            }
            2 if t == VT::FuncRef && self.env.func_tys.len() > 0 && self.rng.chance(2, 3) => {
                let f = self.rng.below(self.env.func_tys.len() as u64) as u32;
                self.env.ref_funcs.insert(f);
                self.code.ref_func(f);
            }
            _ => interesting_const(&mut self.rng, t, &mut self.code),
        }
    }

    /// Leaves exactly one value of type `t` on the stack.
    fn expr(&mut self, t: VT, depth: usize) {
        self.budget -= 1;
        if !self.depth_ok(depth) {
            self.leaf(t);
            return;
        }
        let choice = self.rng.below(20);
        match choice {
            0..=7 => {
                // operator from the measured table
                let cands = self.plain_by_result.for_result(t);
                let usable: Vec<&'static OpEntry> = cands.iter().copied().filter(|e| e.class != OpClass::Mem || !self.env.memories.is_empty()).collect();
                if usable.is_empty() {
                    self.leaf(t);
                } else {
                    let e = *self.rng.pick(&usable);
                    self.emit_table_op(e, depth);
                }
            }
            8 if self.rng.chance(1, 4) => {
                // loop with a result (never taken again: the value falls out of its end)
                let bt = self.block_type(&[], &[t]);
                self.code.loop_(&bt);
                self.labels.push(Label { tys: vec![], is_loop: true });
                self.stmts(depth + 1, 1);
                self.expr(t, depth + 1);
                self.labels.pop();
                self.code.end_();
            }
            8 => {
                // block with a result, possibly left early through br / br_if
                let bt = self.block_type(&[], &[t]);
                self.code.block(&bt);
                self.labels.push(Label { tys: vec![t], is_loop: false });
                self.stmts(depth + 1, 2);
                if self.rng.chance(1, 3) {
                    self.expr(t, depth + 1);
                    self.expr(VT::I32, depth + 1);
                    self.code.br_if(0);
                    self.code.drop_();
                }
                self.expr(t, depth + 1);
                self.labels.pop();
                self.code.end_();
            }
            9 => {
                // if/else with a result
                self.expr(VT::I32, depth + 1);
                let bt = self.block_type(&[], &[t]);
                self.code.if_(&bt);
                self.labels.push(Label { tys: vec![t], is_loop: false });
                self.stmts(depth + 1, 1);
                self.expr(t, depth + 1);
                self.code.else_();
                self.expr(t, depth + 1);
                self.labels.pop();
                self.code.end_();
            }
            10 => {
                // call of a function returning exactly [t]
                let me = self.func_index;
                let cands: Vec<u32> = (0..self.env.func_tys.len() as u32)
                    .filter(|f| (*f < self.env.num_imported_funcs || *f > me) && self.env.types[self.env.func_tys[*f as usize] as usize].1 == vec![t])
                    .collect();
                if cands.is_empty() {
                    self.leaf(t);
                } else {
                    let f = *self.rng.pick(&cands);
                    let ps = self.env.types[self.env.func_tys[f as usize] as usize].0.clone();
                    for p in ps {
                        self.expr(p, depth + 1);
                    }
                    self.code.call(f);
                }
            }
            11 => {
                // select
                self.expr(t, depth + 1);
                self.expr(t, depth + 1);
                self.expr(VT::I32, depth + 1);
                if t.is_ref() || (self.cfg.feats.reftypes && self.rng.chance(1, 4)) {
                    self.code.select_t(t);
                } else {
                    self.code.select();
                }
            }
            12 => {
                // local.tee
                let ls: Vec<u32> = self.locals_of(t).into_iter().filter(|l| !self.is_counter(*l)).collect();
                if ls.is_empty() {
                    self.leaf(t);
                } else {
                    let l = *self.rng.pick(&ls);
                    self.expr(t, depth + 1);
                    self.code.local_tee(l);
                }
            }
            13 => {
                // call_indirect with result [t]
                let tabs = self.tables_of(VT::FuncRef);
                let tys: Vec<u32> = (0..self.env.types.len() as u32).filter(|i| self.env.types[*i as usize].1 == vec![t] && self.env.types[*i as usize].0.len() <= 3).collect();
                if tabs.is_empty() || tys.is_empty() || (tabs.iter().all(|x| *x != 0) && !self.cfg.feats.reftypes) {
                    self.leaf(t);
                } else {
                    let tab = if self.cfg.feats.reftypes { *self.rng.pick(&tabs) } else { 0 };
                    let ty = *self.rng.pick(&tys);
                    let ps = self.env.types[ty as usize].0.clone();
                    for p in ps {
                        self.expr(p, depth + 1);
                    }
                    self.small_index(false, depth);
                    self.code.call_indirect(ty, tab);
                }
            }
            14 => {
                // value computed, a statement runs while it sits on the stack
                self.expr(t, depth + 1);
                self.stmt(depth + 1);
            }
            15 if t == VT::I32 || t == VT::I64 => {
                // memory.size / memory.grow / table.size / table.grow / ref.is_null
                let mems: Vec<u32> = (0..self.env.memories.len() as u32).filter(|m| self.env.memories[*m as usize].is64 == (t == VT::I64)).collect();
                let k = self.rng.below(5);
                if k < 2 && !mems.is_empty() {
                    let m = *self.rng.pick(&mems);
                    if k == 0 {
                        self.code.memory_size(m);
                    } else {
                        if t == VT::I64 {
                            self.code.i64_const(self.rng.below(2) as i64);
                        } else {
                            self.code.i32_const(self.rng.below(2) as i32);
                        }
                        self.code.memory_grow(m);
                    }
                } else if t == VT::I32 && self.cfg.feats.reftypes && !self.env.tables.is_empty() {
                    let tb = self.rng.below(self.env.tables.len() as u64) as u32;
                    let et = self.env.tables[tb as usize].elem;
                    match k {
                        2 => {
                            self.code.table_size(tb);
                        }
                        3 => {
                            self.expr(et, depth + 1);
                            self.code.i32_const(self.rng.below(3) as i32);
                            self.code.table_grow(tb);
                        }
                        _ => {
                            self.expr(et, depth + 1);
                            self.code.ref_is_null();
                        }
                    }
                } else {
                    self.leaf(t);
                }
            }
            15 if t.is_ref() => {
                let tabs = self.tables_of(t);
                if tabs.is_empty() {
                    self.leaf(t);
                } else {
                    let tb = *self.rng.pick(&tabs);
                    self.small_index(false, depth);
                    self.code.table_get(tb);
                }
            }
            16 if self.cfg.feats.multivalue => {
                // multi-value block: (param i32) (result t): i32 consumed inside
                let bt = self.block_type(&[VT::I32], &[t]);
                self.expr(VT::I32, depth + 1);
                self.code.block(&bt);
                self.labels.push(Label { tys: vec![t], is_loop: false });
                // stack inside: [i32]
                self.code.drop_();
                self.expr(t, depth + 1);
                self.labels.pop();
                self.code.end_();
            }
            17 if self.cfg.feats.multivalue => {
                // call of a function with several results; keep the one of type t if it is last
                let me = self.func_index;
                let cands: Vec<u32> = (0..self.env.func_tys.len() as u32)
                    .filter(|f| (*f < self.env.num_imported_funcs || *f > me) && {
                        let r = &self.env.types[self.env.func_tys[*f as usize] as usize].1;
                        r.len() >= 2 && r[0] == t
                    })
                    .collect();
                if cands.is_empty() {
                    self.leaf(t);
                } else {
                    let f = *self.rng.pick(&cands);
                    let (ps, rs) = self.env.types[self.env.func_tys[f as usize] as usize].clone();
                    for p in ps {
                        self.expr(p, depth + 1);
                    }
                    self.code.call(f);
                    for _ in 1..rs.len() {
                        self.code.drop_();
                    }
                }
            }
            _ => self.leaf(t),
        }
    }

    fn is_counter(&self, l: u32) -> bool {
        self.counters.contains(&l)
    }

    fn exprs(&mut self, tys: &[VT], depth: usize) {
        for t in tys {
            self.expr(*t, depth);
        }
    }

    fn stmts(&mut self, depth: usize, max: u64) {
        let n = self.rng.below(max + 1);
        for _ in 0..n {
            if self.budget <= 0 {
                break;
            }
            self.stmt(depth);
        }
    }

    /// Dead code that follows an unconditional transfer inside the current block.
    fn junk(&mut self, depth: usize) {
        match self.rng.below(6) {
            0 => {}
            1 => {
                // stack-polymorphic: operands come out of nowhere
                self.code.b(0x6a).drop_(); // i32.add; drop
            }
            2 => {
                self.code.drop_();
            }
            3 => {
                self.code.nop().i32_const(0xdead).drop_();
            }
            4 => {
                // a whole nested construct in dead code
                self.code.block(&BT::Empty).i32_const(1).br_if(0).end_();
            }
            _ => {
                let saved = self.budget;
                self.budget = 6;
                self.stmt(depth + 1);
                self.budget = saved;
            }
        }
    }

    /// No net effect on the operand stack.
    fn stmt(&mut self, depth: usize) {
        self.budget -= 1;
        let vts = val_types(&self.cfg.feats);
        let choice = self.rng.below(24);
        if !self.depth_ok(depth) && choice >= 4 {
            self.code.nop();
            return;
        }
        match choice {
            0 => {
                let t = *self.rng.pick(&vts);
                self.expr(t, depth + 1);
                self.code.drop_();
            }
            1 | 2 => {
                // local.set on a non-parameter or parameter local
                if self.locals.is_empty() {
                    self.code.nop();
                    return;
                }
                let l = self.rng.below(self.locals.len() as u64) as u32;
                if self.is_counter(l) {
                    self.code.nop();
                    return;
                }
                let t = self.locals[l as usize];
                self.expr(t, depth + 1);
                self.code.local_set(l);
            }
            3 => {
                let gs: Vec<u32> = (0..self.env.globals.len() as u32).filter(|g| self.env.globals[*g as usize].mutable).collect();
                if gs.is_empty() {
                    self.code.nop();
                    return;
                }
                let g = *self.rng.pick(&gs);
                let t = self.env.globals[g as usize].ty;
                self.expr(t, depth + 1);
                self.code.global_set(g);
            }
            4 | 5 => {
                // store-like table operator (no result)
                let usable: Vec<&'static OpEntry> = self.plain_by_result.void_mem.iter().copied().filter(|e| e.class != OpClass::Mem || !self.env.memories.is_empty()).collect();
                if usable.is_empty() {
                    self.code.nop();
                } else {
                    let e = *self.rng.pick(&usable);
                    self.emit_table_op(e, depth);
                }
            }
            6 | 7 => {
                // if / else
                self.expr(VT::I32, depth + 1);
                self.code.if_(&BT::Empty);
                self.labels.push(Label { tys: vec![], is_loop: false });
                self.stmts(depth + 1, 3);
                if self.rng.chance(1, 2) {
                    self.code.else_();
                    self.stmts(depth + 1, 2);
                }
                self.labels.pop();
                self.code.end_();
            }
            8 => {
                // block with an early exit
                let bt = self.block_type(&[], &[]);
                self.code.block(&bt);
                self.labels.push(Label { tys: vec![], is_loop: false });
                self.stmts(depth + 1, 2);
                self.expr(VT::I32, depth + 1);
                self.code.br_if(0);
                self.stmts(depth + 1, 2);
                self.labels.pop();
                self.code.end_();
            }
            9 => {
                // counted loop: terminates by construction
                let c = self.new_local(VT::I32);
                self.counters.push(c);
                let n = self.rng.range(1, 5) as i32;
                self.code.i32_const(n).local_set(c);
                self.code.loop_(&BT::Empty);
                self.labels.push(Label { tys: vec![], is_loop: true });
                self.stmts(depth + 1, 3);
                self.code.local_get(c).i32_const(1).b(0x6b).local_tee(c); // i32.sub
                self.code.br_if(0);
                self.labels.pop();
                self.code.end_();
            }
            10 => {
                // terminator followed by dead code, contained in a block that is entered conditionally
                self.expr(VT::I32, depth + 1);
                if self.rng.chance(2, 3) {
                    self.code.b(0x45); // i32.eqz: mostly-false conditions keep more of the program alive
                }
                self.code.if_(&BT::Empty);
                self.labels.push(Label { tys: vec![], is_loop: false });
                // a third of the time the terminator sits directly in the then arm, which then ends in dead code,
                // and a live else arm follows
                let wrap = !self.rng.chance(1, 3);
                if wrap {
                    self.code.block(&BT::Empty);
                    self.labels.push(Label { tys: vec![], is_loop: false });
                }
                self.stmts(depth + 1, 2);
                // choose a branch target that is not a loop
                let targets: Vec<usize> = (0..self.labels.len()).filter(|i| !self.labels[*i].is_loop).collect();
                let k = self.rng.below(6);
                if k <= 2 {
                    let li = *self.rng.pick(&targets);
                    let d = (self.labels.len() - 1 - li) as u32;
                    let tys = self.labels[li].tys.clone();
                    self.exprs(&tys, depth + 1);
                    self.code.br(d);
                } else if k == 3 {
                    // br_table over all labels with the same types as the default
                    let li = *self.rng.pick(&targets);
                    let tys = self.labels[li].tys.clone();
                    let same: Vec<u32> = targets.iter().filter(|i| self.labels[**i].tys == tys).map(|i| (self.labels.len() - 1 - *i) as u32).collect();
                    let n = self.rng.below(5) as usize;
                    let ls: Vec<u32> = (0..n).map(|_| *self.rng.pick(&same)).collect();
                    let d = (self.labels.len() - 1 - li) as u32;
                    self.exprs(&tys, depth + 1);
                    self.expr(VT::I32, depth + 1);
                    self.code.br_table(&ls, d);
                } else if k == 4 {
                    let ret = self.ret.clone();
                    self.exprs(&ret, depth + 1);
                    self.code.return_();
                } else {
                    // guarded so that generated programs rarely die here
                    self.code.unreachable();
                }
                let nj = self.rng.below(3);
                for _ in 0..nj {
                    self.junk(depth);
                }
                if wrap {
                    self.labels.pop();
                    self.code.end_();
                } else if self.rng.chance(2, 3) {
                    self.code.else_();
                    self.stmts(depth + 1, 2);
                }
                self.labels.pop();
                self.code.end_();
            }
            11 => {
                // call with all results dropped
                let me = self.func_index;
                let cands: Vec<u32> = (0..self.env.func_tys.len() as u32).filter(|f| *f < self.env.num_imported_funcs || *f > me).collect();
                if cands.is_empty() {
                    self.code.nop();
                    return;
                }
                let f = *self.rng.pick(&cands);
                let (ps, rs) = self.env.types[self.env.func_tys[f as usize] as usize].clone();
                self.exprs(&ps, depth + 1);
                self.code.call(f);
                for _ in rs {
                    self.code.drop_();
                }
            }
            12 if self.cfg.feats.bulk && !self.env.memories.is_empty() => {
                // memory.fill / memory.copy / memory.init / data.drop
                let m = self.rng.below(self.env.memories.len() as u64) as u32;
                let is64 = self.env.memories[m as usize].is64;
                match self.rng.below(4) {
                    0 => {
                        self.addr(m, depth);
                        self.expr(VT::I32, depth + 1);
                        self.small_index(is64, depth);
                        self.code.memory_fill(m);
                    }
                    1 => {
                        let m2 = if self.cfg.feats.multimem { self.rng.below(self.env.memories.len() as u64) as u32 } else { m };
                        let is64b = self.env.memories[m2 as usize].is64;
                        self.addr(m, depth);
                        self.addr(m2, depth);
                        self.small_index(is64 && is64b, depth);
                        self.code.memory_copy(m, m2);
                    }
                    2 if self.env.ndatas > 0 => {
                        let d = self.rng.below(self.env.ndatas as u64) as u32;
                        self.addr(m, depth);
                        self.small_index(false, depth);
                        self.small_index(false, depth);
                        self.code.memory_init(d, m);
                        self.env.uses_data_ops = true;
                    }
                    _ if self.env.ndatas > 0 => {
                        let d = self.rng.below(self.env.ndatas as u64) as u32;
                        self.code.data_drop(d);
                        self.env.uses_data_ops = true;
                    }
                    _ => {
                        self.code.nop();
                    }
                }
            }
            13 if self.cfg.feats.reftypes && !self.env.tables.is_empty() => {
                let tb = self.rng.below(self.env.tables.len() as u64) as u32;
                let et = self.env.tables[tb as usize].elem;
                match self.rng.below(5) {
                    0 => {
                        self.small_index(false, depth);
                        self.expr(et, depth + 1);
                        self.code.table_set(tb);
                    }
                    1 => {
                        self.small_index(false, depth);
                        self.expr(et, depth + 1);
                        self.small_index(false, depth);
                        self.code.table_fill(tb);
                    }
                    2 if self.cfg.feats.bulk => {
                        let same = self.tables_of(et);
                        let tb2 = *self.rng.pick(&same);
                        self.small_index(false, depth);
                        self.small_index(false, depth);
                        self.small_index(false, depth);
                        self.code.table_copy(tb, tb2);
                    }
                    3 if self.cfg.feats.bulk => {
                        let es: Vec<u32> = (0..self.env.elems.len() as u32).filter(|e| self.env.elems[*e as usize] == et).collect();
                        if es.is_empty() {
                            self.code.nop();
                        } else {
                            let e = *self.rng.pick(&es);
                            self.small_index(false, depth);
                            self.small_index(false, depth);
                            self.small_index(false, depth);
                            self.code.table_init(e, tb);
                        }
                    }
                    _ if self.cfg.feats.bulk && !self.env.elems.is_empty() => {
                        let e = self.rng.below(self.env.elems.len() as u64) as u32;
                        self.code.elem_drop(e);
                    }
                    _ => {
                        self.code.nop();
                    }
                }
            }
            12 if self.cfg.feats.bulk && !self.env.tables.is_empty() && !self.cfg.feats.reftypes => {
                // bulk-memory table ops without reference types: table 0 only
                let es: Vec<u32> = (0..self.env.elems.len() as u32).collect();
                if es.is_empty() {
                    self.code.nop();
                } else {
                    let e = *self.rng.pick(&es);
                    self.small_index(false, depth);
                    self.small_index(false, depth);
                    self.small_index(false, depth);
                    self.code.table_init(e, 0);
                }
            }
            14 if self.cfg.feats.tail => {
                // tail call, guarded by a condition, to a later function with the same results
                let me = self.func_index;
                let ret = self.ret.clone();
                let cands: Vec<u32> = (0..self.env.func_tys.len() as u32)
                    .filter(|f| (*f < self.env.num_imported_funcs || *f > me) && self.env.types[self.env.func_tys[*f as usize] as usize].1 == ret)
                    .collect();
                if cands.is_empty() {
                    self.code.nop();
                    return;
                }
                let f = *self.rng.pick(&cands);
                let ps = self.env.types[self.env.func_tys[f as usize] as usize].0.clone();
                self.expr(VT::I32, depth + 1);
                self.code.if_(&BT::Empty);
                self.labels.push(Label { tys: vec![], is_loop: false });
                self.exprs(&ps, depth + 1);
                if self.rng.chance(1, 4) && !self.tables_of(VT::FuncRef).is_empty() && (self.cfg.feats.reftypes || self.tables_of(VT::FuncRef).contains(&0)) {
                    let tabs = self.tables_of(VT::FuncRef);
                    let tb = if self.cfg.feats.reftypes { *self.rng.pick(&tabs) } else { 0 };
                    let ty = self.env.func_tys[f as usize];
                    self.small_index(false, depth);
                    self.code.return_call_indirect(ty, tb);
                } else {
                    self.code.return_call(f);
                }
                if self.rng.chance(1, 2) {
                    // walrus keeps code after return_call; both sides agree it is dead
                    self.code.i32_const(77).drop_();
                }
                self.labels.pop();
                self.code.end_();
            }
            15 if self.cfg.feats.multivalue && self.rng.chance(1, 4) => {
                // an empty block or loop whose type passes its parameters through: the type index is all it has
                let (t, u) = (*self.rng.pick(&NUM_TYPES), *self.rng.pick(&NUM_TYPES));
                let tys = if self.rng.bool() { vec![t, u] } else { vec![t] };
                let bt = self.block_type(&tys, &tys);
                self.exprs(&tys, depth + 1);
                if self.rng.bool() {
                    self.code.block(&bt);
                } else {
                    self.code.loop_(&bt);
                }
                self.code.end_();
                for _ in &tys {
                    self.code.drop_();
                }
            }
            15 if self.cfg.feats.multivalue => {
                // loop/block with parameters
                let t = *self.rng.pick(&NUM_TYPES);
                let bt = self.block_type(&[t], &[]);
                self.expr(t, depth + 1);
                self.code.block(&bt);
                self.labels.push(Label { tys: vec![], is_loop: false });
                self.code.drop_();
                self.stmts(depth + 1, 2);
                self.labels.pop();
                self.code.end_();
            }
            16 => {
                self.code.nop();
            }
            17 => {
                // br_if out of an enclosing non-loop label carrying its values
                let targets: Vec<usize> = (0..self.labels.len()).filter(|i| !self.labels[*i].is_loop).collect();
                if targets.is_empty() {
                    self.code.nop();
                    return;
                }
                let li = *self.rng.pick(&targets);
                let d = (self.labels.len() - 1 - li) as u32;
                let tys = self.labels[li].tys.clone();
                self.exprs(&tys, depth + 1);
                self.expr(VT::I32, depth + 1);
                self.code.br_if(d);
                for _ in tys {
                    self.code.drop_();
                }
            }
            _ => {
                let t = *self.rng.pick(&vts);
                self.expr(t, depth + 1);
                self.code.drop_();
            }
        }
    }
}

fn unique_name(kind: &str, i: usize, rng: &mut Rng) -> String {
    const ODD: [&str; 6] = ["", " sp ace", "ünï", "a.b$c", "\u{1F980}", "x\"q"];
    if rng.chance(1, 12) {
        format!("{}{}{}", kind, i, rng.pick(&ODD))
    } else {
        format!("{}_{}", kind, i)
    }
}

/// Generate one module.
pub fn generate(cfg: &GenCfg, rng: &mut Rng) -> MSpec {
    let f = &cfg.feats;
    let vts = val_types(f);
    let mut m = MSpec::default();
    // --- types
    m.types.push((vec![], vec![]));
    let ntypes = rng.range(2, 6);
    for _ in 0..ntypes {
        let np = rng.below(4) as usize;
        let nr = if f.multivalue { rng.below(3) as usize } else { rng.below(2) as usize };
        let p: Vec<VT> = (0..np).map(|_| *rng.pick(&vts)).collect();
        let r: Vec<VT> = (0..nr).map(|_| *rng.pick(&vts)).collect();
        if !m.types.contains(&(p.clone(), r.clone())) || rng.chance(1, 6) {
            // occasionally a duplicate type: walrus merges them
            m.types.push((p, r));
        }
    }
    let mut marker: i64 = 0x5157_0000_0000 + ((rng.next() & 0xffff) as i64) * 0x10000;
    let mut next_marker = || {
        marker += 1;
        marker
    };
    // --- imports
    let nif = rng.below(if cfg.sparse { 5 } else { 3 });
    for i in 0..nif {
        let t = rng.below(m.types.len() as u64) as u32;
        // now and then the same (module, field) pair is imported twice (valid; linkers produce it for one symbol
        // used at two signatures or simply twice)
        let field = if i > 0 && rng.chance(1, 4) { format!("fn{}", rng.below(i)) } else { format!("fn{}", i) };
        m.imports.push(Import { module: "env".into(), field, kind: ImportKind::Func(t) });
    }
    let mut n_mem_total = if f.multimem { rng.below(4) } else { rng.below(2) + rng.below(2) }.min(if f.multimem { 3 } else { 1 }) as usize;
    if cfg.exec && n_mem_total == 0 && rng.chance(3, 4) {
        n_mem_total = 1;
    }
    let mut n_tab_total = if f.reftypes { rng.below(4) } else { rng.below(2) } as usize;
    if cfg.sparse {
        n_tab_total += 1;
        if f.multimem {
            n_mem_total += 1;
        }
    }
    let mk_mem = |rng: &mut Rng, i: usize| -> Limits {
        let is64 = f.mem64 && rng.chance(1, 4);
        let shared = f.threads && rng.chance(1, 4);
        let min = 1 + rng.below(2) + i as u64 % 2;
        let max = if is64 && !shared && rng.chance(1, 4) {
            // a maximum beyond 32 bits (pages): legal for 64-bit memories
            Some(0x1_0000_0000 + rng.below(100))
        } else if shared || rng.chance(1, 2) {
            Some(min + rng.below(4) + i as u64)
        } else {
            None
        };
        Limits { min, max, shared, is64 }
    };
    let mk_tab = |rng: &mut Rng, i: usize| -> TableTy {
        let elem = if f.reftypes && rng.chance(1, 3) { VT::ExternRef } else { VT::FuncRef };
        let min = 4 + rng.below(6) + i as u64;
        let max = if rng.chance(1, 2) { Some(min + rng.below(8) + i as u64) } else { None };
        TableTy { elem, lim: Limits::new(min, max) }
    };
    let mut mem_i = 0;
    if n_mem_total > 0 && rng.chance(1, 4) {
        m.imports.push(Import { module: "env".into(), field: "mem".into(), kind: ImportKind::Memory(mk_mem(rng, mem_i)) });
        mem_i += 1;
    }
    let mut tab_i = 0;
    if n_tab_total > 0 && rng.chance(1, 4) {
        m.imports.push(Import { module: "env".into(), field: "tab".into(), kind: ImportKind::Table(mk_tab(rng, tab_i)) });
        tab_i += 1;
    }
    let nig = rng.below(3);
    for i in 0..nig {
        let ty = *rng.pick(&vts);
        let mutable = f.mutable_global && rng.chance(1, 3);
        // the same (module, field) pair may be imported twice, also at another type
        let field = if i > 0 && rng.chance(1, 4) { format!("g{}", rng.below(i)) } else { format!("g{}", i) };
        m.imports.push(Import { module: "env".into(), field, kind: ImportKind::Global(GlobalTy { ty, mutable }) });
    }
    if rng.chance(1, 3) {
        rng.shuffle(&mut m.imports);
    }
    while mem_i < n_mem_total {
        let l = mk_mem(rng, mem_i);
        m.memories.push(l);
        mem_i += 1;
    }
    while tab_i < n_tab_total {
        let t = mk_tab(rng, tab_i);
        m.tables.push(t);
        tab_i += 1;
    }
    // --- local functions: signatures now, bodies later
    let nfuncs = rng.range(1, cfg.max_funcs as u64) as usize;
    for _ in 0..nfuncs {
        let t = rng.below(m.types.len() as u64) as u32;
        m.funcs.push(FuncSpec { ty: t, locals: vec![], code: vec![] });
    }
    let nif = m.num_imported_funcs();
    let total_funcs = nif + nfuncs as u32;
    // --- globals
    let imported_globals: Vec<(u32, GlobalTy)> = m.all_globals().into_iter().enumerate().map(|(i, g)| (i as u32, g)).collect();
    let ng = rng.range(1, if cfg.sparse { 8 } else { 5 });
    let mut ref_funcs: BTreeSet<u32> = BTreeSet::new();
    for _ in 0..ng {
        let ty = *rng.pick(&vts);
        let mutable = rng.chance(1, 2);
        let same: Vec<u32> = imported_globals.iter().filter(|(_, g)| g.ty == ty && !g.mutable).map(|(i, _)| *i).collect();
        let init = if !same.is_empty() && rng.chance(1, 3) {
            CExpr::GlobalGet(*rng.pick(&same))
        } else {
            match ty {
                VT::I32 => CExpr::I32(next_marker() as i32),
                VT::I64 => CExpr::I64(next_marker()),
                VT::F32 => CExpr::F32((next_marker() as u32) | 0x4000_0000 & 0x7f7f_ffff),
                VT::F64 => CExpr::F64((next_marker() as u64) | 0x4000_0000_0000_0000),
                VT::V128 => {
                    // low half: the marker; high half: anything, the sign bit of the whole value set half of the time
                    let mut b = [0u8; 16];
                    b[..8].copy_from_slice(&next_marker().to_le_bytes());
                    b[8..].copy_from_slice(&rng.next().to_le_bytes());
                    if rng.bool() {
                        b[15] |= 0x80;
                    }
                    if rng.chance(1, 4) {
                        b[7] |= 0x80;
                    }
                    CExpr::V128(b)
                }
                VT::FuncRef => {
                    if rng.chance(1, 2) {
                        let fi = rng.below(total_funcs as u64) as u32;
                        ref_funcs.insert(fi);
                        CExpr::RefFunc(fi)
                    } else {
                        CExpr::RefNull(VT::FuncRef)
                    }
                }
                VT::ExternRef => CExpr::RefNull(VT::ExternRef),
            }
        };
        m.globals.push((GlobalTy { ty, mutable }, init));
    }
    // --- element segments (before bodies: table.init/elem.drop refer to them)
    let all_tables = m.all_tables();
    let ne = if all_tables.is_empty() && !f.bulk { 0 } else { rng.below(if cfg.sparse { 6 } else { 4 }) };
    for _ in 0..ne {
        let mode_k = if f.bulk { rng.below(4) } else { 0 };
        let ty;
        let mode = match mode_k {
            0 | 1 if !all_tables.is_empty() => {
                let table = if f.reftypes { rng.below(all_tables.len() as u64) as u32 } else { 0 };
                ty = all_tables[table as usize].elem;
                let off_globals: Vec<u32> = imported_globals.iter().filter(|(_, g)| g.ty == VT::I32 && !g.mutable).map(|(i, _)| *i).collect();
                let offset = if !off_globals.is_empty() && rng.chance(1, 5) && !cfg.exec { CExpr::GlobalGet(*rng.pick(&off_globals)) } else { CExpr::I32(rng.below(3) as i32) };
                ElemMode::Active { table, offset }
            }
            2 | 0 | 1 => {
                ty = if f.reftypes && rng.chance(1, 4) { VT::ExternRef } else { VT::FuncRef };
                if f.bulk {
                    ElemMode::Passive
                } else {
                    continue;
                }
            }
            _ => {
                ty = VT::FuncRef;
                ElemMode::Declared
            }
        };
        let n = rng.below(4) as usize;
        let items = if ty == VT::FuncRef && (!f.reftypes || rng.chance(1, 2)) {
            ElemItems::Funcs((0..n).map(|_| rng.below(total_funcs as u64) as u32).collect())
        } else if !f.reftypes && !f.bulk {
            ElemItems::Funcs((0..n).map(|_| rng.below(total_funcs as u64) as u32).collect())
        } else {
            let same: Vec<u32> = imported_globals.iter().filter(|(_, g)| g.ty == ty && !g.mutable).map(|(i, _)| *i).collect();
            ElemItems::Exprs(
                (0..n)
                    .map(|_| {
                        if !same.is_empty() && rng.chance(1, 3) {
                            CExpr::GlobalGet(*rng.pick(&same))
                        } else if ty == VT::FuncRef && rng.chance(2, 3) {
                            CExpr::RefFunc(rng.below(total_funcs as u64) as u32)
                        } else {
                            CExpr::RefNull(ty)
                        }
                    })
                    .collect(),
            )
        };
        let explicit_table = f.reftypes && rng.chance(1, 4);
        m.elems.push(ElemSpec { mode, ty, items, explicit_table });
    }
    // --- data segments
    let all_mems = m.all_memories();
    let nd = if all_mems.is_empty() && !f.bulk { 0 } else { rng.below(if cfg.sparse { 6 } else { 4 }) };
    for i in 0..nd {
        let n = rng.below(12) as usize;
        let mut bytes: Vec<u8> = next_marker().to_le_bytes()[..n.min(8)].to_vec();
        bytes.push(i as u8);
        // now and then a segment without bytes (it still owns an index, and an active one is still bounds-checked)
        let empty = rng.chance(1, 10);
        if empty {
            bytes.clear();
        }
        let mode = if !all_mems.is_empty() && (!f.bulk || rng.chance(1, 2)) {
            let mem = if f.multimem { rng.below(all_mems.len() as u64) as u32 } else { 0 };
            let is64 = all_mems[mem as usize].is64;
            let off = if empty && rng.bool() { 0 } else { rng.below(200) as i64 * 8 };
            DataMode::Active { mem, offset: if is64 { CExpr::I64(off) } else { CExpr::I32(off as i32) } }
        } else if f.bulk {
            DataMode::Passive
        } else {
            continue;
        };
        m.datas.push(DataSpec { mode, bytes, explicit_mem: f.multimem && rng.chance(1, 4) });
    }
    // overlapping active segments: a later one whose trailing zeros lie on non-zero bytes of an earlier one (the
    // zeros are part of the initialisation)
    if nd > 0 && rng.chance(1, 4) {
        let first = m.datas.iter().find_map(|d| if let DataMode::Active { mem, offset } = &d.mode { Some((*mem, offset.clone())) } else { None });
        if let Some((mem, offset)) = first {
            let (a, b) = match offset {
                CExpr::I64(o) => (CExpr::I64(o + 64), CExpr::I64(o + 66)),
                CExpr::I32(o) => (CExpr::I32(o + 64), CExpr::I32(o + 66)),
                other => (other.clone(), other),
            };
            m.datas.push(DataSpec { mode: DataMode::Active { mem, offset: a }, bytes: vec![0xA1, 0xA2, 0xA3, 0xA4, 0xA5, 0xA6], explicit_mem: false });
            m.datas.push(DataSpec { mode: DataMode::Active { mem, offset: b }, bytes: vec![0xB1, 0, 0], explicit_mem: false });
        }
    }
    // --- bodies
    let mut env = Env {
        types: std::mem::take(&mut m.types),
        func_tys: (0..total_funcs).map(|i| m.func_type_pre(i)).collect(),
        num_imported_funcs: nif,
        tables: all_tables.clone(),
        memories: all_mems.clone(),
        globals: m.all_globals(),
        imported_globals: imported_globals.len() as u32,
        elems: m.elems.iter().map(|e| e.ty).collect(),
        ndatas: m.datas.len() as u32,
        ref_funcs,
        uses_data_ops: false,
    };
    let _ = env.imported_globals;
    let plain = PlainIndex::new(cfg);
    for fi in 0..nfuncs {
        let ty = m.funcs[fi].ty;
        let (params, results) = env.types[ty as usize].clone();
        let mut locals: Vec<VT> = params.clone();
        let nl = rng.below(5);
        for _ in 0..nl {
            locals.push(*rng.pick(&vts));
        }
        let mut g = BodyGen {
            env: &mut env,
            rng: rng.split(),
            cfg,
            locals,
            nparams: params.len(),
            labels: vec![Label { tys: results.clone(), is_loop: false }],
            code: Code::new(),
            budget: cfg.body_budget,
            func_index: nif + fi as u32,
            ret: results.clone(),
            plain_by_result: &plain,
            counters: vec![],
        };
        if cfg.markers {
            let mk = next_marker();
            g.code.i64_const(mk).drop_();
        }
        g.stmts(0, 5);
        let res = results.clone();
        g.exprs(&res, 0);
        let code = g.code.end();
        let all_locals = g.locals.clone();
        let np = g.nparams;
        // group declared locals as they come (adjacent equal types form one group)
        let mut groups: Vec<(u32, VT)> = Vec::new();
        for t in &all_locals[np..] {
            match groups.last_mut() {
                Some((n, lt)) if lt == t && !rng.chance(1, 5) => *n += 1,
                _ => groups.push((1, *t)),
            }
        }
        m.funcs[fi].locals = groups;
        m.funcs[fi].code = code;
    }
    m.types = std::mem::take(&mut env.types);
    // every ref.func target must be declared somewhere outside function bodies
    let mut declared: BTreeSet<u32> = BTreeSet::new();
    for e in &m.elems {
        match &e.items {
            ElemItems::Funcs(fs) => declared.extend(fs.iter().copied()),
            ElemItems::Exprs(es) => {
                for x in es {
                    if let CExpr::RefFunc(fi) = x {
                        declared.insert(*fi);
                    }
                }
            }
        }
    }
    for (_, init) in &m.globals {
        if let CExpr::RefFunc(fi) = init {
            declared.insert(*fi);
        }
    }
    // --- exports
    let mut exported_funcs = BTreeSet::new();
    for fi in 0..total_funcs {
        let p = if cfg.export_all { 5 } else { 1 };
        if rng.chance(p, 6) {
            m.exports.push(Export { name: unique_name("f", fi as usize, rng), kind: ExportKind::Func, index: fi });
            exported_funcs.insert(fi);
            if rng.chance(1, 12) {
                // the same entity exported twice
                m.exports.push(Export { name: format!("alias_f{}", fi), kind: ExportKind::Func, index: fi });
            }
        }
    }
    declared.extend(exported_funcs.iter().copied());
    let missing: Vec<u32> = env.ref_funcs.iter().copied().filter(|x| !declared.contains(x)).collect();
    if !missing.is_empty() {
        if f.bulk && f.reftypes {
            m.elems.push(ElemSpec { mode: ElemMode::Declared, ty: VT::FuncRef, items: ElemItems::Funcs(missing), explicit_table: false });
        } else {
            for fi in missing {
                m.exports.push(Export { name: format!("decl_f{}", fi), kind: ExportKind::Func, index: fi });
            }
        }
    }
    let pe = if cfg.export_all { 4 } else { 1 };
    for (i, g) in m.all_globals().iter().enumerate() {
        if (!g.mutable || f.mutable_global) && rng.chance(pe, 6) {
            m.exports.push(Export { name: unique_name("g", i, rng), kind: ExportKind::Global, index: i as u32 });
            if rng.chance(1, 12) {
                m.exports.push(Export { name: format!("alias_g{}", i), kind: ExportKind::Global, index: i as u32 });
            }
        }
    }
    for i in 0..all_mems.len() {
        if rng.chance(pe, 5) {
            m.exports.push(Export { name: unique_name("m", i, rng), kind: ExportKind::Memory, index: i as u32 });
            if rng.chance(1, 12) {
                m.exports.push(Export { name: format!("alias_m{}", i), kind: ExportKind::Memory, index: i as u32 });
            }
        }
    }
    for i in 0..all_tables.len() {
        if rng.chance(pe, 5) {
            m.exports.push(Export { name: unique_name("t", i, rng), kind: ExportKind::Table, index: i as u32 });
            if rng.chance(1, 12) {
                m.exports.push(Export { name: format!("alias_t{}", i), kind: ExportKind::Table, index: i as u32 });
            }
        }
    }
    if rng.chance(1, 3) {
        rng.shuffle(&mut m.exports);
    }
    // --- start
    let starts: Vec<u32> = (0..total_funcs).filter(|i| m.types[m.func_type(*i) as usize] == (vec![], vec![])).collect();
    if !starts.is_empty() && rng.chance(1, 4) {
        m.start = Some(*rng.pick(&starts));
    }
    // --- data count: required when bulk data instructions are used, optional otherwise
    m.data_count = if env.uses_data_ops || m.datas.iter().any(|d| matches!(d.mode, DataMode::Passive)) {
        Some(true)
    } else if f.bulk && !m.datas.is_empty() && rng.chance(1, 3) {
        Some(true)
    } else {
        Some(false)
    };
    if rng.chance(1, 10) {
        m.pad_leb = rng.range(2, 5) as u8;
    }
    if cfg.names {
        m.names = Some(gen_names(&m, rng));
    }
    if cfg.producers {
        m.producers = Some(gen_producers(rng));
    }
    if cfg.customs && cfg.producers && rng.chance(1, 5) {
        // a second producers section (the convention allows one; walrus reads the fields of both)
        let second = vec![("language".to_string(), vec![("Zig".to_string(), "0.11".to_string())]), ("sdk".to_string(), vec![("wasi-sdk".to_string(), "20".to_string())])];
        m.customs.push(CustomSpec { name: "producers".into(), data: crate::mspec::encode_producers(&second), before: if rng.bool() { 255 } else { 11 }, name_len_pad: 0 });
    }
    if cfg.customs {
        gen_customs(&mut m, rng);
        if !cfg.names && !cfg.producers {
            gen_odd_known_customs(&mut m, rng);
        }
    }
    m
}

/// Sections under the names walrus interprets whose payload is unusual: still a valid module (the content of
/// custom sections is not subject to validation); walrus documents that it warns and carries on.
pub fn gen_odd_known_customs(m: &mut MSpec, rng: &mut Rng) {
    let places = [0u8, 1, 5, 10, 11, 12, 254, 255];
    let junk = |rng: &mut Rng, n: u64| -> Vec<u8> { (0..rng.below(n)).map(|_| rng.next() as u8).collect() };
    if rng.chance(2, 3) {
        let data = match rng.below(9) {
            7 | 8 => {
                // well-formed leading fields, then a broken one: cut off in the middle, or more fields announced
                // than there are
                let mut fields = vec![("language".to_string(), vec![("Rust".to_string(), format!("1.{}.0", rng.range(30, 90)))])];
                fields.extend(gen_producers(rng));
                fields.push(("sdk".to_string(), vec![("emsdk".to_string(), "3.1".to_string()), ("wasi-sdk".to_string(), "20".to_string())]));
                let mut d = crate::mspec::encode_producers(&fields);
                if rng.bool() {
                    let first_len = crate::mspec::encode_producers(&fields[..1]).len();
                    let cut = first_len + 1 + rng.usize(d.len() - first_len - 1);
                    d.truncate(cut);
                } else {
                    d[0] += 1 + rng.below(3) as u8;
                }
                d
            }
            0 => vec![],                                    // no field count at all
            1 => vec![0x80],                                // field count cut off inside its LEB
            2 => vec![0x05],                                // five fields announced, none follows
            3 => vec![0x00],                                // zero fields
            4 => vec![0x01, 0x08, b'l', b'a', b'n', b'g', b'u', b'a', b'g', b'e', 0x01, 0x01, b'C'], // value without version
            5 => vec![0x01, 0x03, b'f', b'o', b'o', 0x00],  // unknown field name
            _ => junk(rng, 24),
        };
        m.customs.push(CustomSpec { name: "producers".into(), data, before: *rng.pick(&places), name_len_pad: 0 });
    }
    if rng.chance(2, 3) {
        let data = match rng.below(7) {
            0 => vec![],
            1 => vec![0x01],                                // subsection id without a size
            2 => vec![0x01, 0x80],                          // size cut off
            3 => vec![0x00, 0x05, b'a'],                    // size past the end
            4 => vec![0x01, 0x03, 0x01, 0x63, 0x00],        // function index 99 named ""
            5 => vec![0x02, 0x04, 0x01, 0x63, 0x01, 0x00],  // locals of function 99: cut off
            _ => junk(rng, 24),
        };
        m.customs.push(CustomSpec { name: "name".into(), data, before: *rng.pick(&places), name_len_pad: 0 });
    }
    if rng.chance(1, 4) {
        // two well-formed name sections (module-name subsection only)
        for k in [b'1', b'2'] {
            m.customs.push(CustomSpec { name: "name".into(), data: vec![0x00, 0x03, 0x02, b'm', k], before: *rng.pick(&places), name_len_pad: 0 });
        }
    }
    if rng.chance(1, 3) {
        m.customs.push(CustomSpec { name: "target_features".into(), data: junk(rng, 12), before: *rng.pick(&places), name_len_pad: 0 });
    }
}

impl MSpec {
    fn func_type_pre(&self, f: u32) -> u32 {
        self.func_type(f)
    }
}

pub fn gen_names(m: &MSpec, rng: &mut Rng) -> NameSpec {
    let mut n = NameSpec::default();
    let p = rng.range(2, 6); // partial name sections: each entity named with probability p/6
    if rng.chance(2, 3) {
        n.module = Some(format!("mod_{}", rng.below(1000)));
    }
    let nf = m.num_funcs();
    for i in 0..nf {
        if rng.chance(p, 6) {
            n.funcs.push((i, format!("$fn_{}_{}", i, rng.below(100))));
        }
    }
    let nif = m.num_imported_funcs();
    for (k, f) in m.funcs.iter().enumerate() {
        let fi = nif + k as u32;
        let np = m.types[f.ty as usize].0.len() as u32;
        let nl: u32 = f.locals.iter().map(|g| g.0).sum();
        let mut v = Vec::new();
        for li in 0..(np + nl) {
            if rng.chance(p, 6) {
                v.push((li, format!("$l_{}_{}", fi, li)));
            }
        }
        if rng.chance(1, 5) {
            // a stale entry (local index that does not exist), as some toolchains leave behind: it names nothing
            // and must not cost any other name
            let at = rng.usize(v.len() + 1);
            v.insert(at, (np + nl + 3 + rng.below(4) as u32, format!("$stale_{}", fi)));
        }
        if rng.chance(1, 12) && np + nl > 0 {
            // the style of old wat2wasm output: an entry for every local, all names empty
            v = (0..(np + nl)).map(|li| (li, String::new())).collect();
        }
        if rng.chance(1, 8) && np + nl > 1 {
            // the style of wat2wasm output for partly named functions: an entry for every local, the unnamed
            // ones with an empty name, in front of and between the named ones
            let named: std::collections::HashMap<u32, String> = v.iter().cloned().collect();
            v = (0..(np + nl)).map(|li| (li, named.get(&li).cloned().unwrap_or_default())).collect();
            if v.iter().all(|(_, s)| s.is_empty()) {
                let last = v.len() - 1;
                v[last].1 = format!("$l_{}_{}", fi, last);
            }
        }
        if !v.is_empty() {
            n.locals.push((fi, v));
        }
        if rng.chance(1, 8) {
            n.labels.push((fi, vec![(0, format!("$lab_{}", fi))]));
        }
    }
    for i in 0..m.types.len() as u32 {
        if rng.chance(p, 6) {
            n.types.push((i, format!("$ty_{}", i)));
        }
    }
    for i in 0..m.all_tables().len() as u32 {
        if rng.chance(p, 6) {
            n.tables.push((i, format!("$tab_{}", i)));
        }
    }
    for i in 0..m.all_memories().len() as u32 {
        if rng.chance(p, 6) {
            n.memories.push((i, format!("$mem_{}", i)));
        }
    }
    for i in 0..m.all_globals().len() as u32 {
        if rng.chance(p, 6) {
            n.globals.push((i, format!("$glob_{}", i)));
        }
    }
    for i in 0..m.elems.len() as u32 {
        if rng.chance(p, 6) {
            n.elems.push((i, format!("$elem_{}", i)));
        }
    }
    for i in 0..m.datas.len() as u32 {
        if rng.chance(p, 6) {
            n.datas.push((i, format!("$data_{}", i)));
        }
    }
    // now and then the section names entities of one kind only (a name section with a single subsection)
    if rng.chance(1, 6) {
        let keep = rng.below(9);
        let mut only = NameSpec::default();
        match keep {
            0 => only.module = n.module.clone().or(Some("only_module".to_string())),
            1 => only.funcs = n.funcs.clone(),
            2 => only.locals = n.locals.clone(),
            3 => only.types = n.types.clone(),
            4 => only.tables = (0..m.all_tables().len() as u32).map(|i| (i, format!("$tab_{}", i))).collect(),
            5 => only.memories = (0..m.all_memories().len() as u32).map(|i| (i, format!("$mem_{}", i))).collect(),
            6 => only.globals = (0..m.all_globals().len() as u32).map(|i| (i, format!("$glob_{}", i))).collect(),
            7 => only.elems = (0..m.elems.len() as u32).map(|i| (i, format!("$elem_{}", i))).collect(),
            _ => only.datas = (0..m.datas.len() as u32).map(|i| (i, format!("$data_{}", i))).collect(),
        }
        return only;
    }
    // stale entries of every other kind (an index past the last entity): each names nothing and must not cost
    // any other name; subsections walrus does not interpret
    if rng.chance(1, 3) {
        let counts = [nf, m.types.len() as u32, m.all_tables().len() as u32, m.all_memories().len() as u32, m.all_globals().len() as u32, m.elems.len() as u32, m.datas.len() as u32];
        for (k, map) in [&mut n.funcs, &mut n.types, &mut n.tables, &mut n.memories, &mut n.globals, &mut n.elems, &mut n.datas].into_iter().enumerate() {
            if rng.chance(1, 3) {
                let at = rng.usize(map.len() + 1);
                map.insert(at, (counts[k] + 1 + rng.below(5) as u32, format!("$stale_kind{}", k)));
            }
        }
        if rng.chance(1, 3) {
            n.fields.push((0, vec![(0, "$field".to_string())]));
        }
        if rng.chance(1, 3) {
            n.tags.push((0, "$tag".to_string()));
        }
        if rng.chance(1, 3) {
            n.unknown = Some((rng.range(12, 100) as u8, (0..rng.below(6)).map(|_| rng.next() as u8).collect()));
        }
    }
    n
}

pub fn gen_producers(rng: &mut Rng) -> Vec<(String, Vec<(String, String)>)> {
    let mut out = Vec::new();
    if rng.chance(2, 3) {
        out.push(("language".to_string(), vec![("Rust".to_string(), format!("20{}", rng.range(15, 24)))]));
    }
    let mut tools = vec![];
    if rng.chance(1, 2) {
        tools.push(("rustc".to_string(), format!("1.{}.0", rng.range(30, 90))));
    }
    if rng.chance(1, 3) {
        // input already processed by (an older) walrus
        tools.push(("walrus".to_string(), format!("0.{}.0", rng.range(1, 22))));
    }
    if rng.chance(1, 3) {
        tools.push(("wasm-bindgen".to_string(), "0.2.92".to_string()));
    }
    // shapes the reference decoder accepts although no tool chain writes them on purpose: the same tool
    // twice in one field (a linker run after two compiler versions), the same field name twice, an empty field
    let odd = rng.chance(1, 3);
    if odd && rng.chance(1, 2) {
        tools.push(("clang".to_string(), "15.0.7".to_string()));
        tools.push(("wasm-ld".to_string(), "16.0.0".to_string()));
        tools.push(("clang".to_string(), "16.0.0".to_string()));
    }
    if !tools.is_empty() {
        if !odd {
            rng.shuffle(&mut tools);
        }
        out.push(("processed-by".to_string(), tools));
    }
    if rng.chance(1, 3) {
        out.push(("sdk".to_string(), vec![("emscripten".to_string(), "3.1.0".to_string())]));
    }
    if odd && rng.chance(1, 2) {
        out.push(("processed-by".to_string(), vec![("wasm-opt".to_string(), "116".to_string())]));
    }
    if odd && rng.chance(1, 3) {
        out.push(("language".to_string(), vec![("C".to_string(), "11".to_string()), ("C".to_string(), "17".to_string())]));
    }
    if odd && rng.chance(1, 3) {
        out.push(("sdk".to_string(), vec![]));
    }
    out
}

pub fn gen_customs(m: &mut MSpec, rng: &mut Rng) {
    const NAMES: [&str; 20] = [
        "zzz", "aaa", "", "names", ".debu", "producers2", "target_features", "linking", "reloc.CODE", "dylink.0", "sourceMappingURL", "üñí", "name ", "debug_info",
        // near misses of the interpreted names: prefix/suffix/infix, case
        "reloc..debug_line", "app.debug", "x.debug_info", ".Debug_info", "Name", "my.producers",
    ];
    // sections walrus does interpret (.debug*), mixed between the unknown ones in a third of the modules:
    // their content never reaches gimli's unit parser (.debug_info stays empty)
    const DEBUG_NAMES: [&str; 4] = [".debug_str", ".debug_abbrev", ".debug_foo", ".debug_info"];
    let mix_debug = rng.chance(1, 3);
    let n = rng.below(7) + if mix_debug { 2 } else { 0 };
    let places = [0u8, 1, 2, 3, 4, 5, 6, 7, 8, 9, 10, 11, 12, 254, 255];
    for i in 0..n {
        if mix_debug && rng.chance(1, 3) {
            let name = rng.pick(&DEBUG_NAMES).to_string();
            let data: Vec<u8> = if name == ".debug_info" { vec![] } else { (0..rng.below(12)).map(|_| rng.next() as u8).collect() };
            m.customs.push(CustomSpec { name, data, before: *rng.pick(&places), name_len_pad: 0 });
            continue;
        }
        let mut name = if rng.chance(1, 6) && i > 0 { m.customs[rng.below(m.customs.len() as u64) as usize].name.clone() } else { rng.pick(&NAMES).to_string() };
        if name.starts_with(".debug") {
            // the payload below is junk: never under an interpreted name
            name = "zzz".to_string();
        }
        let len = rng.below(40) as usize;
        let tag = fnv64(&[i as u8, rng.next() as u8, rng.next() as u8, rng.next() as u8]);
        let mut data: Vec<u8> = tag.to_le_bytes().to_vec();
        data.extend((0..len).map(|_| rng.next() as u8));
        if rng.chance(1, 8) {
            data.clear();
        }
        // names whose length needs two or three LEB bytes, and short names with a padded length
        let name = if rng.chance(1, 12) { format!("{}{}", name, "x".repeat(if rng.chance(1, 6) { 16384 + rng.below(40) as usize } else { 120 + rng.below(20) as usize })) } else { name };
        let name_len_pad = if rng.chance(1, 10) { 1 + rng.below(3) as u8 } else { 0 };
        m.customs.push(CustomSpec { name, data, before: *rng.pick(&places), name_len_pad });
    }
}

fn profile_hash(p: &str) -> u64 {
    fnv64(p.as_bytes())
}

/// `gen:<profile>:<seed>:<index>`; `census:*`, `mut:*` etc. are dispatched from here too.
pub fn materialize(spec: &str) -> Option<Vec<u8>> {
    let parts: Vec<&str> = spec.splitn(4, ':').collect();
    match parts.as_slice() {
        ["gen", profile, seed, idx] => {
            let seed: u64 = seed.parse().ok()?;
            let idx: u64 = idx.parse().ok()?;
            let cfg = GenCfg::profile(profile);
            let mut rng = Rng::derive(seed, &[profile_hash(profile), idx]);
            Some(generate(&cfg, &mut rng).encode())
        }
        _ => crate::census::materialize(spec),
    }
}

pub fn gen_specs(profile: &str, seed: u64, n: u64) -> Vec<String> {
    (0..n).map(|i| format!("gen:{}:{}:{}", profile, seed, i)).collect()
}

//! Generated inputs (filled in by the generator modules).

pub fn materialize(_spec: &str) -> Option<Vec<u8>> {
    None
}

//! Hostile inputs for the parse gate: structure-aware and byte-level
//! mutations of valid modules, truncations, deep nesting.

use crate::mspec::*;
use crate::ops::leb_u32;
use crate::rng::Rng;

#[derive(Clone, Debug)]
pub struct Sec {
    pub id: u8,
    /// offset of the id byte
    pub start: usize,
    /// offset of the first payload byte
    pub payload: usize,
    /// one past the last payload byte
    pub end: usize,
}

fn read_leb(b: &[u8], mut p: usize) -> Option<(u64, usize)> {
    let mut v = 0u64;
    let mut shift = 0;
    loop {
        let x = *b.get(p)?;
        p += 1;
        v |= ((x & 0x7f) as u64) << shift;
        if x & 0x80 == 0 {
            return Some((v, p));
        }
        shift += 7;
        if shift > 35 {
            return None;
        }
    }
}

pub fn sections(b: &[u8]) -> Vec<Sec> {
    let mut out = Vec::new();
    let mut p = 8;
    while p < b.len() {
        let id = b[p];
        let (size, q) = match read_leb(b, p + 1) {
            Some(x) => x,
            None => break,
        };
        let end = q + size as usize;
        if end > b.len() {
            break;
        }
        out.push(Sec { id, start: p, payload: q, end });
        p = end;
    }
    out
}

fn rebuild(b: &[u8], secs: &[(u8, Vec<u8>)]) -> Vec<u8> {
    let mut out = b[..8.min(b.len())].to_vec();
    for (id, payload) in secs {
        section(&mut out, *id, payload, 0);
    }
    out
}

fn split(b: &[u8]) -> Vec<(u8, Vec<u8>)> {
    sections(b).iter().map(|s| (s.id, b[s.payload..s.end].to_vec())).collect()
}

/// Code bodies of the code section: (offset of size LEB, body start, body end), relative to the payload.
fn code_bodies(payload: &[u8]) -> Vec<(usize, usize, usize)> {
    let mut out = Vec::new();
    let (n, mut p) = match read_leb(payload, 0) {
        Some(x) => x,
        None => return out,
    };
    for _ in 0..n {
        let (size, q) = match read_leb(payload, p) {
            Some(x) => x,
            None => break,
        };
        let end = q + size as usize;
        if end > payload.len() {
            break;
        }
        out.push((p, q, end));
        p = end;
    }
    out
}

pub const NUM_MUTATORS: u64 = 20;

pub fn mutator_name(k: u64) -> &'static str {
    [
        "truncate-at-section", "truncate-random", "delete-section", "duplicate-section", "swap-sections", "section-size", "vector-count", "byte-flips",
        "code-byte", "insert-after-function-end", "type-byte", "unknown-section", "header", "splice-payload", "append-garbage", "insert-in-body",
        "non-minimal-leb-in-body", "memarg-explicit-memory-index", "memarg-long-offset-leb", "extra-local-group",
    ][(k % NUM_MUTATORS) as usize]
}

/// Apply mutator `k` to `b`. Always returns something (possibly unchanged when not applicable).
pub fn mutate(b: &[u8], k: u64, rng: &mut Rng) -> Vec<u8> {
    if b.len() < 8 {
        return b.to_vec();
    }
    let secs = sections(b);
    match k % NUM_MUTATORS {
        0 => {
            if secs.is_empty() {
                return b[..8].to_vec();
            }
            let s = rng.pick(&secs);
            let cut = *rng.pick(&[s.start, s.start + 1, s.payload, s.end.saturating_sub(1)]);
            b[..cut.min(b.len())].to_vec()
        }
        1 => b[..rng.usize(b.len())].to_vec(),
        2 => {
            let mut v = split(b);
            if !v.is_empty() {
                let i = rng.usize(v.len());
                v.remove(i);
            }
            rebuild(b, &v)
        }
        3 => {
            let mut v = split(b);
            if !v.is_empty() {
                let i = rng.usize(v.len());
                let s = v[i].clone();
                let at = rng.usize(v.len() + 1);
                v.insert(at, s);
            }
            rebuild(b, &v)
        }
        4 => {
            let mut v = split(b);
            if v.len() >= 2 {
                let i = rng.usize(v.len());
                let j = rng.usize(v.len());
                v.swap(i, j);
            }
            rebuild(b, &v)
        }
        5 => {
            // wrong section size
            if secs.is_empty() {
                return b.to_vec();
            }
            let s = rng.pick(&secs).clone();
            let size = (s.end - s.payload) as u32;
            let newsize = *rng.pick(&[size.wrapping_sub(1), size.wrapping_add(1), 0, 0xffff_ffff, size.wrapping_add(1000)]);
            let mut out = b[..s.start + 1].to_vec();
            leb_u32(&mut out, newsize);
            out.extend_from_slice(&b[s.payload..]);
            out
        }
        6 => {
            // wrong vector count of a section
            let mut v = split(b);
            let cand: Vec<usize> = (0..v.len()).filter(|i| v[*i].0 != 0 && v[*i].0 != 8).collect();
            if cand.is_empty() {
                return b.to_vec();
            }
            let i = *rng.pick(&cand);
            if let Some((n, q)) = read_leb(&v[i].1, 0) {
                let n = n as u32;
                let nn = *rng.pick(&[0u32, 1, n.wrapping_sub(1), n.wrapping_add(1), 0xffff_ffff, 100_000]);
                let mut p = Vec::new();
                leb_u32(&mut p, nn);
                p.extend_from_slice(&v[i].1[q..]);
                v[i].1 = p;
            }
            rebuild(b, &v)
        }
        7 => {
            let mut out = b.to_vec();
            for _ in 0..rng.range(1, 3) {
                let i = rng.usize(out.len());
                out[i] ^= 1 << rng.below(8);
            }
            out
        }
        8 => {
            // overwrite one byte inside the code section with a random opcode / immediate
            let mut out = b.to_vec();
            if let Some(s) = secs.iter().find(|s| s.id == 10) {
                if s.end > s.payload {
                    let i = s.payload + rng.usize(s.end - s.payload);
                    out[i] = rng.next() as u8;
                }
            }
            out
        }
        9 | 15 => {
            // insert a valid instruction sequence into a function body: after the function-level `end` (9)
            // or at a random position (15), fixing up the sizes so that only the instruction stream is wrong
            let mut v = split(b);
            if let Some(ci) = v.iter().position(|s| s.0 == 10) {
                let payload = v[ci].1.clone();
                let bodies = code_bodies(&payload);
                if !bodies.is_empty() {
                    let (lp, bs, be) = *rng.pick(&bodies);
                    let ins: &[u8] = *rng.pick(&[&[0x01u8][..], &[0x41, 0x00, 0x1a], &[0x0b], &[0x00], &[0x02, 0x40, 0x0b], &[0x20, 0x00, 0x1a], &[0x0c, 0x00], &[0x0f]]);
                    let at = if k % NUM_MUTATORS == 9 { be } else { bs + rng.usize(be - bs + 1) };
                    let mut body = payload[bs..at].to_vec();
                    body.extend_from_slice(ins);
                    body.extend_from_slice(&payload[at..be]);
                    let mut np = payload[..lp].to_vec();
                    leb_u32(&mut np, body.len() as u32);
                    np.extend_from_slice(&body);
                    np.extend_from_slice(&payload[be..]);
                    v[ci].1 = np;
                }
            }
            rebuild(b, &v)
        }
        10 => {
            // flip a value-type byte somewhere
            let mut out = b.to_vec();
            let pos: Vec<usize> = (8..out.len()).filter(|i| matches!(out[*i], 0x7f | 0x7e | 0x7d | 0x7c | 0x7b | 0x70 | 0x6f)).collect();
            if !pos.is_empty() {
                let i = *rng.pick(&pos);
                out[i] = *rng.pick(&[0x7f, 0x7e, 0x7d, 0x7c, 0x7b, 0x70, 0x6f, 0x6e, 0x64, 0x40]);
            }
            out
        }
        11 => {
            let mut v = split(b);
            let id = *rng.pick(&[13u8, 14, 15, 20, 63, 127, 255]);
            let at = rng.usize(v.len() + 1);
            v.insert(at, (id, vec![0, 1, 2]));
            rebuild(b, &v)
        }
        12 => {
            let mut out = b.to_vec();
            match rng.below(4) {
                0 => out[4] = 2,
                1 => {
                    // component-model header
                    out[4] = 0x0d;
                    out[6] = 0x01;
                }
                2 => out[0] = b'x',
                _ => {
                    out.truncate(4 + rng.usize(4));
                }
            }
            out
        }
        13 => {
            // keep the section headers, replace one payload by random bytes of the same length
            let mut v = split(b);
            if !v.is_empty() {
                let i = rng.usize(v.len());
                let n = v[i].1.len();
                v[i].1 = (0..n).map(|_| rng.next() as u8).collect();
            }
            rebuild(b, &v)
        }
        19 => {
            // one more local declaration group in front of a body's locals: a count (0, 1, or a padded 0) and a type
            // that is an ordinary one, one of a proposal walrus does not support, or no type at all
            let mut v = split(b);
            if let Some(ci) = v.iter().position(|s| s.0 == 10) {
                let payload = v[ci].1.clone();
                let bodies = code_bodies(&payload);
                if !bodies.is_empty() {
                    let (lp, bs, be) = *rng.pick(&bodies);
                    let body = payload[bs..be].to_vec();
                    if let Some((ngroups, p)) = read_leb(&body, 0) {
                        let count: &[u8] = match rng.below(4) {
                            0 | 1 => &[0x00],
                            2 => &[0x80, 0x00],
                            _ => &[0x01],
                        };
                        let ty: &[u8] = match rng.below(10) {
                            0 => &[0x7f],
                            1 => &[0x69],       // exnref
                            2 => &[0x6e],       // anyref
                            3 => &[0x6d],       // eqref
                            4 => &[0x6c],       // i31ref
                            5 => &[0x63, 0x07], // (ref null 7)
                            6 => &[0x64, 0x70], // (ref func)
                            7 => &[0x7b],       // v128
                            8 => &[0x6f],       // externref
                            _ => &[0x40],
                        };
                        let mut nb = Vec::new();
                        leb_u32(&mut nb, ngroups as u32 + 1);
                        nb.extend_from_slice(count);
                        nb.extend_from_slice(ty);
                        nb.extend_from_slice(&body[p..]);
                        let mut np = payload[..lp].to_vec();
                        leb_u32(&mut np, nb.len() as u32);
                        np.extend_from_slice(&nb);
                        np.extend_from_slice(&payload[be..]);
                        v[ci].1 = np;
                    }
                }
            }
            rebuild(b, &v)
        }
        16 | 17 | 18 => {
            // encodings that are only legal under some proposals, applied to otherwise valid bodies (sizes fixed up):
            //  16: a one-byte LEB becomes a padded two-byte LEB (e.g. the memory index of memory.size)
            //  17: a load/store memarg gets the "explicit memory index" flag (bit 6) and index 0 (multi-memory)
            //  18: a memarg offset LEB is padded beyond 5 bytes (only readable as a 64-bit offset: memory64)
            let mut v = split(b);
            if let Some(ci) = v.iter().position(|s| s.0 == 10) {
                let payload = v[ci].1.clone();
                let bodies = code_bodies(&payload);
                if !bodies.is_empty() {
                    let (lp, bs, be) = *rng.pick(&bodies);
                    let mut body = payload[bs..be].to_vec();
                    let kind = k % NUM_MUTATORS;
                    let cands: Vec<usize> = (1..body.len().saturating_sub(1))
                        .filter(|i| match kind {
                            16 => body[*i] < 0x80 && (body[*i - 1] == 0x3f || body[*i - 1] == 0x40 || body[*i - 1] < 0x80),
                            _ => (0x28..=0x3e).contains(&body[*i - 1]) && body[*i] < 0x08 && body.get(*i + 1).map(|x| *x < 0x80).unwrap_or(false),
                        })
                        .collect();
                    if !cands.is_empty() {
                        let i = *rng.pick(&cands);
                        match kind {
                            16 => {
                                let x = body[i];
                                body.splice(i..i + 1, [x | 0x80, 0x00]);
                            }
                            17 => {
                                body[i] |= 0x40;
                                body.insert(i + 1, 0x00);
                            }
                            _ => {
                                let o = body[i + 1];
                                body.splice(i + 1..i + 2, [o | 0x80, 0x80, 0x80, 0x80, 0x80, 0x00]);
                            }
                        }
                        let mut np = payload[..lp].to_vec();
                        leb_u32(&mut np, body.len() as u32);
                        np.extend_from_slice(&body);
                        np.extend_from_slice(&payload[be..]);
                        v[ci].1 = np;
                    }
                }
            }
            rebuild(b, &v)
        }
        _ => {
            let mut out = b.to_vec();
            for _ in 0..rng.range(1, 9) {
                out.push(rng.next() as u8);
            }
            out
        }
    }
}

/// Deeply nested function body. kind: block | loop | if | mixed | blockbr
pub fn deep(kind: &str, depth: usize) -> Vec<u8> {
    let mut m = MSpec::default();
    m.types.push((vec![], vec![]));
    let mut c = Code::new();
    for i in 0..depth {
        match kind {
            "loop" => {
                c.loop_(&BT::Empty);
            }
            "if" => {
                c.i32_const(1).if_(&BT::Empty);
            }
            "mixed" => match i % 3 {
                0 => {
                    c.block(&BT::Empty);
                }
                1 => {
                    c.loop_(&BT::Empty);
                }
                _ => {
                    c.i32_const(0).if_(&BT::Empty);
                }
            },
            _ => {
                c.block(&BT::Empty);
            }
        }
    }
    if kind == "blockbr" && depth > 0 {
        c.br((depth - 1) as u32);
    }
    for i in 0..depth {
        if kind == "ifelse" || (kind == "mixed" && i % 3 == 2 && false) {
            c.else_();
        }
        c.end_();
    }
    let code = c.end();
    m.funcs.push(FuncSpec { ty: 0, locals: vec![], code });
    m.exports.push(Export { name: "f".into(), kind: ExportKind::Func, index: 0 });
    m.encode()
}

/// `mut:<seed>:<k>:<base spec>`, `deep:<kind>:<depth>`, `probe:<file>`, `rand:<seed>:<len>`
pub fn materialize(spec: &str) -> Option<Vec<u8>> {
    if let Some(rest) = spec.strip_prefix("mut:") {
        let mut it = rest.splitn(3, ':');
        let seed: u64 = it.next()?.parse().ok()?;
        let k: u64 = it.next()?.parse().ok()?;
        let base = it.next()?;
        let b = crate::workload::materialize(base)?;
        let mut rng = Rng::derive(seed, &[k, crate::rng::fnv64(base.as_bytes())]);
        let mut out = mutate(&b, k, &mut rng);
        // sometimes stack a second mutation
        if rng.chance(1, 5) {
            let k2 = rng.below(NUM_MUTATORS);
            out = mutate(&out, k2, &mut rng);
        }
        return Some(out);
    }
    if let Some(rest) = spec.strip_prefix("wide:") {
        // one very long flat sequence with nested constructs late in it (positions beyond 2^16): `n` constant/drop
        // pairs, then a block, a loop and an if/else with a little content each, then a few more instructions
        let n: usize = rest.parse().ok()?;
        let mut m = MSpec::default();
        m.types.push((vec![], vec![]));
        let mut c = Code::new();
        for i in 0..n {
            c.i32_const((i % 100) as i32).drop_();
        }
        c.block(&BT::Empty);
        c.i32_const(1).drop_();
        c.end_();
        c.loop_(&BT::Empty);
        c.i32_const(2).drop_();
        c.end_();
        c.i32_const(1).if_(&BT::Empty);
        c.i32_const(3).drop_();
        c.else_();
        c.i32_const(4).drop_();
        c.end_();
        c.i32_const(5).drop_();
        let code = c.end();
        m.funcs.push(FuncSpec { ty: 0, locals: vec![], code });
        m.exports.push(Export { name: "f".into(), kind: ExportKind::Func, index: 0 });
        return Some(m.encode());
    }
    if let Some(rest) = spec.strip_prefix("deep:") {
        let mut it = rest.splitn(2, ':');
        let kind = it.next()?;
        let depth: usize = it.next()?.parse().ok()?;
        return Some(deep(kind, depth));
    }
    if let Some(rest) = spec.strip_prefix("probe:") {
        return crate::corpus::load_file(&crate::corpus::verif_root().join("corpus/featprobe").join(rest));
    }
    if let Some(rest) = spec.strip_prefix("rand:") {
        let mut it = rest.splitn(2, ':');
        let seed: u64 = it.next()?.parse().ok()?;
        let len: usize = it.next()?.parse().ok()?;
        let mut rng = Rng::derive(seed, &[len as u64]);
        let mut out = if rng.chance(3, 4) { b"\0asm\x01\0\0\0".to_vec() } else { vec![] };
        out.extend((0..len).map(|_| rng.next() as u8));
        return Some(out);
    }
    None
}

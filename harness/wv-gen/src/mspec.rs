//! Concrete (index-based) module specification with an own binary encoder.
//! The encoder is written by hand (not wasm-encoder) so that every legal
//! encoding choice - element-segment flags 0..7, data flags 0/1/2, presence of
//! the data-count section, non-minimal LEBs, custom-section placement - is
//! under the generator's control, and so that the inputs do not come out of
//! the same encoder walrus itself uses.

use crate::ops::{leb_u32, leb_u64};

#[derive(Clone, Copy, Debug, PartialEq, Eq, Hash, PartialOrd, Ord)]
pub enum VT {
    I32,
    I64,
    F32,
    F64,
    V128,
    FuncRef,
    ExternRef,
}

pub const NUM_TYPES: [VT; 4] = [VT::I32, VT::I64, VT::F32, VT::F64];
pub const ALL_TYPES: [VT; 7] = [VT::I32, VT::I64, VT::F32, VT::F64, VT::V128, VT::FuncRef, VT::ExternRef];

impl VT {
    pub fn byte(self) -> u8 {
        match self {
            VT::I32 => 0x7f,
            VT::I64 => 0x7e,
            VT::F32 => 0x7d,
            VT::F64 => 0x7c,
            VT::V128 => 0x7b,
            VT::FuncRef => 0x70,
            VT::ExternRef => 0x6f,
        }
    }
    pub fn is_ref(self) -> bool {
        matches!(self, VT::FuncRef | VT::ExternRef)
    }
    pub fn is_num(self) -> bool {
        matches!(self, VT::I32 | VT::I64 | VT::F32 | VT::F64)
    }
    pub fn enc(self) -> wasm_encoder::ValType {
        use wasm_encoder::ValType as E;
        match self {
            VT::I32 => E::I32,
            VT::I64 => E::I64,
            VT::F32 => E::F32,
            VT::F64 => E::F64,
            VT::V128 => E::V128,
            VT::FuncRef => E::Ref(wasm_encoder::RefType::FUNCREF),
            VT::ExternRef => E::Ref(wasm_encoder::RefType::EXTERNREF),
        }
    }
    pub fn from_wp(t: wasmparser::ValType) -> Option<VT> {
        use wasmparser::ValType as W;
        Some(match t {
            W::I32 => VT::I32,
            W::I64 => VT::I64,
            W::F32 => VT::F32,
            W::F64 => VT::F64,
            W::V128 => VT::V128,
            W::Ref(r) if r == wasmparser::RefType::FUNCREF => VT::FuncRef,
            W::Ref(r) if r == wasmparser::RefType::EXTERNREF => VT::ExternRef,
            _ => return None,
        })
    }
    pub fn wp(self) -> wasmparser::ValType {
        use wasmparser::ValType as W;
        match self {
            VT::I32 => W::I32,
            VT::I64 => W::I64,
            VT::F32 => W::F32,
            VT::F64 => W::F64,
            VT::V128 => W::V128,
            VT::FuncRef => W::Ref(wasmparser::RefType::FUNCREF),
            VT::ExternRef => W::Ref(wasmparser::RefType::EXTERNREF),
        }
    }
    pub fn heap_enc(self) -> wasm_encoder::HeapType {
        match self {
            VT::ExternRef => wasm_encoder::HeapType::Abstract { shared: false, ty: wasm_encoder::AbstractHeapType::Extern },
            _ => wasm_encoder::HeapType::Abstract { shared: false, ty: wasm_encoder::AbstractHeapType::Func },
        }
    }
}

#[derive(Clone, Copy, Debug, PartialEq, Eq, Hash)]
pub struct Limits {
    pub min: u64,
    pub max: Option<u64>,
    pub shared: bool,
    pub is64: bool,
}

impl Limits {
    pub fn new(min: u64, max: Option<u64>) -> Limits {
        Limits { min, max, shared: false, is64: false }
    }
}

#[derive(Clone, Copy, Debug, PartialEq, Eq, Hash)]
pub struct TableTy {
    pub elem: VT,
    pub lim: Limits,
}

#[derive(Clone, Copy, Debug, PartialEq, Eq, Hash)]
pub struct GlobalTy {
    pub ty: VT,
    pub mutable: bool,
}

#[derive(Clone, Debug, PartialEq)]
pub enum ImportKind {
    Func(u32),
    Table(TableTy),
    Memory(Limits),
    Global(GlobalTy),
}

#[derive(Clone, Debug, PartialEq)]
pub struct Import {
    pub module: String,
    pub field: String,
    pub kind: ImportKind,
}

#[derive(Clone, Debug, PartialEq)]
pub enum CExpr {
    I32(i32),
    I64(i64),
    F32(u32),
    F64(u64),
    V128([u8; 16]),
    GlobalGet(u32),
    RefNull(VT),
    RefFunc(u32),
}

impl CExpr {
    pub fn encode(&self, out: &mut Vec<u8>) {
        match self {
            CExpr::I32(v) => {
                out.push(0x41);
                leb_i64(out, *v as i64);
            }
            CExpr::I64(v) => {
                out.push(0x42);
                leb_i64(out, *v);
            }
            CExpr::F32(v) => {
                out.push(0x43);
                out.extend_from_slice(&v.to_le_bytes());
            }
            CExpr::F64(v) => {
                out.push(0x44);
                out.extend_from_slice(&v.to_le_bytes());
            }
            CExpr::V128(v) => {
                out.push(0xfd);
                out.push(0x0c);
                out.extend_from_slice(v);
            }
            CExpr::GlobalGet(g) => {
                out.push(0x23);
                leb_u32(out, *g);
            }
            CExpr::RefNull(t) => {
                out.push(0xd0);
                out.push(t.byte());
            }
            CExpr::RefFunc(f) => {
                out.push(0xd2);
                leb_u32(out, *f);
            }
        }
        out.push(0x0b);
    }
}

pub fn leb_i64(out: &mut Vec<u8>, mut v: i64) {
    loop {
        let b = (v & 0x7f) as u8;
        v >>= 7;
        let done = (v == 0 && b & 0x40 == 0) || (v == -1 && b & 0x40 != 0);
        if done {
            out.push(b);
            break;
        }
        out.push(b | 0x80);
    }
}

#[derive(Clone, Debug, PartialEq)]
pub enum ElemMode {
    Passive,
    Declared,
    Active { table: u32, offset: CExpr },
}

#[derive(Clone, Debug, PartialEq)]
pub enum ElemItems {
    Funcs(Vec<u32>),
    Exprs(Vec<CExpr>),
}

#[derive(Clone, Debug, PartialEq)]
pub struct ElemSpec {
    pub mode: ElemMode,
    pub ty: VT,
    pub items: ElemItems,
    /// For active funcref segments on table 0: use the explicit-table forms (flags 2/6) anyway.
    pub explicit_table: bool,
}

impl ElemSpec {
    pub fn len(&self) -> usize {
        match &self.items {
            ElemItems::Funcs(f) => f.len(),
            ElemItems::Exprs(e) => e.len(),
        }
    }
}

#[derive(Clone, Debug, PartialEq)]
pub enum DataMode {
    Passive,
    Active { mem: u32, offset: CExpr },
}

#[derive(Clone, Debug, PartialEq)]
pub struct DataSpec {
    pub mode: DataMode,
    pub bytes: Vec<u8>,
    /// For active segments on memory 0: use flag 2 (explicit memory index) anyway.
    pub explicit_mem: bool,
}

#[derive(Clone, Debug, Default, PartialEq)]
pub struct FuncSpec {
    pub ty: u32,
    /// Local declaration groups (count, type), as they appear in the binary.
    pub locals: Vec<(u32, VT)>,
    /// Encoded instructions including the final `end`.
    pub code: Vec<u8>,
}

#[derive(Clone, Debug, PartialEq, Eq, Hash)]
pub enum ExportKind {
    Func,
    Table,
    Memory,
    Global,
}

#[derive(Clone, Debug, PartialEq)]
pub struct Export {
    pub name: String,
    pub kind: ExportKind,
    pub index: u32,
}

#[derive(Clone, Debug, PartialEq)]
pub struct CustomSpec {
    pub name: String,
    pub data: Vec<u8>,
    /// Emitted just before the standard section with this id (1..=12, in the
    /// canonical order type,import,func,table,memory,global,export,start,elem,datacount,code,data);
    /// 0 = first thing after the header; 255 = after everything (but see `names_last`).
    pub before: u8,
    /// encode the length of the name with this many extra (padding) LEB bytes
    pub name_len_pad: u8,
}

#[derive(Clone, Debug, Default, PartialEq)]
pub struct NameSpec {
    pub module: Option<String>,
    pub funcs: Vec<(u32, String)>,
    pub locals: Vec<(u32, Vec<(u32, String)>)>,
    pub labels: Vec<(u32, Vec<(u32, String)>)>,
    pub types: Vec<(u32, String)>,
    pub tables: Vec<(u32, String)>,
    pub memories: Vec<(u32, String)>,
    pub globals: Vec<(u32, String)>,
    pub elems: Vec<(u32, String)>,
    pub datas: Vec<(u32, String)>,
    /// subsection 10 (field names of GC types; walrus ignores it)
    pub fields: Vec<(u32, Vec<(u32, String)>)>,
    /// subsection 11 (tag names; walrus ignores it)
    pub tags: Vec<(u32, String)>,
    /// a subsection with an id no proposal defines, raw payload
    pub unknown: Option<(u8, Vec<u8>)>,
}

#[derive(Clone, Debug, Default, PartialEq)]
pub struct MSpec {
    pub types: Vec<(Vec<VT>, Vec<VT>)>,
    pub imports: Vec<Import>,
    pub funcs: Vec<FuncSpec>,
    pub tables: Vec<TableTy>,
    pub memories: Vec<Limits>,
    pub globals: Vec<(GlobalTy, CExpr)>,
    pub exports: Vec<Export>,
    pub start: Option<u32>,
    pub elems: Vec<ElemSpec>,
    pub datas: Vec<DataSpec>,
    /// None = emit the data-count section exactly when there are data segments and bulk ops may need it
    pub data_count: Option<bool>,
    pub names: Option<NameSpec>,
    /// (language|processed-by|sdk, [(name, version)])
    pub producers: Option<Vec<(String, Vec<(String, String)>)>>,
    pub customs: Vec<CustomSpec>,
    /// Pad the LEBs of section sizes / vector counts to this many bytes (0 = minimal).
    pub pad_leb: u8,
    /// Where to put name/producers: true = after the data section (usual), false = right after the header
    pub names_first: bool,
}

fn name(out: &mut Vec<u8>, s: &str) {
    leb_u32(out, s.len() as u32);
    out.extend_from_slice(s.as_bytes());
}

fn limits(out: &mut Vec<u8>, l: &Limits) {
    let mut flag = 0u8;
    if l.max.is_some() {
        flag |= 1;
    }
    if l.shared {
        flag |= 2;
    }
    if l.is64 {
        flag |= 4;
    }
    out.push(flag);
    leb_u64(out, l.min);
    if let Some(m) = l.max {
        leb_u64(out, m);
    }
}

fn table_ty(out: &mut Vec<u8>, t: &TableTy) {
    out.push(t.elem.byte());
    limits(out, &t.lim);
}

fn padded_u32(out: &mut Vec<u8>, v: u32, pad: u8) {
    if pad == 0 {
        leb_u32(out, v);
        return;
    }
    let mut tmp = Vec::new();
    leb_u32(&mut tmp, v);
    let want = (pad as usize).clamp(tmp.len(), 5);
    let n = tmp.len();
    for (i, b) in tmp.iter().enumerate() {
        if i + 1 == n && want > n {
            out.push(b | 0x80);
        } else {
            out.push(*b);
        }
    }
    for i in n..want {
        out.push(if i + 1 == want { 0x00 } else { 0x80 });
    }
}

pub fn section(out: &mut Vec<u8>, id: u8, body: &[u8], pad: u8) {
    out.push(id);
    padded_u32(out, body.len() as u32, pad);
    out.extend_from_slice(body);
}

pub fn custom_section(out: &mut Vec<u8>, nm: &str, data: &[u8]) {
    custom_section_padded(out, nm, data, 0)
}

/// `pad` extra bytes in the LEB that gives the length of the name (a non-minimal but valid encoding)
pub fn custom_section_padded(out: &mut Vec<u8>, nm: &str, data: &[u8], pad: u8) {
    let mut body = Vec::new();
    if pad == 0 {
        name(&mut body, nm);
    } else {
        let mut l = Vec::new();
        leb_u32(&mut l, nm.len() as u32);
        let n = l.len();
        l[n - 1] |= 0x80;
        for _ in 1..pad.min((5 - n) as u8) {
            l.push(0x80);
        }
        l.push(0x00);
        body.extend_from_slice(&l);
        body.extend_from_slice(nm.as_bytes());
    }
    body.extend_from_slice(data);
    section(out, 0, &body, 0);
}

fn name_map(out: &mut Vec<u8>, m: &[(u32, String)]) {
    leb_u32(out, m.len() as u32);
    for (i, n) in m {
        leb_u32(out, *i);
        name(out, n);
    }
}

fn indirect_name_map(out: &mut Vec<u8>, m: &[(u32, Vec<(u32, String)>)]) {
    leb_u32(out, m.len() as u32);
    for (i, inner) in m {
        leb_u32(out, *i);
        name_map(out, inner);
    }
}

impl NameSpec {
    pub fn encode(&self) -> Vec<u8> {
        let mut out = Vec::new();
        let mut sub = |id: u8, body: Vec<u8>, out: &mut Vec<u8>| {
            out.push(id);
            leb_u32(out, body.len() as u32);
            out.extend_from_slice(&body);
        };
        if let Some(m) = &self.module {
            let mut b = Vec::new();
            name(&mut b, m);
            sub(0, b, &mut out);
        }
        if !self.funcs.is_empty() {
            let mut b = Vec::new();
            name_map(&mut b, &self.funcs);
            sub(1, b, &mut out);
        }
        if !self.locals.is_empty() {
            let mut b = Vec::new();
            indirect_name_map(&mut b, &self.locals);
            sub(2, b, &mut out);
        }
        if !self.labels.is_empty() {
            let mut b = Vec::new();
            indirect_name_map(&mut b, &self.labels);
            sub(3, b, &mut out);
        }
        for (id, m) in [(4u8, &self.types), (5, &self.tables), (6, &self.memories), (7, &self.globals), (8, &self.elems), (9, &self.datas)] {
            if !m.is_empty() {
                let mut b = Vec::new();
                name_map(&mut b, m);
                sub(id, b, &mut out);
            }
        }
        if !self.fields.is_empty() {
            let mut b = Vec::new();
            indirect_name_map(&mut b, &self.fields);
            sub(10, b, &mut out);
        }
        if !self.tags.is_empty() {
            let mut b = Vec::new();
            name_map(&mut b, &self.tags);
            sub(11, b, &mut out);
        }
        if let Some((id, body)) = &self.unknown {
            sub(*id, body.clone(), &mut out);
        }
        out
    }
}

pub fn encode_producers(fields: &[(String, Vec<(String, String)>)]) -> Vec<u8> {
    let mut out = Vec::new();
    leb_u32(&mut out, fields.len() as u32);
    for (f, vals) in fields {
        name(&mut out, f);
        leb_u32(&mut out, vals.len() as u32);
        for (n, v) in vals {
            name(&mut out, n);
            name(&mut out, v);
        }
    }
    out
}

impl MSpec {
    pub fn num_imported_funcs(&self) -> u32 {
        self.imports.iter().filter(|i| matches!(i.kind, ImportKind::Func(_))).count() as u32
    }
    pub fn num_imported_tables(&self) -> u32 {
        self.imports.iter().filter(|i| matches!(i.kind, ImportKind::Table(_))).count() as u32
    }
    pub fn num_imported_memories(&self) -> u32 {
        self.imports.iter().filter(|i| matches!(i.kind, ImportKind::Memory(_))).count() as u32
    }
    pub fn num_imported_globals(&self) -> u32 {
        self.imports.iter().filter(|i| matches!(i.kind, ImportKind::Global(_))).count() as u32
    }
    pub fn num_funcs(&self) -> u32 {
        self.num_imported_funcs() + self.funcs.len() as u32
    }
    pub fn func_type(&self, f: u32) -> u32 {
        let ni = self.num_imported_funcs();
        if f < ni {
            self.imports
                .iter()
                .filter_map(|i| if let ImportKind::Func(t) = i.kind { Some(t) } else { None })
                .nth(f as usize)
                .unwrap()
        } else {
            self.funcs[(f - ni) as usize].ty
        }
    }
    pub fn all_tables(&self) -> Vec<TableTy> {
        let mut v: Vec<TableTy> = self.imports.iter().filter_map(|i| if let ImportKind::Table(t) = i.kind { Some(t) } else { None }).collect();
        v.extend(self.tables.iter().copied());
        v
    }
    pub fn all_memories(&self) -> Vec<Limits> {
        let mut v: Vec<Limits> = self.imports.iter().filter_map(|i| if let ImportKind::Memory(t) = i.kind { Some(t) } else { None }).collect();
        v.extend(self.memories.iter().copied());
        v
    }
    pub fn all_globals(&self) -> Vec<GlobalTy> {
        let mut v: Vec<GlobalTy> = self.imports.iter().filter_map(|i| if let ImportKind::Global(t) = i.kind { Some(t) } else { None }).collect();
        v.extend(self.globals.iter().map(|g| g.0));
        v
    }
    /// Find or add a function type.
    pub fn ty(&mut self, params: &[VT], results: &[VT]) -> u32 {
        if let Some(i) = self.types.iter().position(|(p, r)| p == params && r == results) {
            return i as u32;
        }
        self.types.push((params.to_vec(), results.to_vec()));
        (self.types.len() - 1) as u32
    }

    pub fn encode(&self) -> Vec<u8> {
        let pad = self.pad_leb;
        let mut out = Vec::new();
        out.extend_from_slice(b"\0asm\x01\0\0\0");
        let customs_at = |out: &mut Vec<u8>, at: u8| {
            for c in self.customs.iter().filter(|c| c.before == at) {
                custom_section_padded(out, &c.name, &c.data, c.name_len_pad);
            }
        };
        let meta = |out: &mut Vec<u8>| {
            if let Some(n) = &self.names {
                custom_section(out, "name", &n.encode());
            }
            if let Some(p) = &self.producers {
                custom_section(out, "producers", &encode_producers(p));
            }
        };
        customs_at(&mut out, 0);
        if self.names_first {
            // name section before the entities exist is legal for the binary format
            meta(&mut out);
        }
        // 1 type
        customs_at(&mut out, 1);
        if !self.types.is_empty() {
            let mut b = Vec::new();
            padded_u32(&mut b, self.types.len() as u32, pad);
            for (p, r) in &self.types {
                b.push(0x60);
                leb_u32(&mut b, p.len() as u32);
                b.extend(p.iter().map(|t| t.byte()));
                leb_u32(&mut b, r.len() as u32);
                b.extend(r.iter().map(|t| t.byte()));
            }
            section(&mut out, 1, &b, pad);
        }
        // 2 import
        customs_at(&mut out, 2);
        if !self.imports.is_empty() {
            let mut b = Vec::new();
            padded_u32(&mut b, self.imports.len() as u32, pad);
            for i in &self.imports {
                name(&mut b, &i.module);
                name(&mut b, &i.field);
                match &i.kind {
                    ImportKind::Func(t) => {
                        b.push(0);
                        leb_u32(&mut b, *t);
                    }
                    ImportKind::Table(t) => {
                        b.push(1);
                        table_ty(&mut b, t);
                    }
                    ImportKind::Memory(l) => {
                        b.push(2);
                        limits(&mut b, l);
                    }
                    ImportKind::Global(g) => {
                        b.push(3);
                        b.push(g.ty.byte());
                        b.push(g.mutable as u8);
                    }
                }
            }
            section(&mut out, 2, &b, pad);
        }
        // 3 function
        customs_at(&mut out, 3);
        if !self.funcs.is_empty() {
            let mut b = Vec::new();
            padded_u32(&mut b, self.funcs.len() as u32, pad);
            for f in &self.funcs {
                leb_u32(&mut b, f.ty);
            }
            section(&mut out, 3, &b, pad);
        }
        // 4 table
        customs_at(&mut out, 4);
        if !self.tables.is_empty() {
            let mut b = Vec::new();
            padded_u32(&mut b, self.tables.len() as u32, pad);
            for t in &self.tables {
                table_ty(&mut b, t);
            }
            section(&mut out, 4, &b, pad);
        }
        // 5 memory
        customs_at(&mut out, 5);
        if !self.memories.is_empty() {
            let mut b = Vec::new();
            padded_u32(&mut b, self.memories.len() as u32, pad);
            for m in &self.memories {
                limits(&mut b, m);
            }
            section(&mut out, 5, &b, pad);
        }
        // 6 global
        customs_at(&mut out, 6);
        if !self.globals.is_empty() {
            let mut b = Vec::new();
            padded_u32(&mut b, self.globals.len() as u32, pad);
            for (g, init) in &self.globals {
                b.push(g.ty.byte());
                b.push(g.mutable as u8);
                init.encode(&mut b);
            }
            section(&mut out, 6, &b, pad);
        }
        // 7 export
        customs_at(&mut out, 7);
        if !self.exports.is_empty() {
            let mut b = Vec::new();
            padded_u32(&mut b, self.exports.len() as u32, pad);
            for e in &self.exports {
                name(&mut b, &e.name);
                b.push(match e.kind {
                    ExportKind::Func => 0,
                    ExportKind::Table => 1,
                    ExportKind::Memory => 2,
                    ExportKind::Global => 3,
                });
                leb_u32(&mut b, e.index);
            }
            section(&mut out, 7, &b, pad);
        }
        // 8 start
        customs_at(&mut out, 8);
        if let Some(s) = self.start {
            let mut b = Vec::new();
            leb_u32(&mut b, s);
            section(&mut out, 8, &b, pad);
        }
        // 9 element
        customs_at(&mut out, 9);
        if !self.elems.is_empty() {
            let mut b = Vec::new();
            padded_u32(&mut b, self.elems.len() as u32, pad);
            for e in &self.elems {
                encode_elem(&mut b, e);
            }
            section(&mut out, 9, &b, pad);
        }
        // 12 data count
        customs_at(&mut out, 10);
        let want_dc = match self.data_count {
            Some(x) => x,
            None => self.datas.iter().any(|d| matches!(d.mode, DataMode::Passive)),
        };
        if want_dc {
            let mut b = Vec::new();
            leb_u32(&mut b, self.datas.len() as u32);
            section(&mut out, 12, &b, pad);
        }
        // 10 code
        customs_at(&mut out, 11);
        if !self.funcs.is_empty() {
            let mut b = Vec::new();
            padded_u32(&mut b, self.funcs.len() as u32, pad);
            for f in &self.funcs {
                let mut body = Vec::new();
                leb_u32(&mut body, f.locals.len() as u32);
                for (n, t) in &f.locals {
                    leb_u32(&mut body, *n);
                    body.push(t.byte());
                }
                body.extend_from_slice(&f.code);
                padded_u32(&mut b, body.len() as u32, pad);
                b.extend_from_slice(&body);
            }
            section(&mut out, 10, &b, pad);
        }
        // 11 data
        customs_at(&mut out, 12);
        if !self.datas.is_empty() {
            let mut b = Vec::new();
            padded_u32(&mut b, self.datas.len() as u32, pad);
            for d in &self.datas {
                match &d.mode {
                    DataMode::Passive => {
                        b.push(1);
                    }
                    DataMode::Active { mem, offset } => {
                        if *mem == 0 && !d.explicit_mem {
                            b.push(0);
                        } else {
                            b.push(2);
                            leb_u32(&mut b, *mem);
                        }
                        offset.encode(&mut b);
                    }
                }
                leb_u32(&mut b, d.bytes.len() as u32);
                b.extend_from_slice(&d.bytes);
            }
            section(&mut out, 11, &b, pad);
        }
        customs_at(&mut out, 254);
        if !self.names_first {
            meta(&mut out);
        }
        customs_at(&mut out, 255);
        out
    }
}

fn encode_elem(b: &mut Vec<u8>, e: &ElemSpec) {
    // flags: bit0 = passive/declared (1) vs active (0); bit1 = explicit table index (active) / declared (passive);
    // bit2 = items are expressions
    let exprs = matches!(e.items, ElemItems::Exprs(_));
    let mut flag = if exprs { 4u8 } else { 0 };
    match &e.mode {
        ElemMode::Passive => flag |= 1,
        ElemMode::Declared => flag |= 3,
        ElemMode::Active { table, .. } => {
            let implicit_ok = *table == 0 && !e.explicit_table && e.ty == VT::FuncRef;
            if !implicit_ok {
                flag |= 2;
            }
        }
    }
    leb_u32(b, flag as u32);
    if let ElemMode::Active { table, offset } = &e.mode {
        if flag & 2 != 0 {
            leb_u32(b, *table);
        }
        offset.encode(b);
    }
    if flag & 3 != 0 {
        // elemkind (0x00) for index form, reftype for expression form
        if exprs {
            b.push(e.ty.byte());
        } else {
            b.push(0x00);
        }
    }
    match &e.items {
        ElemItems::Funcs(fs) => {
            leb_u32(b, fs.len() as u32);
            for f in fs {
                leb_u32(b, *f);
            }
        }
        ElemItems::Exprs(es) => {
            leb_u32(b, es.len() as u32);
            for x in es {
                x.encode(b);
            }
        }
    }
}

/// Helper to assemble function code from wasm-encoder instructions or raw bytes.
#[derive(Clone, Debug, Default)]
pub struct Code {
    pub bytes: Vec<u8>,
}

impl Code {
    pub fn new() -> Code {
        Code::default()
    }
    pub fn i(&mut self, ins: &wasm_encoder::Instruction) -> &mut Code {
        use wasm_encoder::Encode;
        ins.encode(&mut self.bytes);
        self
    }
    pub fn op(&mut self, op: &wasmparser::Operator) -> &mut Code {
        use wasm_encoder::reencode::Reencode;
        use wasm_encoder::Encode;
        let ins = wasm_encoder::reencode::RoundtripReencoder.instruction(op.clone()).expect("reencode");
        ins.encode(&mut self.bytes);
        self
    }
    pub fn raw(&mut self, b: &[u8]) -> &mut Code {
        self.bytes.extend_from_slice(b);
        self
    }
    pub fn end(&mut self) -> Vec<u8> {
        self.bytes.push(0x0b);
        std::mem::take(&mut self.bytes)
    }
}

/// Block type as the generator sees it.
#[derive(Clone, Debug, PartialEq)]
pub enum BT {
    Empty,
    Val(VT),
    Type(u32),
}

/// Hand-encoded instructions (control flow, variables, references, tables, bulk memory).
impl Code {
    pub fn b(&mut self, x: u8) -> &mut Code {
        self.bytes.push(x);
        self
    }
    pub fn u(&mut self, x: u32) -> &mut Code {
        leb_u32(&mut self.bytes, x);
        self
    }
    fn bt(&mut self, t: &BT) -> &mut Code {
        match t {
            BT::Empty => self.bytes.push(0x40),
            BT::Val(v) => self.bytes.push(v.byte()),
            BT::Type(i) => leb_i64(&mut self.bytes, *i as i64),
        }
        self
    }
    pub fn unreachable(&mut self) -> &mut Code { self.b(0x00) }
    pub fn nop(&mut self) -> &mut Code { self.b(0x01) }
    pub fn block(&mut self, t: &BT) -> &mut Code { self.b(0x02).bt(t) }
    pub fn loop_(&mut self, t: &BT) -> &mut Code { self.b(0x03).bt(t) }
    pub fn if_(&mut self, t: &BT) -> &mut Code { self.b(0x04).bt(t) }
    pub fn else_(&mut self) -> &mut Code { self.b(0x05) }
    pub fn end_(&mut self) -> &mut Code { self.b(0x0b) }
    pub fn br(&mut self, l: u32) -> &mut Code { self.b(0x0c).u(l) }
    pub fn br_if(&mut self, l: u32) -> &mut Code { self.b(0x0d).u(l) }
    pub fn br_table(&mut self, ls: &[u32], d: u32) -> &mut Code {
        self.b(0x0e).u(ls.len() as u32);
        for l in ls {
            self.u(*l);
        }
        self.u(d)
    }
    pub fn return_(&mut self) -> &mut Code { self.b(0x0f) }
    pub fn call(&mut self, f: u32) -> &mut Code { self.b(0x10).u(f) }
    pub fn call_indirect(&mut self, ty: u32, table: u32) -> &mut Code { self.b(0x11).u(ty).u(table) }
    pub fn return_call(&mut self, f: u32) -> &mut Code { self.b(0x12).u(f) }
    pub fn return_call_indirect(&mut self, ty: u32, table: u32) -> &mut Code { self.b(0x13).u(ty).u(table) }
    pub fn drop_(&mut self) -> &mut Code { self.b(0x1a) }
    pub fn select(&mut self) -> &mut Code { self.b(0x1b) }
    pub fn select_t(&mut self, t: VT) -> &mut Code { self.b(0x1c).u(1).b(t.byte()) }
    pub fn local_get(&mut self, i: u32) -> &mut Code { self.b(0x20).u(i) }
    pub fn local_set(&mut self, i: u32) -> &mut Code { self.b(0x21).u(i) }
    pub fn local_tee(&mut self, i: u32) -> &mut Code { self.b(0x22).u(i) }
    pub fn global_get(&mut self, i: u32) -> &mut Code { self.b(0x23).u(i) }
    pub fn global_set(&mut self, i: u32) -> &mut Code { self.b(0x24).u(i) }
    pub fn table_get(&mut self, t: u32) -> &mut Code { self.b(0x25).u(t) }
    pub fn table_set(&mut self, t: u32) -> &mut Code { self.b(0x26).u(t) }
    pub fn memory_size(&mut self, m: u32) -> &mut Code { self.b(0x3f).u(m) }
    pub fn memory_grow(&mut self, m: u32) -> &mut Code { self.b(0x40).u(m) }
    pub fn i32_const(&mut self, v: i32) -> &mut Code {
        self.b(0x41);
        leb_i64(&mut self.bytes, v as i64);
        self
    }
    pub fn i64_const(&mut self, v: i64) -> &mut Code {
        self.b(0x42);
        leb_i64(&mut self.bytes, v);
        self
    }
    pub fn f32_const(&mut self, bits: u32) -> &mut Code {
        self.b(0x43);
        self.bytes.extend_from_slice(&bits.to_le_bytes());
        self
    }
    pub fn f64_const(&mut self, bits: u64) -> &mut Code {
        self.b(0x44);
        self.bytes.extend_from_slice(&bits.to_le_bytes());
        self
    }
    pub fn v128_const(&mut self, v: &[u8; 16]) -> &mut Code {
        self.b(0xfd).u(0x0c);
        self.bytes.extend_from_slice(v);
        self
    }
    pub fn ref_null(&mut self, t: VT) -> &mut Code { self.b(0xd0).b(t.byte()) }
    pub fn ref_is_null(&mut self) -> &mut Code { self.b(0xd1) }
    pub fn ref_func(&mut self, f: u32) -> &mut Code { self.b(0xd2).u(f) }
    pub fn memory_init(&mut self, d: u32, m: u32) -> &mut Code { self.b(0xfc).u(8).u(d).u(m) }
    pub fn data_drop(&mut self, d: u32) -> &mut Code { self.b(0xfc).u(9).u(d) }
    pub fn memory_copy(&mut self, dst: u32, src: u32) -> &mut Code { self.b(0xfc).u(10).u(dst).u(src) }
    pub fn memory_fill(&mut self, m: u32) -> &mut Code { self.b(0xfc).u(11).u(m) }
    pub fn table_init(&mut self, e: u32, t: u32) -> &mut Code { self.b(0xfc).u(12).u(e).u(t) }
    pub fn elem_drop(&mut self, e: u32) -> &mut Code { self.b(0xfc).u(13).u(e) }
    pub fn table_copy(&mut self, dst: u32, src: u32) -> &mut Code { self.b(0xfc).u(14).u(dst).u(src) }
    pub fn table_grow(&mut self, t: u32) -> &mut Code { self.b(0xfc).u(15).u(t) }
    pub fn table_size(&mut self, t: u32) -> &mut Code { self.b(0xfc).u(16).u(t) }
    pub fn table_fill(&mut self, t: u32) -> &mut Code { self.b(0xfc).u(17).u(t) }
    pub fn zero(&mut self, t: VT) -> &mut Code {
        match t {
            VT::I32 => self.i32_const(0),
            VT::I64 => self.i64_const(0),
            VT::F32 => self.f32_const(0),
            VT::F64 => self.f64_const(0),
            VT::V128 => self.v128_const(&[0; 16]),
            VT::FuncRef | VT::ExternRef => self.ref_null(t),
        }
    }
}

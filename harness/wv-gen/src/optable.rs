//! Operator table measured against the reference validator: which of the
//! operators wasmparser knows are accepted under walrus's feature set, and
//! with which stack signature. Nothing here is hand-listed; the table is
//! derived by probing (`local.get*; op; unreachable` for parameter tuples over
//! the seven value types, then the result type).

use crate::mspec::*;
use crate::ops::{self, Imm, OpInfo};
use std::sync::OnceLock;
use wasmparser::{MemArg, Operator, Validator, WasmFeatures};

pub fn walrus_features() -> WasmFeatures {
    let mut f = WasmFeatures::empty();
    for x in [
        WasmFeatures::FLOATS,
        WasmFeatures::MUTABLE_GLOBAL,
        WasmFeatures::SATURATING_FLOAT_TO_INT,
        WasmFeatures::SIGN_EXTENSION,
        WasmFeatures::MULTI_VALUE,
        WasmFeatures::REFERENCE_TYPES,
        WasmFeatures::BULK_MEMORY,
        WasmFeatures::SIMD,
        WasmFeatures::RELAXED_SIMD,
        WasmFeatures::TAIL_CALL,
        WasmFeatures::MULTI_MEMORY,
        WasmFeatures::MEMORY64,
        WasmFeatures::THREADS,
    ] {
        f.insert(x);
    }
    f
}

pub fn valid(bytes: &[u8]) -> bool {
    Validator::new_with_features(walrus_features()).validate_all(bytes).is_ok()
}

#[derive(Clone, Copy, Debug, PartialEq, Eq)]
pub enum OpClass {
    /// fixed signature, no entity operands except possibly lanes/constants
    Plain,
    /// fixed signature given a 32-bit memory; first parameter is the address
    Mem,
    /// control flow, calls, variables, references, tables, bulk operations: signature depends on immediates
    Special,
}

#[derive(Clone, Debug)]
pub struct OpEntry {
    pub index: usize,
    pub info: OpInfo,
    pub class: OpClass,
    /// signature with default immediates (32-bit memory 0)
    pub params: Vec<VT>,
    pub results: Vec<VT>,
    /// for memarg operators: largest accepted alignment exponent, and whether only that one is accepted
    pub max_align: u8,
    pub exact_align: bool,
    /// for lane operators: number of lanes
    pub lanes: u8,
}

const STRUCTURAL: [&str; 5] = ["Block", "Loop", "If", "Else", "End"];

fn is_special(name: &str) -> bool {
    matches!(
        name,
        "Unreachable" | "Nop" | "Block" | "Loop" | "If" | "Else" | "End" | "Br" | "BrIf" | "BrTable" | "Return" | "Call" | "CallIndirect"
            | "ReturnCall" | "ReturnCallIndirect" | "Drop" | "Select" | "TypedSelect" | "LocalGet" | "LocalSet" | "LocalTee" | "GlobalGet"
            | "GlobalSet" | "RefNull" | "RefIsNull" | "RefFunc" | "TableGet" | "TableSet" | "TableSize" | "TableGrow" | "TableFill"
            | "TableCopy" | "TableInit" | "ElemDrop" | "MemorySize" | "MemoryGrow" | "MemoryFill" | "MemoryCopy" | "MemoryInit" | "DataDrop"
    )
}

/// Small environment in which a single operator is probed. Index 0 of every space exists and has
/// the most common type; `mem64` switches memory 0 to a 64-bit one.
pub fn probe_module(params: &[VT], results: &[VT], body: &[u8], mem64: bool) -> Vec<u8> {
    let mut m = MSpec::default();
    m.types.push((params.to_vec(), results.to_vec()));
    m.types.push((vec![], vec![]));
    m.tables.push(TableTy { elem: VT::FuncRef, lim: Limits::new(1, None) });
    m.memories.push(Limits { min: 1, max: Some(1), shared: false, is64: mem64 });
    m.globals.push((GlobalTy { ty: VT::I32, mutable: true }, CExpr::I32(0)));
    m.elems.push(ElemSpec { mode: ElemMode::Declared, ty: VT::FuncRef, items: ElemItems::Funcs(vec![0, 1]), explicit_table: false });
    m.datas.push(DataSpec { mode: DataMode::Passive, bytes: vec![1, 2], explicit_mem: false });
    m.data_count = Some(true);
    let mut code = Vec::new();
    for i in 0..params.len() {
        code.push(0x20);
        ops::leb_u32(&mut code, i as u32);
    }
    code.extend_from_slice(body);
    m.funcs.push(FuncSpec { ty: 0, locals: vec![(1, VT::I32)], code });
    m.funcs.push(FuncSpec { ty: 1, locals: vec![], code: vec![0x0b] });
    m.encode()
}

pub fn encode_op(op: &Operator) -> Option<Vec<u8>> {
    use wasm_encoder::reencode::Reencode;
    use wasm_encoder::Encode;
    let ins = wasm_encoder::reencode::RoundtripReencoder.instruction(op.clone()).ok()?;
    // wasm-encoder asserts lane ranges; an out-of-range probe is simply "not encodable"
    std::panic::catch_unwind(std::panic::AssertUnwindSafe(|| {
        let mut b = Vec::new();
        ins.encode(&mut b);
        b
    }))
    .ok()
}

fn param_combos() -> &'static Vec<Vec<VT>> {
    static C: OnceLock<Vec<Vec<VT>>> = OnceLock::new();
    C.get_or_init(|| {
        let mut combos: Vec<Vec<VT>> = vec![vec![]];
        for len in 1..=3usize {
            let mut idx = vec![0usize; len];
            loop {
                combos.push(idx.iter().map(|&i| ALL_TYPES[i]).collect());
                let mut k = 0;
                loop {
                    idx[k] += 1;
                    if idx[k] < ALL_TYPES.len() {
                        break;
                    }
                    idx[k] = 0;
                    k += 1;
                    if k == len {
                        break;
                    }
                }
                if k == len {
                    break;
                }
            }
        }
        combos
    })
}

/// Find (params, results) such that `local.get*; op` validates in the probe environment.
/// `hint` is tried first.
pub fn probe_signature(op_bytes: &[u8], mem64: bool, hint: Option<&(Vec<VT>, Vec<VT>)>) -> Option<(Vec<VT>, Vec<VT>)> {
    let mut with_unreachable = op_bytes.to_vec();
    with_unreachable.push(0x00);
    with_unreachable.push(0x0b);
    let mut plain = op_bytes.to_vec();
    plain.push(0x0b);
    let try_params = |params: &Vec<VT>| -> Option<Vec<VT>> {
        if !valid(&probe_module(params, &[], &with_unreachable, mem64)) {
            return None;
        }
        for r in std::iter::once(vec![]).chain(ALL_TYPES.iter().map(|t| vec![*t])) {
            if valid(&probe_module(params, &r, &plain, mem64)) {
                return Some(r);
            }
        }
        // two results (e.g. none in the supported set) or stack-polymorphic operator
        Some(vec![])
    };
    if let Some((p, _)) = hint {
        if let Some(r) = try_params(p) {
            return Some((p.clone(), r));
        }
    }
    for params in param_combos() {
        if let Some(r) = try_params(params) {
            return Some((params.clone(), r));
        }
    }
    None
}

fn natural_align_imm(index: usize, a: u8) -> Imm {
    let _ = index;
    let mut imm = Imm::default();
    imm.memarg = MemArg { align: a, max_align: a, offset: 0, memory: 0 };
    imm
}

fn build_table() -> Vec<OpEntry> {
    let prev = std::panic::take_hook();
    std::panic::set_hook(Box::new(|_| {}));
    let t = build_table_inner();
    std::panic::set_hook(prev);
    t
}

fn build_table_inner() -> Vec<OpEntry> {
    let infos = ops::op_infos();
    let mut out = Vec::new();
    for (index, info) in infos.iter().enumerate() {
        if STRUCTURAL.contains(&info.name) {
            out.push(OpEntry { index, info: info.clone(), class: OpClass::Special, params: vec![], results: vec![], max_align: 0, exact_align: false, lanes: 0 });
            continue;
        }
        let has_memarg = info.fields.iter().any(|f| f.1 == "memarg");
        // find an accepted alignment first (atomics accept only their natural alignment)
        let mut found: Option<(Vec<VT>, Vec<VT>, u8)> = None;
        let aligns: Vec<u8> = if has_memarg { vec![0, 1, 2, 3, 4] } else { vec![0] };
        for a in aligns {
            let imm = natural_align_imm(index, a);
            let mut imm = imm;
            // call_indirect / return_call_indirect need a type whose params match: type 1 is ()->()
            if info.fields.iter().any(|f| f.0 == "type_index") {
                imm = imm.set("type_index", 1);
            }
            let op = ops::make_op(index, &imm);
            let bytes = match encode_op(&op) {
                Some(b) => b,
                None => break,
            };
            if let Some((p, r)) = probe_signature(&bytes, false, None) {
                found = Some((p, r, a));
                break;
            }
        }
        let (params, results, first_ok_align) = match found {
            Some(x) => x,
            None => continue,
        };
        let mut max_align = first_ok_align;
        let mut exact_align = false;
        if has_memarg {
            let sig = (params.clone(), results.clone());
            for a in (first_ok_align + 1)..=5 {
                let op = ops::make_op(index, &natural_align_imm(index, a));
                if let Some(b) = encode_op(&op) {
                    if probe_signature(&b, false, Some(&sig)).map(|s| s.0 == sig.0).unwrap_or(false) {
                        max_align = a;
                    } else {
                        break;
                    }
                }
            }
            exact_align = first_ok_align == max_align && max_align > 0;
        }
        let mut lanes = 0u8;
        if info.fields.iter().any(|f| f.0 == "lane") {
            let sig = (params.clone(), results.clone());
            for n in [2u8, 4, 8, 16] {
                let mut imm = natural_align_imm(index, first_ok_align);
                imm.lane = n - 1;
                let op = ops::make_op(index, &imm);
                if let Some(b) = encode_op(&op) {
                    if probe_signature(&b, false, Some(&sig)).map(|s| s.0 == sig.0).unwrap_or(false) {
                        lanes = n;
                    }
                }
            }
        }
        let class = if is_special(info.name) {
            OpClass::Special
        } else if has_memarg {
            OpClass::Mem
        } else {
            OpClass::Plain
        };
        out.push(OpEntry { index, info: info.clone(), class, params, results, max_align, exact_align, lanes });
    }
    out
}

/// All operators accepted by the reference validator under walrus's feature set
/// (plus the five structural ones, which are accepted by construction).
pub fn table() -> &'static Vec<OpEntry> {
    static T: OnceLock<Vec<OpEntry>> = OnceLock::new();
    T.get_or_init(build_table)
}

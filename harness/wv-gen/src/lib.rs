//! Generators, censuses, mutators, corpora and the event log. Links no walrus code.
pub mod census;
pub mod corpus;
pub mod dwarf;
pub mod gen;
pub mod log;
pub mod mspec;
pub mod mutate;
pub mod ops;
pub mod optable;
pub mod rng;
pub mod tree;
pub mod workload;

//! Censuses: finite dimensions enumerated completely.

pub fn materialize(_spec: &str) -> Option<Vec<u8>> {
    None
}

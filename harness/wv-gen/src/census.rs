//! Censuses: finite dimensions enumerated completely.

pub fn materialize(spec: &str) -> Option<Vec<u8>> {
    if let Some(rest) = spec.strip_prefix("tree:") {
        return Some(rest.as_bytes().to_vec());
    }
    if let Some(rest) = spec.strip_prefix("hist:") {
        return Some(rest.as_bytes().to_vec());
    }
    if spec.starts_with("leb:") {
        return materialize_leb(spec);
    }
    if spec.starts_with("dwarf:") {
        return crate::dwarf::materialize(spec);
    }
    crate::mutate::materialize(spec)
}

use crate::mspec::*;

/// LEB-boundary census module: `nfuncs` local functions of different sizes (so that walrus's size sort
/// reorders them); function 0 has a body of exactly `big` bytes; every second function is exported (GC
/// removes the others). No nops, no unused locals: walrus re-emits every body with the same size.
pub fn leb_module(nfuncs: usize, big: usize, variant: u64) -> Vec<u8> {
    let mut m = MSpec::default();
    m.types.push((vec![], vec![VT::I32]));
    m.types.push((vec![VT::I32], vec![VT::I32]));
    for k in 0..nfuncs {
        let with_param = (k as u64 + variant) % 3 == 0;
        let with_local = (k as u64 + variant) % 4 == 1;
        let mut c = Code::new();
        c.i64_const(0x5157_0000_0000 + k as i64).drop_();
        // header: locals vector
        let header = if with_local { 3 } else { 1 };
        let mut reps = (k * 7 + variant as usize) % 23;
        let mut pad4 = 0usize;
        let tail = if with_local { 2 + 2 + 2 + 1 } else if with_param { 2 + 1 } else { 2 + 1 };
        if k == 0 && big > 0 {
            // header + 9 (marker) + 3*reps + 4*pad4 + tail == big
            let fixed = header + 9 + tail;
            let mut rem = big.saturating_sub(fixed);
            pad4 = 0;
            while rem % 3 != 0 && rem >= 4 {
                rem -= 4;
                pad4 += 1;
            }
            reps = rem / 3;
        }
        for i in 0..reps {
            c.i32_const((i % 60) as i32).drop_();
        }
        for _ in 0..pad4 {
            c.i32_const(64).drop_();
        }
        if with_local {
            // local 0 (or 1 with a parameter) is used: stays emitted
            let l = if with_param { 1 } else { 0 };
            c.i32_const(7).local_set(l).local_get(l);
        } else if with_param {
            c.local_get(0);
        } else {
            c.i32_const(1);
        }
        let code = c.end();
        m.funcs.push(FuncSpec { ty: if with_param { 1 } else { 0 }, locals: if with_local { vec![(1, VT::I32)] } else { vec![] }, code });
        if k % 2 == 0 || nfuncs <= 2 {
            m.exports.push(Export { name: format!("f{}", k), kind: ExportKind::Func, index: k as u32 });
        }
    }
    m.encode()
}

pub const LEB_FUNC_COUNTS: [usize; 5] = [1, 2, 127, 128, 129];
pub const LEB_BODY_SIZES: [usize; 7] = [60, 126, 127, 128, 129, 16383, 16384];

pub fn leb_specs(thorough: bool) -> Vec<String> {
    let mut v = Vec::new();
    for n in LEB_FUNC_COUNTS {
        for b in LEB_BODY_SIZES {
            v.push(format!("leb:{}:{}:0", n, b));
        }
    }
    if thorough {
        for n in [16383usize, 16384] {
            v.push(format!("leb:{}:128:1", n));
        }
    }
    v
}

pub fn materialize_leb(spec: &str) -> Option<Vec<u8>> {
    let rest = spec.strip_prefix("leb:")?;
    let mut it = rest.splitn(3, ':');
    let n: usize = it.next()?.parse().ok()?;
    let b: usize = it.next()?.parse().ok()?;
    let v: u64 = it.next()?.parse().ok()?;
    Some(leb_module(n, b, v))
}

pub const HIST_COLLECTIONS: [&str; 11] = ["types", "exports", "imports", "globals", "tables", "memories", "data", "elements", "funcs", "locals", "customs"];

/// All histories of exactly `len` symbols over the alphabet {add 0, add 1, delete first issued,
/// delete second issued, delete last issued}; every shorter history is a prefix of one of them and
/// is observed step by step.
pub fn hist_exhaustive(len: usize) -> Vec<String> {
    const ALPHA: [char; 5] = ['a', 'b', '0', '1', 'L'];
    let mut out = Vec::new();
    let total = ALPHA.len().pow(len as u32);
    for coll in HIST_COLLECTIONS {
        for mut n in 0..total {
            let mut s = String::with_capacity(len);
            for _ in 0..len {
                s.push(ALPHA[n % ALPHA.len()]);
                n /= ALPHA.len();
            }
            out.push(format!("hist:{}:{}", coll, s));
        }
    }
    out
}

pub fn hist_random(seed: u64, n: usize, len: usize) -> Vec<String> {
    const ALPHA: &[u8] = b"abcdefgh0123456789LLaabbcc";
    let mut out = Vec::new();
    let mut rng = crate::rng::Rng::derive(seed, &[0xC17]);
    for coll in HIST_COLLECTIONS {
        for _ in 0..n {
            let s: String = (0..len).map(|_| ALPHA[rng.usize(ALPHA.len())] as char).collect();
            out.push(format!("hist:{}:{}", coll, s));
        }
    }
    out
}

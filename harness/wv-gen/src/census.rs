//! Censuses: finite dimensions enumerated completely.

pub fn materialize(spec: &str) -> Option<Vec<u8>> {
    crate::mutate::materialize(spec)
}

//! Censuses: finite dimensions enumerated completely.

pub fn materialize(spec: &str) -> Option<Vec<u8>> {
    if let Some(rest) = spec.strip_prefix("tree:") {
        return Some(rest.as_bytes().to_vec());
    }
    if let Some(rest) = spec.strip_prefix("hist:") {
        return Some(rest.as_bytes().to_vec());
    }
    if let Some(rest) = spec.strip_prefix("census:ops:") {
        return op_census_module(rest.parse().ok()?);
    }
    if let Some(rest) = spec.strip_prefix("census:gcedge:") {
        return gcedge_op_module(rest.parse().ok()?);
    }
    if let Some(rest) = spec.strip_prefix("census:attr:") {
        return attr_modules().get(rest.parse::<usize>().ok()?).cloned();
    }
    if let Some(rest) = spec.strip_prefix("census:alone:") {
        return op_alone_module(rest.parse().ok()?);
    }
    if spec.starts_with("leb:") || spec.starts_with("lebi:") || spec.starts_with("lebb:") || spec.starts_with("lebn:") || spec.starts_with("lebe:") {
        return materialize_leb(spec);
    }
    if spec.starts_with("dwarf:") {
        return crate::dwarf::materialize(spec);
    }
    crate::mutate::materialize(spec)
}

use crate::mspec::*;

/// LEB-boundary census module: `nfuncs` local functions of different sizes (so that walrus's size sort
/// reorders them); function 0 has a body of exactly `big` bytes; every second function is exported (GC
/// removes the others). No nops, no unused locals: walrus re-emits every body with the same size.
pub fn leb_module(nfuncs: usize, big: usize, variant: u64) -> Vec<u8> {
    let mut m = MSpec::default();
    m.types.push((vec![], vec![VT::I32]));
    m.types.push((vec![VT::I32], vec![VT::I32]));
    for k in 0..nfuncs {
        let with_param = (k as u64 + variant) % 3 == 0;
        let with_local = (k as u64 + variant) % 4 == 1;
        let mut c = Code::new();
        c.i64_const(0x5157_0000_0000 + k as i64).drop_();
        // header: locals vector
        let header = if with_local { 3 } else { 1 };
        let mut reps = (k * 7 + variant as usize) % 23;
        let mut pad4 = 0usize;
        let tail = if with_local { 2 + 2 + 2 + 1 } else if with_param { 2 + 1 } else { 2 + 1 };
        if k == 0 && big > 0 {
            // header + 9 (marker) + 3*reps + 4*pad4 + tail == big
            let fixed = header + 9 + tail;
            let mut rem = big.saturating_sub(fixed);
            pad4 = 0;
            while rem % 3 != 0 && rem >= 4 {
                rem -= 4;
                pad4 += 1;
            }
            reps = rem / 3;
        }
        for i in 0..reps {
            c.i32_const((i % 60) as i32).drop_();
        }
        for _ in 0..pad4 {
            c.i32_const(64).drop_();
        }
        if with_local {
            // local 0 (or 1 with a parameter) is used: stays emitted
            let l = if with_param { 1 } else { 0 };
            c.i32_const(7).local_set(l).local_get(l);
        } else if with_param {
            c.local_get(0);
        } else {
            c.i32_const(1);
        }
        let code = c.end();
        m.funcs.push(FuncSpec { ty: if with_param { 1 } else { 0 }, locals: if with_local { vec![(1, VT::I32)] } else { vec![] }, code });
        if k % 2 == 0 || nfuncs <= 2 {
            m.exports.push(Export { name: format!("f{}", k), kind: ExportKind::Func, index: k as u32 });
        }
    }
    m.encode()
}

/// `nbig` functions of about `size` bytes each (every one different) among `nsmall` small ones: function entries
/// beyond 32 KiB / 64 KiB / 2^21 bytes (buffer growth, three- and four-byte size LEBs).
pub fn bigs_module(nbig: usize, nsmall: usize, size: usize) -> Vec<u8> {
    let mut m = MSpec::default();
    m.types.push((vec![], vec![VT::I32]));
    let total = nbig + nsmall;
    for k in 0..total {
        // big ones spread over the index space
        let is_big = nbig > 0 && k % (total / nbig.max(1)).max(1) == 0 && k / (total / nbig.max(1)).max(1) < nbig;
        let mut c = Code::new();
        c.i64_const(0x5157_0000_0000 + k as i64).drop_();
        let reps = if is_big { size / 3 + k } else { (k * 5) % 19 };
        for i in 0..reps {
            c.i32_const(((i + k) % 60) as i32).drop_();
        }
        c.i32_const(1);
        let code = c.end();
        m.funcs.push(FuncSpec { ty: 0, locals: vec![], code });
        if k % 2 == 0 {
            m.exports.push(Export { name: format!("f{}", k), kind: ExportKind::Func, index: k as u32 });
        }
    }
    m.encode()
}

/// `n` tiny functions (one parameter each, every second one exported), every function and every parameter named:
/// function indices beyond 2^16 in the name section.
pub fn many_named_module(n: usize) -> Vec<u8> {
    let mut m = MSpec::default();
    m.types.push((vec![VT::I32], vec![VT::I32]));
    let mut names = NameSpec::default();
    for k in 0..n {
        let mut c = Code::new();
        c.i64_const(0x5157_0000_0000 + k as i64).drop_();
        c.local_get(0);
        let code = c.end();
        m.funcs.push(FuncSpec { ty: 0, locals: vec![], code });
        if k % 2 == 0 {
            m.exports.push(Export { name: format!("f{}", k), kind: ExportKind::Func, index: k as u32 });
        }
        names.funcs.push((k as u32, format!("$fn_{}", k)));
        names.locals.push((k as u32, vec![(0, format!("$l_{}_0", k))]));
    }
    m.names = Some(names);
    m.encode()
}

pub const LEB_FUNC_COUNTS: [usize; 5] = [1, 2, 127, 128, 129];
pub const LEB_BODY_SIZES: [usize; 7] = [60, 126, 127, 128, 129, 16383, 16384];

pub fn leb_specs(thorough: bool) -> Vec<String> {
    let mut v = Vec::new();
    for n in LEB_FUNC_COUNTS {
        for b in LEB_BODY_SIZES {
            v.push(format!("leb:{}:{}:0", n, b));
        }
    }
    if thorough {
        for n in [16383usize, 16384] {
            v.push(format!("leb:{}:128:1", n));
        }
    }
    v.extend(lebi_specs());
    v
}

/// `lebi:<imports>:<locals>`: like the LEB census, with imported functions in front, so that the count of
/// local functions and the count of all functions can sit on opposite sides of a LEB-length boundary.
pub fn lebi_module(imports: usize, locals: usize) -> Vec<u8> {
    let b = leb_module(locals, 60, 1);
    // re-build through MSpec: decode is not available here, so construct directly
    let mut m = MSpec::default();
    m.types.push((vec![], vec![VT::I32]));
    m.types.push((vec![VT::I32], vec![VT::I32]));
    let _ = b;
    for k in 0..imports {
        m.imports.push(Import { module: "env".into(), field: format!("i{}", k), kind: ImportKind::Func(k as u32 % 2) });
    }
    for k in 0..locals {
        let mut c = Code::new();
        c.i64_const(0x5157_1000_0000 + k as i64).drop_();
        for i in 0..((k * 5) % 17) {
            c.i32_const(i as i32).drop_();
        }
        if imports > 0 && k % 3 == 0 {
            // call an import of type ()->i32
            c.call(((k % imports) / 2 * 2) as u32).drop_();
        }
        c.i32_const(k as i32);
        m.funcs.push(FuncSpec { ty: 0, locals: vec![], code: c.end() });
        if k % 2 == 0 || locals <= 2 {
            m.exports.push(Export { name: format!("f{}", k), kind: ExportKind::Func, index: (imports + k) as u32 });
        }
    }
    m.encode()
}

pub fn lebi_specs() -> Vec<String> {
    [(127usize, 1usize), (1, 127), (126, 2), (128, 1), (100, 28), (100, 29), (27, 100), (200, 3)].iter().map(|(i, l)| format!("lebi:{}:{}", i, l)).collect()
}

pub fn materialize_leb(spec: &str) -> Option<Vec<u8>> {
    if let Some(rest) = spec.strip_prefix("lebi:") {
        let mut it = rest.splitn(2, ':');
        let i: usize = it.next()?.parse().ok()?;
        let l: usize = it.next()?.parse().ok()?;
        return Some(lebi_module(i, l));
    }
    if let Some(rest) = spec.strip_prefix("lebe:") {
        // `n` functions of exactly the same size and shape, told apart by one constant each
        let n: usize = rest.parse().ok()?;
        let mut m = MSpec::default();
        m.types.push((vec![], vec![VT::I32]));
        for k in 0..n {
            let mut c = Code::new();
            // four instructions (an even size in walrus's measure), or five for every seventh function
            c.f32_const(k as u32).drop_();
            c.i32_const(1);
            c.raw(&[0x45]); // i32.eqz
            if k % 7 == 3 {
                c.raw(&[0x45]);
            }
            let code = c.end();
            m.funcs.push(FuncSpec { ty: 0, locals: vec![], code });
            if k % 2 == 0 {
                m.exports.push(Export { name: format!("f{}", k), kind: ExportKind::Func, index: k as u32 });
            }
        }
        return Some(m.encode());
    }
    if let Some(rest) = spec.strip_prefix("lebn:") {
        return Some(many_named_module(rest.parse().ok()?));
    }
    if let Some(rest) = spec.strip_prefix("lebb:") {
        let mut it = rest.splitn(3, ':');
        let nb: usize = it.next()?.parse().ok()?;
        let ns: usize = it.next()?.parse().ok()?;
        let sz: usize = it.next()?.parse().ok()?;
        return Some(bigs_module(nb, ns, sz));
    }
    let rest = spec.strip_prefix("leb:")?;
    let mut it = rest.splitn(3, ':');
    let n: usize = it.next()?.parse().ok()?;
    let b: usize = it.next()?.parse().ok()?;
    let v: u64 = it.next()?.parse().ok()?;
    Some(leb_module(n, b, v))
}

pub const HIST_COLLECTIONS: [&str; 11] = ["types", "exports", "imports", "globals", "tables", "memories", "data", "elements", "funcs", "locals", "customs"];

/// All histories of exactly `len` symbols over the alphabet {add 0, add 1, delete first issued,
/// delete second issued, delete last issued}; every shorter history is a prefix of one of them and
/// is observed step by step.
pub fn hist_exhaustive(len: usize) -> Vec<String> {
    const ALPHA5: [char; 5] = ['a', 'b', '0', '1', 'L'];
    // types are de-duplicated by value: renaming through get_mut joins the alphabet there
    const ALPHA6: [char; 6] = ['a', 'b', '0', '1', 'L', 'r'];
    let mut out = Vec::new();
    for coll in HIST_COLLECTIONS {
        let alpha: &[char] = if coll == "types" { &ALPHA6 } else { &ALPHA5 };
        #[allow(non_snake_case)]
        let ALPHA = alpha;
        let total = ALPHA.len().pow(len as u32);
        for mut n in 0..total {
            let mut s = String::with_capacity(len);
            for _ in 0..len {
                s.push(ALPHA[n % ALPHA.len()]);
                n /= ALPHA.len();
            }
            out.push(format!("hist:{}:{}", coll, s));
        }
    }
    out
}

pub fn hist_random(seed: u64, n: usize, len: usize) -> Vec<String> {
    const ALPHA: &[u8] = b"abcdefgh0123456789LLaabbccrR";
    let mut out = Vec::new();
    let mut rng = crate::rng::Rng::derive(seed, &[0xC17]);
    for coll in HIST_COLLECTIONS {
        for _ in 0..n {
            let s: String = (0..len).map(|_| ALPHA[rng.usize(ALPHA.len())] as char).collect();
            out.push(format!("hist:{}:{}", coll, s));
        }
    }
    out
}

// ------------------------------------------------------------------------------------------------
// Operator census (C03, C20, C02): every operator the reference validator accepts, each with
// boundary immediates, one function per variant.
// ------------------------------------------------------------------------------------------------

use crate::ops::{self, Imm};
use crate::optable::{self, OpEntry};
use std::sync::OnceLock;
use wasmparser::{BlockType, HeapType, MemArg};

pub const PAD: u32 = 130;

/// Environment with at least 130 entities in every index space that instructions can name.
fn census_env() -> MSpec {
    let mut m = MSpec::default();
    m.types.push((vec![], vec![])); // 0
    m.types.push((vec![VT::I32], vec![VT::I32])); // 1
    m.types.push((vec![VT::I32, VT::I64], vec![VT::F32, VT::F64])); // 2
    for _ in 0..PAD {
        m.funcs.push(FuncSpec { ty: 0, locals: vec![], code: vec![0x0b] });
    }
    m.tables.push(TableTy { elem: VT::FuncRef, lim: Limits::new(10, None) });
    m.tables.push(TableTy { elem: VT::ExternRef, lim: Limits::new(10, None) });
    m.tables.push(TableTy { elem: VT::FuncRef, lim: Limits::new(5, Some(20)) });
    m.memories.push(Limits { min: 1, max: None, shared: false, is64: false });
    m.memories.push(Limits { min: 1, max: None, shared: false, is64: true });
    m.memories.push(Limits { min: 1, max: Some(2), shared: true, is64: false });
    for (i, t) in ALL_TYPES.iter().enumerate() {
        let init = match t {
            VT::I32 => CExpr::I32(i as i32),
            VT::I64 => CExpr::I64(i as i64),
            VT::F32 => CExpr::F32(0),
            VT::F64 => CExpr::F64(0),
            VT::V128 => CExpr::V128([0; 16]),
            t => CExpr::RefNull(*t),
        };
        m.globals.push((GlobalTy { ty: *t, mutable: true }, init));
    }
    while (m.globals.len() as u32) <= PAD {
        let i = m.globals.len() as i32;
        m.globals.push((GlobalTy { ty: VT::I32, mutable: true }, CExpr::I32(i)));
    }
    m.elems.push(ElemSpec { mode: ElemMode::Declared, ty: VT::FuncRef, items: ElemItems::Funcs(vec![0, 1, PAD - 1]), explicit_table: false });
    m.elems.push(ElemSpec { mode: ElemMode::Passive, ty: VT::FuncRef, items: ElemItems::Funcs(vec![0]), explicit_table: false });
    m.elems.push(ElemSpec { mode: ElemMode::Passive, ty: VT::ExternRef, items: ElemItems::Exprs(vec![CExpr::RefNull(VT::ExternRef)]), explicit_table: false });
    while (m.elems.len() as u32) <= PAD {
        m.elems.push(ElemSpec { mode: ElemMode::Passive, ty: VT::FuncRef, items: ElemItems::Funcs(vec![]), explicit_table: false });
    }
    for i in 0..=PAD {
        m.datas.push(DataSpec { mode: DataMode::Passive, bytes: vec![i as u8], explicit_mem: false });
    }
    m.data_count = Some(true);
    m
}

#[derive(Clone, Debug)]
pub struct CensusFunc {
    pub op: &'static str,
    pub variant: String,
    pub params: Vec<VT>,
    pub results: Vec<VT>,
    /// encoded body including the final end; uses 131 extra i32 locals declared as one group
    pub code: Vec<u8>,
}

const EXTRA_LOCALS: u32 = 131;

fn body_for(params: &[VT], op_bytes: &[u8], wrap: usize, tail_unreachable: bool) -> Vec<u8> {
    let mut c = Code::new();
    for _ in 0..wrap {
        c.block(&BT::Empty);
    }
    for i in 0..params.len() {
        c.local_get(i as u32);
    }
    c.raw(op_bytes);
    if tail_unreachable {
        c.unreachable();
    }
    for _ in 0..wrap {
        c.end_();
    }
    c.end()
}

fn env_with(env: &MSpec, params: &[VT], results: &[VT], code: Vec<u8>) -> Vec<u8> {
    let mut m = env.clone();
    let t = m.ty(params, results);
    m.funcs.push(FuncSpec { ty: t, locals: vec![(EXTRA_LOCALS, VT::I32)], code });
    m.encode()
}

fn combos3() -> Vec<Vec<VT>> {
    let mut v: Vec<Vec<VT>> = vec![vec![]];
    for a in ALL_TYPES {
        v.push(vec![a]);
    }
    for a in ALL_TYPES {
        for b in ALL_TYPES {
            v.push(vec![a, b]);
        }
    }
    for a in ALL_TYPES {
        for b in ALL_TYPES {
            for c in ALL_TYPES {
                v.push(vec![a, b, c]);
            }
        }
    }
    v
}

/// Find parameter types under which `op_bytes` validates inside the census environment.
fn find_sig(env: &MSpec, op_bytes: &[u8], wrap: usize, hints: &[Vec<VT>]) -> Option<(Vec<VT>, Vec<VT>)> {
    let try_params = |p: &Vec<VT>| -> Option<Vec<VT>> {
        if !optable::valid(&env_with(env, p, &[], body_for(p, op_bytes, wrap, true))) {
            return None;
        }
        if wrap == 0 {
            for r in std::iter::once(vec![]).chain(ALL_TYPES.iter().map(|t| vec![*t])) {
                if optable::valid(&env_with(env, p, &r, body_for(p, op_bytes, 0, false))) {
                    return Some(r);
                }
            }
        }
        Some(vec![])
    };
    for h in hints {
        if let Some(r) = try_params(h) {
            return Some((h.clone(), r));
        }
    }
    static C: OnceLock<Vec<Vec<VT>>> = OnceLock::new();
    for p in C.get_or_init(combos3) {
        if let Some(r) = try_params(p) {
            return Some((p.clone(), r));
        }
    }
    None
}

fn variants_for(e: &OpEntry) -> Vec<(String, Imm)> {
    let mut out: Vec<(String, Imm)> = Vec::new();
    let base = {
        let mut i = Imm::default();
        i.memarg = MemArg { align: if e.exact_align { e.max_align } else { 0 }, max_align: e.max_align, offset: 0, memory: 0 };
        if e.info.fields.iter().any(|f| f.0 == "type_index") {
            i = i.set("type_index", 0);
        }
        i
    };
    out.push(("default".into(), base.clone()));
    for (fname, fty) in &e.info.fields {
        match (*fname, *fty) {
            ("function_index", _) => {
                for v in [1u32, PAD - 1, PAD] {
                    out.push((format!("func={}", v), base.clone().set("function_index", v)));
                }
            }
            ("global_index", _) => {
                for v in [1u32, 2, 3, 4, 5, 6, 127, 128, PAD] {
                    out.push((format!("global={}", v), base.clone().set("global_index", v)));
                }
            }
            ("table_index", _) | ("table", _) | ("src_table", _) | ("dst_table", _) => {
                for v in [1u32, 2] {
                    out.push((format!("{}={}", fname, v), base.clone().set(fname, v)));
                }
                if *fname == "dst_table" {
                    out.push(("tables=2,2".into(), base.clone().set("dst_table", 2).set("src_table", 2)));
                    out.push(("tables=0,2".into(), base.clone().set("dst_table", 0).set("src_table", 2)));
                }
            }
            ("mem", _) | ("src_mem", _) | ("dst_mem", _) => {
                for v in [1u32, 2] {
                    out.push((format!("{}={}", fname, v), base.clone().set(fname, v)));
                }
                if *fname == "dst_mem" {
                    out.push(("mems=1,1".into(), base.clone().set("dst_mem", 1).set("src_mem", 1)));
                    out.push(("mems=2,0".into(), base.clone().set("dst_mem", 2).set("src_mem", 0)));
                    out.push(("mems=1,0".into(), base.clone().set("dst_mem", 1).set("src_mem", 0)));
                }
            }
            ("type_index", _) => {
                for v in [1u32, 2] {
                    out.push((format!("type={}", v), base.clone().set("type_index", v)));
                }
            }
            ("data_index", _) => {
                for v in [1u32, 127, 128, PAD] {
                    out.push((format!("data={}", v), base.clone().set("data_index", v)));
                }
            }
            ("elem_index", _) => {
                for v in [1u32, 2, 127, 128, PAD] {
                    out.push((format!("elem={}", v), base.clone().set("elem_index", v)));
                }
            }
            ("local_index", _) => {
                for v in [1u32, 127, 128, EXTRA_LOCALS - 1] {
                    out.push((format!("local={}", v), base.clone().set("local_index", v)));
                }
            }
            ("relative_depth", _) => {
                for v in [1u32, 2] {
                    out.push((format!("depth={}", v), base.clone().set("relative_depth", v)));
                }
            }
            (_, "memarg") => {
                let aligns: Vec<u8> = if e.exact_align { vec![e.max_align] } else { (0..=e.max_align).collect() };
                for a in &aligns {
                    for off in [0u64, 1, 0x7f, 0x80, 0x8000_0000, 0xffff_ffff] {
                        if *a == base.memarg.align && off == 0 {
                            continue;
                        }
                        let mut i = base.clone();
                        i.memarg = MemArg { align: *a, max_align: e.max_align, offset: off, memory: 0 };
                        out.push((format!("align={} offset={:#x}", a, off), i));
                    }
                }
                for off in [0u64, 0xffff_ffff, 0x1_0000_0000, 0x8000_0000_0000_0000, u64::MAX] {
                    let mut i = base.clone();
                    i.memarg = MemArg { align: e.max_align, max_align: e.max_align, offset: off, memory: 1 };
                    out.push((format!("mem64 offset={:#x}", off), i));
                }
                for off in [0u64, 0xffff_ffff] {
                    let mut i = base.clone();
                    i.memarg = MemArg { align: e.max_align, max_align: e.max_align, offset: off, memory: 2 };
                    out.push((format!("mem=2 offset={:#x}", off), i));
                }
            }
            ("lane", _) => {
                for v in 1..e.lanes {
                    let mut i = base.clone();
                    i.lane = v;
                    out.push((format!("lane={}", v), i));
                }
            }
            ("lanes", _) => {
                for (n, pat) in [("identity", (0u8..16).collect::<Vec<_>>()), ("max", vec![31u8; 16]), ("mixed", vec![0, 31, 1, 30, 2, 29, 3, 28, 16, 15, 17, 14, 18, 13, 19, 12])] {
                    let mut i = base.clone();
                    i.lanes.copy_from_slice(&pat);
                    out.push((format!("shuffle={}", n), i));
                }
            }
            ("value", "i32") => {
                for v in [0i32, 1, -1, i32::MIN, i32::MAX, 63, 64, -64, -65, 0x2000, -0x2001] {
                    let mut i = base.clone();
                    i.i32v = v;
                    out.push((format!("i32={}", v), i));
                }
            }
            ("value", "i64") => {
                for v in [0i64, 1, -1, i64::MIN, i64::MAX, 63, 64, -65, 0x1_0000_0000, -0x8000_0001] {
                    let mut i = base.clone();
                    i.i64v = v;
                    out.push((format!("i64={}", v), i));
                }
            }
            ("value", "f32") => {
                for v in [0u32, 0x8000_0000, 0x7f80_0000, 0xff80_0000, 0x7fc0_0000, 0x7fa0_0001, 0xffc1_2345, 0x7f80_0001, 1, 0x3f80_0000] {
                    let mut i = base.clone();
                    i.f32v = v;
                    out.push((format!("f32={:08x}", v), i));
                }
            }
            ("value", "f64") => {
                for v in [0u64, 1 << 63, 0x7ff0_0000_0000_0000, 0xfff0_0000_0000_0000, 0x7ff8_0000_0000_0000, 0x7ff4_0000_0000_0001, 0xfff8_0000_dead_beef, 0x7ff0_0000_0000_0001, 1] {
                    let mut i = base.clone();
                    i.f64v = v;
                    out.push((format!("f64={:016x}", v), i));
                }
            }
            ("value", "v128") => {
                for (n, pat) in [("zero", [0u8; 16]), ("ones", [0xff; 16]), ("ramp", [0, 1, 2, 3, 4, 5, 6, 7, 8, 9, 10, 11, 12, 13, 14, 15]), ("hi", [0, 0, 0, 0, 0, 0, 0, 0, 0, 0, 0, 0, 0, 0, 0, 0x80]), ("nan", [0, 0, 0xc0, 0x7f, 1, 0, 0xa0, 0x7f, 0, 0, 0, 0, 0, 0, 0xf8, 0x7f])] {
                    let mut i = base.clone();
                    i.v128 = pat;
                    out.push((format!("v128={}", n), i));
                }
            }
            (_, "valty") => {
                for t in ALL_TYPES {
                    let mut i = base.clone();
                    i.valty = t.wp();
                    out.push((format!("ty={:?}", t), i));
                }
            }
            (_, "hty") => {
                let mut i = base.clone();
                i.hty = HeapType::EXTERN;
                out.push(("extern".into(), i));
            }
            (_, "brtable") => {
                for (n, ts, d) in [("one", vec![0u32], 1u32), ("many", vec![0, 1, 2, 1, 0, 2], 2), ("long", (0..130u32).map(|x| x % 3).collect(), 0)] {
                    let mut i = base.clone();
                    i.targets = ts;
                    i.default_target = d;
                    out.push((format!("targets={}", n), i));
                }
            }
            _ => {}
        }
    }
    out
}

fn structural_funcs() -> Vec<CensusFunc> {
    // block / loop / if(+else) / else-less if with every block-type form
    let mut out = Vec::new();
    let mut bts: Vec<(String, BT, Vec<VT>, Vec<VT>)> = vec![("empty".into(), BT::Empty, vec![], vec![])];
    for t in ALL_TYPES {
        bts.push((format!("{:?}", t), BT::Val(t), vec![], vec![t]));
    }
    bts.push(("type0".into(), BT::Type(0), vec![], vec![]));
    bts.push(("type1".into(), BT::Type(1), vec![VT::I32], vec![VT::I32]));
    bts.push(("type2".into(), BT::Type(2), vec![VT::I32, VT::I64], vec![VT::F32, VT::F64]));
    for (name, bt, p, r) in &bts {
        for kind in ["Block", "Loop", "If", "IfNoElse"] {
            if kind == "IfNoElse" && p != r {
                continue;
            }
            let mut c = Code::new();
            for t in p {
                c.zero(*t);
            }
            match kind {
                "Block" => {
                    c.block(bt);
                }
                "Loop" => {
                    c.loop_(bt);
                }
                _ => {
                    c.i32_const(1).if_(bt);
                }
            }
            // inside: consume params, produce results
            let produce = |c: &mut Code| {
                for _ in p {
                    c.drop_();
                }
                for t in r {
                    c.zero(*t);
                }
            };
            if kind == "IfNoElse" {
                // params == results: leave them as they are
            } else {
                produce(&mut c);
            }
            if kind == "If" {
                c.else_();
                produce(&mut c);
            }
            c.end_();
            for _ in r {
                c.drop_();
            }
            out.push(CensusFunc { op: if kind == "IfNoElse" { "If" } else { kind }, variant: format!("{} {}", kind, name), params: vec![], results: vec![], code: c.end() });
        }
    }
    out
}

fn build_census() -> Vec<CensusFunc> {
    let env = census_env();
    let mut out = structural_funcs();
    for e in optable::table().iter() {
        if matches!(e.info.name, "Block" | "Loop" | "If" | "Else" | "End") {
            continue;
        }
        let has_label = e.info.fields.iter().any(|f| f.0 == "relative_depth" || f.1 == "brtable");
        let wrap = if has_label { 2 } else { 0 };
        let mut hints: Vec<Vec<VT>> = vec![e.params.clone()];
        // 64-bit memory / other entity types change some parameter types
        let swap = |from: VT, to: VT| -> Vec<VT> { e.params.iter().map(|t| if *t == from { to } else { *t }).collect() };
        hints.push(swap(VT::I32, VT::I64));
        if !e.params.is_empty() && e.params[0] == VT::I32 {
            let mut v = e.params.clone();
            v[0] = VT::I64;
            hints.push(v.clone());
            if v.len() >= 3 {
                v[2] = VT::I64;
                hints.push(v);
            }
        }
        for t in ALL_TYPES {
            hints.push(vec![t]);
            hints.push(vec![VT::I32, t]);
            hints.push(vec![VT::I32, t, VT::I32]);
        }
        for (vname, imm) in variants_for(e) {
            let op = ops::make_op(e.index, &imm);
            let bytes = match optable::encode_op(&op) {
                Some(b) => b,
                None => continue,
            };
            if let Some((p, r)) = find_sig(&env, &bytes, wrap, &hints) {
                let tail = wrap > 0 || r.is_empty();
                // with a result type found, the operator's results are returned (no unreachable needed)
                let code = if wrap == 0 && !tail { body_for(&p, &bytes, 0, false) } else { body_for(&p, &bytes, wrap, true) };
                let results = if wrap == 0 && !tail { r } else { vec![] };
                out.push(CensusFunc { op: e.info.name, variant: vname, params: p, results, code });
            }
        }
    }
    out
}

pub fn census_funcs() -> &'static Vec<CensusFunc> {
    static C: OnceLock<Vec<CensusFunc>> = OnceLock::new();
    C.get_or_init(|| {
        let prev = std::panic::take_hook();
        std::panic::set_hook(Box::new(|_| {}));
        let r = build_census();
        std::panic::set_hook(prev);
        r
    })
}

pub const CENSUS_CHUNK: usize = 300;

pub fn op_census_specs() -> Vec<String> {
    let n = census_funcs().len();
    (0..(n + CENSUS_CHUNK - 1) / CENSUS_CHUNK).map(|i| format!("census:ops:{}", i)).collect()
}

/// Module holding the environment and one chunk of census functions (each exported under its variant name).
pub fn op_census_module(chunk: usize) -> Option<Vec<u8>> {
    let all = census_funcs();
    let lo = chunk * CENSUS_CHUNK;
    if lo >= all.len() {
        return None;
    }
    let hi = (lo + CENSUS_CHUNK).min(all.len());
    let mut m = census_env();
    for (k, f) in all[lo..hi].iter().enumerate() {
        let t = m.ty(&f.params, &f.results);
        m.funcs.push(FuncSpec { ty: t, locals: vec![(EXTRA_LOCALS, VT::I32)], code: f.code.clone() });
        if k % 3 == 0 {
            m.exports.push(Export { name: format!("{} [{}] #{}", f.op, f.variant, lo + k), kind: ExportKind::Func, index: PAD + k as u32 });
        }
    }
    Some(m.encode())
}

/// One operator alone (default immediates) in an otherwise MVP module: used by the feature check (C20).
pub fn op_alone_module(op_index_in_table: usize) -> Option<Vec<u8>> {
    let e = optable::table().get(op_index_in_table)?;
    if matches!(e.info.name, "Block" | "Loop" | "If" | "Else" | "End") {
        return None;
    }
    let mut imm = Imm::default();
    imm.memarg = MemArg { align: if e.exact_align { e.max_align } else { 0 }, max_align: e.max_align, offset: 0, memory: 0 };
    if e.info.fields.iter().any(|f| f.0 == "type_index") {
        imm = imm.set("type_index", 1);
    }
    let op = ops::make_op(e.index, &imm);
    let bytes = optable::encode_op(&op)?;
    let mut m = MSpec::default();
    m.types.push((e.params.clone(), vec![]));
    m.types.push((vec![], vec![]));
    m.tables.push(TableTy { elem: VT::FuncRef, lim: Limits::new(1, None) });
    m.memories.push(Limits::new(1, Some(1)));
    m.globals.push((GlobalTy { ty: VT::I32, mutable: true }, CExpr::I32(0)));
    m.elems.push(ElemSpec { mode: ElemMode::Active { table: 0, offset: CExpr::I32(0) }, ty: VT::FuncRef, items: ElemItems::Funcs(vec![0]), explicit_table: false });
    m.datas.push(DataSpec { mode: DataMode::Active { mem: 0, offset: CExpr::I32(0) }, bytes: vec![1, 2], explicit_mem: false });
    m.data_count = Some(matches!(e.info.name, "MemoryInit" | "DataDrop"));
    let code = body_for(&e.params, &bytes, 0, true);
    m.funcs.push(FuncSpec { ty: 0, locals: vec![(1, VT::I32)], code });
    m.funcs.push(FuncSpec { ty: 1, locals: vec![], code: vec![0x0b] });
    m.exports.push(Export { name: e.info.name.to_string(), kind: ExportKind::Func, index: 0 });
    let b = m.encode();
    if optable::valid(&b) {
        Some(b)
    } else {
        None
    }
}

pub fn op_alone_specs() -> Vec<String> {
    optable::table().iter().enumerate().filter(|(_, e)| !matches!(e.info.name, "Block" | "Loop" | "If" | "Else" | "End")).map(|(i, _)| format!("census:alone:{}", i)).collect()
}

// ------------------------------------------------------------------------------------------------
// Attribute census (C04): entity kind x imported/local x 32/64-bit x shared x limits x every
// element/data segment encoding x offset forms x item forms.
// ------------------------------------------------------------------------------------------------

fn attr_modules_build() -> Vec<Vec<u8>> {
    let mut out: Vec<MSpec> = Vec::new();
    // --- memories: imported/local x is64 x shared x max, several at once (multi-memory) and alone
    let mut mems: Vec<Limits> = Vec::new();
    for is64 in [false, true] {
        for shared in [false, true] {
            // 64-bit memories also with a maximum that does not fit 32 bits
            let maxes: Vec<Option<u64>> = if is64 { vec![None, Some(3u64), Some(65536), Some(0x1_0000_0010)] } else { vec![None, Some(3u64), Some(65536)] };
            for max in maxes {
                if shared && max.is_none() {
                    continue;
                }
                for min in [0u64, 1, 3] {
                    if let Some(m) = max {
                        if m < min {
                            continue;
                        }
                    }
                    mems.push(Limits { min, max, shared, is64 });
                }
            }
        }
    }
    for (i, l) in mems.iter().enumerate() {
        for imported in [false, true] {
            let mut m = MSpec::default();
            m.types.push((vec![], vec![]));
            if imported {
                m.imports.push(Import { module: "env".into(), field: format!("mem{}", i), kind: ImportKind::Memory(*l) });
            } else {
                m.memories.push(*l);
            }
            m.exports.push(Export { name: "m".into(), kind: ExportKind::Memory, index: 0 });
            let off = if l.is64 { CExpr::I64(0) } else { CExpr::I32(0) };
            if l.min > 0 {
                m.datas.push(DataSpec { mode: DataMode::Active { mem: 0, offset: off }, bytes: vec![i as u8, 1, 2], explicit_mem: i % 2 == 0 });
            }
            out.push(m);
        }
    }
    // all memories in one module, imported and local interleaved by kind
    {
        let mut m = MSpec::default();
        for (i, l) in mems.iter().enumerate().filter(|(i, _)| i % 3 == 0) {
            if i % 2 == 0 {
                m.imports.push(Import { module: "env".into(), field: format!("mem{}", i), kind: ImportKind::Memory(*l) });
            } else {
                m.memories.push(*l);
            }
        }
        for i in 0..m.all_memories().len() as u32 {
            m.exports.push(Export { name: format!("m{}", i), kind: ExportKind::Memory, index: i });
        }
        out.push(m);
    }
    // --- tables
    for elem in [VT::FuncRef, VT::ExternRef] {
        for max in [None, Some(7u64), Some(0xffff_ffff)] {
            for min in [0u64, 2, 7] {
                if max.map(|m| m < min).unwrap_or(false) {
                    continue;
                }
                for imported in [false, true] {
                    let mut m = MSpec::default();
                    let t = TableTy { elem, lim: Limits::new(min, max) };
                    if imported {
                        m.imports.push(Import { module: "env".into(), field: "tab".into(), kind: ImportKind::Table(t) });
                    } else {
                        m.tables.push(t);
                    }
                    m.exports.push(Export { name: "t".into(), kind: ExportKind::Table, index: 0 });
                    out.push(m);
                }
            }
        }
    }
    // --- 64-bit tables (memory64 proposal): imported/local, active segments with i64 offsets
    for (imported, max) in [(false, Some(9u64)), (true, Some(9)), (false, Some(0x1_0000_0000)), (true, Some(0x1_0000_0000)), (true, Some(0x2_0000_0003)), (false, None)] {
        let mut m = MSpec::default();
        m.types.push((vec![], vec![]));
        m.imports.push(Import { module: "env".into(), field: "o64".into(), kind: ImportKind::Global(GlobalTy { ty: VT::I64, mutable: false }) });
        let t = TableTy { elem: VT::FuncRef, lim: Limits { min: 4, max, shared: false, is64: true } };
        if imported {
            m.imports.push(Import { module: "env".into(), field: "t64".into(), kind: ImportKind::Table(t) });
        } else {
            m.tables.push(t);
        }
        m.funcs.push(FuncSpec { ty: 0, locals: vec![], code: vec![0x0b] });
        m.elems.push(ElemSpec { mode: ElemMode::Active { table: 0, offset: CExpr::I64(1) }, ty: VT::FuncRef, items: ElemItems::Funcs(vec![0]), explicit_table: false });
        m.elems.push(ElemSpec { mode: ElemMode::Active { table: 0, offset: CExpr::GlobalGet(0) }, ty: VT::FuncRef, items: ElemItems::Exprs(vec![CExpr::RefFunc(0), CExpr::RefNull(VT::FuncRef)]), explicit_table: true });
        m.exports.push(Export { name: "t".into(), kind: ExportKind::Table, index: 0 });
        out.push(m);
    }
    // --- globals: every type x mutability x imported/local x initialiser form
    {
        let mut m = MSpec::default();
        m.types.push((vec![], vec![]));
        m.funcs.push(FuncSpec { ty: 0, locals: vec![], code: vec![0x0b] });
        m.funcs.push(FuncSpec { ty: 0, locals: vec![], code: vec![0x01, 0x0b] });
        for (i, t) in ALL_TYPES.iter().enumerate() {
            for mutable in [false, true] {
                m.imports.push(Import { module: "env".into(), field: format!("g{}_{}", i, mutable), kind: ImportKind::Global(GlobalTy { ty: *t, mutable }) });
            }
        }
        let nimp = m.imports.len() as u32;
        for (i, t) in ALL_TYPES.iter().enumerate() {
            for mutable in [false, true] {
                let c = match t {
                    VT::I32 => CExpr::I32(-7 - i as i32),
                    VT::I64 => CExpr::I64(i64::MIN + i as i64),
                    VT::F32 => CExpr::F32(0x7fa0_0001),
                    VT::F64 => CExpr::F64(0xfff8_0000_dead_beef),
                    VT::V128 => {
                        // sign bit of the 128-bit value set for the mutable one, bit 63 for the other
                        let mut b = [i as u8; 16];
                        if mutable {
                            b[15] |= 0x80;
                        } else {
                            b[7] |= 0x80;
                        }
                        CExpr::V128(b)
                    }
                    t => CExpr::RefNull(*t),
                };
                m.globals.push((GlobalTy { ty: *t, mutable }, c));
                // initialised from the immutable imported global of the same type
                m.globals.push((GlobalTy { ty: *t, mutable }, CExpr::GlobalGet(2 * i as u32)));
            }
        }
        m.globals.push((GlobalTy { ty: VT::FuncRef, mutable: false }, CExpr::RefFunc(0)));
        m.globals.push((GlobalTy { ty: VT::FuncRef, mutable: true }, CExpr::RefFunc(1)));
        let total = nimp + m.globals.len() as u32;
        for i in 0..total {
            m.exports.push(Export { name: format!("g{}", i), kind: ExportKind::Global, index: i });
        }
        out.push(m);
    }
    // --- element segments: every flag, offset form and item form
    {
        let mut m = MSpec::default();
        m.types.push((vec![], vec![]));
        m.imports.push(Import { module: "env".into(), field: "off".into(), kind: ImportKind::Global(GlobalTy { ty: VT::I32, mutable: false }) });
        m.imports.push(Import { module: "env".into(), field: "fr".into(), kind: ImportKind::Global(GlobalTy { ty: VT::FuncRef, mutable: false }) });
        m.imports.push(Import { module: "env".into(), field: "er".into(), kind: ImportKind::Global(GlobalTy { ty: VT::ExternRef, mutable: false }) });
        m.imports.push(Import { module: "env".into(), field: "f".into(), kind: ImportKind::Func(0) });
        m.imports.push(Import { module: "env".into(), field: "itab".into(), kind: ImportKind::Table(TableTy { elem: VT::FuncRef, lim: Limits::new(8, None) }) });
        m.tables.push(TableTy { elem: VT::FuncRef, lim: Limits::new(8, None) }); // 1
        m.tables.push(TableTy { elem: VT::ExternRef, lim: Limits::new(8, None) }); // 2
        for k in 0..3u8 {
            m.funcs.push(FuncSpec { ty: 0, locals: vec![], code: vec![0x41, k, 0x1a, 0x0b] });
        }
        let fidx = |i: u32| Vec::from([i, 0, 3, 1]);
        let fexprs = || vec![CExpr::RefFunc(2), CExpr::RefNull(VT::FuncRef), CExpr::GlobalGet(1), CExpr::RefFunc(0)];
        let eexprs = || vec![CExpr::RefNull(VT::ExternRef), CExpr::GlobalGet(2)];
        for (table, tty) in [(0u32, VT::FuncRef), (1, VT::FuncRef), (2, VT::ExternRef)] {
            for offset in [CExpr::I32(1), CExpr::GlobalGet(0)] {
                if tty == VT::FuncRef {
                    m.elems.push(ElemSpec { mode: ElemMode::Active { table, offset: offset.clone() }, ty: tty, items: ElemItems::Funcs(fidx(1)), explicit_table: false });
                    m.elems.push(ElemSpec { mode: ElemMode::Active { table, offset: offset.clone() }, ty: tty, items: ElemItems::Funcs(fidx(2)), explicit_table: true });
                    m.elems.push(ElemSpec { mode: ElemMode::Active { table, offset: offset.clone() }, ty: tty, items: ElemItems::Exprs(fexprs()), explicit_table: false });
                    m.elems.push(ElemSpec { mode: ElemMode::Active { table, offset: offset.clone() }, ty: tty, items: ElemItems::Exprs(fexprs()), explicit_table: true });
                } else {
                    m.elems.push(ElemSpec { mode: ElemMode::Active { table, offset: offset.clone() }, ty: tty, items: ElemItems::Exprs(eexprs()), explicit_table: true });
                }
            }
        }
        m.elems.push(ElemSpec { mode: ElemMode::Passive, ty: VT::FuncRef, items: ElemItems::Funcs(fidx(3)), explicit_table: false });
        m.elems.push(ElemSpec { mode: ElemMode::Passive, ty: VT::FuncRef, items: ElemItems::Exprs(fexprs()), explicit_table: false });
        m.elems.push(ElemSpec { mode: ElemMode::Passive, ty: VT::ExternRef, items: ElemItems::Exprs(eexprs()), explicit_table: false });
        m.elems.push(ElemSpec { mode: ElemMode::Passive, ty: VT::FuncRef, items: ElemItems::Funcs(vec![]), explicit_table: false });
        m.elems.push(ElemSpec { mode: ElemMode::Declared, ty: VT::FuncRef, items: ElemItems::Funcs(fidx(1)), explicit_table: false });
        m.elems.push(ElemSpec { mode: ElemMode::Declared, ty: VT::FuncRef, items: ElemItems::Exprs(fexprs()), explicit_table: false });
        for i in 0..3u32 {
            m.exports.push(Export { name: format!("t{}", i), kind: ExportKind::Table, index: i });
        }
        m.exports.push(Export { name: "f".into(), kind: ExportKind::Func, index: 2 });
        m.exports.push(Export { name: "f_again".into(), kind: ExportKind::Func, index: 2 });
        m.exports.push(Export { name: "imported_f".into(), kind: ExportKind::Func, index: 0 });
        m.start = Some(1);
        out.push(m.clone());
        // the same without exports and start: nothing is a root except the imported table's segments
        m.exports.clear();
        m.start = None;
        out.push(m);
    }
    // --- MVP-only element/data forms (flag 0 only), single table/memory
    {
        let mut m = MSpec::default();
        m.types.push((vec![], vec![]));
        m.imports.push(Import { module: "env".into(), field: "off".into(), kind: ImportKind::Global(GlobalTy { ty: VT::I32, mutable: false }) });
        m.tables.push(TableTy { elem: VT::FuncRef, lim: Limits::new(8, Some(8)) });
        m.memories.push(Limits::new(1, Some(2)));
        m.funcs.push(FuncSpec { ty: 0, locals: vec![], code: vec![0x0b] });
        m.elems.push(ElemSpec { mode: ElemMode::Active { table: 0, offset: CExpr::I32(0) }, ty: VT::FuncRef, items: ElemItems::Funcs(vec![0, 0]), explicit_table: false });
        m.elems.push(ElemSpec { mode: ElemMode::Active { table: 0, offset: CExpr::GlobalGet(0) }, ty: VT::FuncRef, items: ElemItems::Funcs(vec![0]), explicit_table: false });
        m.datas.push(DataSpec { mode: DataMode::Active { mem: 0, offset: CExpr::I32(8) }, bytes: b"hello".to_vec(), explicit_mem: false });
        m.datas.push(DataSpec { mode: DataMode::Active { mem: 0, offset: CExpr::GlobalGet(0) }, bytes: vec![], explicit_mem: false });
        m.data_count = Some(false);
        m.exports.push(Export { name: "t".into(), kind: ExportKind::Table, index: 0 });
        m.exports.push(Export { name: "m".into(), kind: ExportKind::Memory, index: 0 });
        out.push(m);
    }
    // --- data segments: flags 0/1/2 x 32/64-bit memory x offset forms x data-count present or not
    for dc in [Some(true), Some(false)] {
        let mut m = MSpec::default();
        m.imports.push(Import { module: "env".into(), field: "o32".into(), kind: ImportKind::Global(GlobalTy { ty: VT::I32, mutable: false }) });
        m.imports.push(Import { module: "env".into(), field: "o64".into(), kind: ImportKind::Global(GlobalTy { ty: VT::I64, mutable: false }) });
        m.imports.push(Import { module: "env".into(), field: "imem".into(), kind: ImportKind::Memory(Limits { min: 1, max: None, shared: false, is64: true }) });
        m.memories.push(Limits::new(1, None));
        m.memories.push(Limits { min: 2, max: Some(4), shared: true, is64: false });
        for (mem, is64) in [(0u32, true), (1, false), (2, false)] {
            for off in [0u8, 1] {
                let offset = match (is64, off) {
                    (true, 0) => CExpr::I64(16),
                    (true, _) => CExpr::GlobalGet(1),
                    (false, 0) => CExpr::I32(16),
                    (false, _) => CExpr::GlobalGet(0),
                };
                m.datas.push(DataSpec { mode: DataMode::Active { mem, offset }, bytes: vec![mem as u8, off, 0xaa], explicit_mem: true });
            }
        }
        if dc == Some(true) {
            m.datas.push(DataSpec { mode: DataMode::Passive, bytes: vec![9, 9, 9, 9], explicit_mem: false });
            m.datas.push(DataSpec { mode: DataMode::Passive, bytes: vec![], explicit_mem: false });
        }
        m.data_count = dc;
        for i in 0..3u32 {
            m.exports.push(Export { name: format!("m{}", i), kind: ExportKind::Memory, index: i });
        }
        out.push(m);
    }
    // --- imports of all kinds interleaved, exports of all kinds, duplicate import names
    {
        let mut m = MSpec::default();
        m.types.push((vec![VT::I32], vec![VT::I64]));
        m.types.push((vec![], vec![]));
        m.types.push((vec![VT::I32], vec![VT::I64])); // duplicate type
        m.imports.push(Import { module: "a".into(), field: "f".into(), kind: ImportKind::Func(0) });
        m.imports.push(Import { module: "a".into(), field: "g".into(), kind: ImportKind::Global(GlobalTy { ty: VT::I64, mutable: true }) });
        m.imports.push(Import { module: "a".into(), field: "f".into(), kind: ImportKind::Func(2) }); // same name again
        m.imports.push(Import { module: "".into(), field: "".into(), kind: ImportKind::Table(TableTy { elem: VT::ExternRef, lim: Limits::new(1, Some(1)) }) });
        m.imports.push(Import { module: "b".into(), field: "m".into(), kind: ImportKind::Memory(Limits::new(0, Some(0))) });
        m.imports.push(Import { module: "a".into(), field: "h".into(), kind: ImportKind::Func(1) });
        m.funcs.push(FuncSpec { ty: 1, locals: vec![], code: vec![0x0b] });
        m.exports.push(Export { name: "".into(), kind: ExportKind::Func, index: 3 });
        m.exports.push(Export { name: "f0".into(), kind: ExportKind::Func, index: 0 });
        m.exports.push(Export { name: "f1".into(), kind: ExportKind::Func, index: 1 });
        m.exports.push(Export { name: "g".into(), kind: ExportKind::Global, index: 0 });
        m.exports.push(Export { name: "t".into(), kind: ExportKind::Table, index: 0 });
        m.exports.push(Export { name: "m".into(), kind: ExportKind::Memory, index: 0 });
        m.start = Some(2);
        out.push(m);
    }
    out.into_iter().map(|m| m.encode()).filter(|b| optable::valid(b)).collect()
}

pub fn attr_modules() -> &'static Vec<Vec<u8>> {
    static C: OnceLock<Vec<Vec<u8>>> = OnceLock::new();
    C.get_or_init(attr_modules_build)
}

pub fn attr_specs() -> Vec<String> {
    (0..attr_modules().len()).map(|i| format!("census:attr:{}", i)).collect()
}

/// Census functions whose operator names an entity (function, global, table, memory, type, data, element):
/// each alone, exported, in the padded environment - the instruction operand is then the only path to
/// the entity it names, next to 130 unreferenced siblings.
pub fn gcedge_op_specs() -> Vec<String> {
    let tab = optable::table();
    census_funcs()
        .iter()
        .enumerate()
        .filter(|(_, f)| {
            tab.iter().find(|e| e.info.name == f.op).map(|e| e.info.fields.iter().any(|(n, t)| *t == "memarg" || *t == "blockty" || matches!(ops::field_ref_kind(n), Some(k) if k != ops::RefKind::Local && k != ops::RefKind::Label))).unwrap_or(false)
        })
        .map(|(i, _)| format!("census:gcedge:{}", i))
        .collect()
}

pub fn gcedge_op_module(k: usize) -> Option<Vec<u8>> {
    let f = census_funcs().get(k)?;
    let mut m = census_env();
    let t = m.ty(&f.params, &f.results);
    m.funcs.push(FuncSpec { ty: t, locals: vec![(EXTRA_LOCALS, VT::I32)], code: f.code.clone() });
    m.exports.push(Export { name: format!("{} [{}]", f.op, f.variant), kind: ExportKind::Func, index: PAD });
    Some(m.encode())
}

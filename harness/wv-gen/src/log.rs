//! Append-only event log shared by the subject process (driver) and the
//! oracle process (judge). A record is a kind plus a list of (key, bytes)
//! fields; numbers are stored as decimal strings. Framing:
//!   magic "WVR1" | u32 total_len | u16 kind_len kind | u32 nfields | { u16 klen key | u32 vlen val }*
//! A torn tail (process died mid-write) is detected by the length prefix and ignored.

use std::io::{Read, Write};

#[derive(Clone, Debug, Default)]
pub struct Rec {
    pub kind: String,
    pub fields: Vec<(String, Vec<u8>)>,
}

impl Rec {
    pub fn new(kind: &str) -> Rec {
        Rec { kind: kind.to_string(), fields: Vec::new() }
    }
    pub fn s(mut self, k: &str, v: &str) -> Rec {
        self.fields.push((k.to_string(), v.as_bytes().to_vec()));
        self
    }
    pub fn n(mut self, k: &str, v: u64) -> Rec {
        self.fields.push((k.to_string(), v.to_string().into_bytes()));
        self
    }
    pub fn b(mut self, k: &str, v: &[u8]) -> Rec {
        self.fields.push((k.to_string(), v.to_vec()));
        self
    }
    pub fn push_s(&mut self, k: &str, v: &str) {
        self.fields.push((k.to_string(), v.as_bytes().to_vec()));
    }
    pub fn push_n(&mut self, k: &str, v: u64) {
        self.fields.push((k.to_string(), v.to_string().into_bytes()));
    }
    pub fn push_b(&mut self, k: &str, v: &[u8]) {
        self.fields.push((k.to_string(), v.to_vec()));
    }
    pub fn get(&self, k: &str) -> Option<&[u8]> {
        self.fields.iter().find(|(kk, _)| kk == k).map(|(_, v)| v.as_slice())
    }
    pub fn get_all(&self, k: &str) -> Vec<&[u8]> {
        self.fields.iter().filter(|(kk, _)| kk == k).map(|(_, v)| v.as_slice()).collect()
    }
    pub fn str(&self, k: &str) -> Option<&str> {
        self.get(k).and_then(|v| std::str::from_utf8(v).ok())
    }
    pub fn str_or<'a>(&'a self, k: &str, d: &'a str) -> &'a str {
        self.str(k).unwrap_or(d)
    }
    pub fn num(&self, k: &str) -> Option<u64> {
        self.str(k).and_then(|s| s.parse().ok())
    }
    pub fn has(&self, k: &str) -> bool {
        self.get(k).is_some()
    }
    pub fn encode(&self) -> Vec<u8> {
        let mut body = Vec::new();
        body.extend_from_slice(&(self.kind.len() as u16).to_le_bytes());
        body.extend_from_slice(self.kind.as_bytes());
        body.extend_from_slice(&(self.fields.len() as u32).to_le_bytes());
        for (k, v) in &self.fields {
            body.extend_from_slice(&(k.len() as u16).to_le_bytes());
            body.extend_from_slice(k.as_bytes());
            body.extend_from_slice(&(v.len() as u32).to_le_bytes());
            body.extend_from_slice(v);
        }
        let mut out = Vec::with_capacity(body.len() + 8);
        out.extend_from_slice(b"WVR1");
        out.extend_from_slice(&(body.len() as u32).to_le_bytes());
        out.extend_from_slice(&body);
        out
    }
}

pub struct Writer {
    f: std::fs::File,
}

impl Writer {
    pub fn create(path: &str) -> std::io::Result<Writer> {
        Ok(Writer { f: std::fs::OpenOptions::new().create(true).append(true).open(path)? })
    }
    /// Write and flush to the OS (a later crash of this process cannot lose it).
    pub fn write(&mut self, r: &Rec) {
        self.f.write_all(&r.encode()).expect("event log write");
        let _ = self.f.flush();
    }
}

pub fn read_all(path: &str) -> std::io::Result<Vec<Rec>> {
    let mut buf = Vec::new();
    std::fs::File::open(path)?.read_to_end(&mut buf)?;
    Ok(parse_all(&buf))
}

pub fn parse_all(buf: &[u8]) -> Vec<Rec> {
    let mut out = Vec::new();
    let mut p = 0usize;
    while p + 8 <= buf.len() {
        if &buf[p..p + 4] != b"WVR1" {
            break;
        }
        let len = u32::from_le_bytes(buf[p + 4..p + 8].try_into().unwrap()) as usize;
        if p + 8 + len > buf.len() {
            break; // torn tail
        }
        let b = &buf[p + 8..p + 8 + len];
        p += 8 + len;
        let mut q = 0usize;
        let rd16 = |q: &mut usize| -> usize {
            let v = u16::from_le_bytes(b[*q..*q + 2].try_into().unwrap()) as usize;
            *q += 2;
            v
        };
        let rd32 = |q: &mut usize| -> usize {
            let v = u32::from_le_bytes(b[*q..*q + 4].try_into().unwrap()) as usize;
            *q += 4;
            v
        };
        let kl = rd16(&mut q);
        let kind = String::from_utf8_lossy(&b[q..q + kl]).to_string();
        q += kl;
        let nf = rd32(&mut q);
        let mut fields = Vec::with_capacity(nf);
        for _ in 0..nf {
            let kl = rd16(&mut q);
            let k = String::from_utf8_lossy(&b[q..q + kl]).to_string();
            q += kl;
            let vl = rd32(&mut q);
            fields.push((k, b[q..q + vl].to_vec()));
            q += vl;
        }
        out.push(Rec { kind, fields });
    }
    out
}

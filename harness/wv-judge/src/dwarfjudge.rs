//! C10: DWARF addresses follow their instructions and functions.

use crate::report::Report;
use crate::Case;
use serde_json::json;
use std::collections::{HashMap, HashSet};
use wv_oracle::dwarfread;
use wv_oracle::reach::{reach, ExtraRoots};
use wv_oracle::{decode, feat, iso};

const TOMBSTONE: u64 = 0xFFFF_FFFF;

pub fn run(c: &Case, rep: &mut Report) {
    let end = c.end.unwrap();
    if end.str("parse") != Some("ok") {
        if end.str("parse") == Some("panic") {
            let p = end.str_or("panic.parse", "?");
            rep.violation(c, &format!("C10/panic/{}", crate::basic::panic_signature(p)), &format!("parse with DWARF generation on panicked: {}", p), &[]);
        } else {
            rep.count("not-accepted", 1);
        }
        rep.held(c);
        return;
    }
    let input = c.input.unwrap_or(&[]);
    if feat::validate(input, false).is_err() {
        rep.inconclusive(c, "input-rejected-by-reference-validator");
        return;
    }
    let din = match decode::decode(input) {
        Ok(d) => d,
        Err(e) => {
            rep.inconclusive(c, &format!("input-decode:{}", e));
            return;
        }
    };
    let info_in = match dwarfread::read(&din) {
        Ok(Some(i)) => i,
        Ok(None) => {
            rep.inconclusive(c, "input-has-no-dwarf");
            return;
        }
        Err(e) => {
            rep.inconclusive(c, &format!("input-dwarf-unreadable:{}", e));
            return;
        }
    };
    let in_code = din.code_range.clone().map(|r| r.start).unwrap_or(0);
    // line number -> absolute input offset of the instruction the row designates
    let mut line_to_in: HashMap<u64, usize> = HashMap::new();
    let in_starts: HashSet<usize> = din.funcs.iter().filter_map(|f| f.body.as_ref()).flat_map(|b| b.ops.iter().map(|o| o.offset)).collect();
    for r in info_in.rows.iter().filter(|r| !r.end_sequence) {
        let abs = in_code + r.address as usize;
        if in_starts.contains(&abs) {
            line_to_in.insert(r.line, abs);
        }
    }
    // rows of input sequences a linker tombstoned (based at or beyond 0xFFFFFFF0): code that was removed before walrus
    // ever saw the module
    let dead_lines: HashSet<u64> = info_in.rows.iter().filter(|r| !r.end_sequence && r.address >= 0xFFFF_FFF0).map(|r| r.line).collect();
    if !dead_lines.is_empty() {
        rep.count("inputs-with-a-tombstoned-line-sequence", 1);
    }
    rep.observe("input-forms", &format!("v{} sequences={} file0={}", info_in.version, if info_in.sequences <= 1 && din.funcs.iter().filter(|f| f.body.is_some()).count() > 1 { "spanning" } else { "per-function" }, info_in.rows.iter().any(|r| r.file == 0)));
    rep.observe("function-counts", &din.funcs.iter().filter(|f| f.body.is_some()).count().to_string());
    for f in din.funcs.iter().filter_map(|f| f.body.as_ref()) {
        let sz = f.range.end - f.range.start;
        if [126, 127, 128, 129, 16383, 16384].contains(&sz) {
            rep.observe("boundary-body-sizes-in-input", &sz.to_string());
        }
    }
    for (k, v) in &end.fields {
        if k.starts_with("panic.") {
            let p = std::str::from_utf8(v).unwrap_or("?");
            rep.violation(c, &format!("C10/panic/{}", crate::basic::panic_signature(p)), &format!("{}: {}", k, p), &[]);
        }
    }
    let mut rows_checked = 0u64;
    // "reedit": the module was emitted once, then instructions were inserted, then it was emitted again - the
    // second emission is judged like any edited output
    for label in ["emit", "gc", "reedit"] {
        let out = match end.get(&format!("out.{}", label)) {
            Some(o) => o,
            None => continue,
        };
        let blob = [("out.wasm", &out[..])];
        if let Err(e) = feat::validate(out, false) {
            rep.violation(c, "C10/output-invalid", &e, &blob);
            continue;
        }
        let dout = match decode::decode(out) {
            Ok(d) => d,
            Err(e) => {
                rep.violation(c, "C10/output-undecodable", &e, &blob);
                continue;
            }
        };
        let info_out = match dwarfread::read(&dout) {
            Ok(Some(i)) => i,
            Ok(None) => {
                rep.violation(c, "C10/dwarf-missing-in-output", &format!("{}: DWARF generation is on and the input has DWARF, the output has none", label), &blob);
                continue;
            }
            Err(e) => {
                rep.violation(c, "C10/output-dwarf-unreadable", &format!("{}: {}", label, e), &blob);
                continue;
            }
        };
        let keep = if label == "gc" { Some(reach(&din, &ExtraRoots::default()).keep) } else { None };
        let inserted = (end.num("inserted").unwrap_or(0) > 0 && label == "emit") || label == "reedit";
        let r = iso::compare_opts(&din, &dout, keep.as_ref(), iso::IsoOpts { skip_output_markers: inserted });
        if let Some(p) = r.problems.iter().find(|p| !p.sig.ends_with("-added")) {
            rep.inconclusive(c, &format!("bijection-unavailable(reported by C03/C04/C06):{}", p.sig));
            continue;
        }
        let out_code = dout.code_range.clone().map(|r| r.start).unwrap_or(0);
        let out_code_end = dout.code_range.clone().map(|r| r.end).unwrap_or(0);
        let mut expected: HashMap<usize, usize> = HashMap::new();
        let mut alt: HashMap<usize, usize> = HashMap::new();
        for p in r.func_pairing.values() {
            for (a, b) in &p.ops_keep_tail {
                expected.insert(*a, *b);
            }
            for (a, b) in &p.ops {
                expected.insert(*a, *b);
            }
            for (a, b) in &p.alt_ops {
                alt.insert(*a, *b);
            }
        }
        // function extents of the output (relative to the code section contents)
        let extents: Vec<(u32, u64, u64)> = dout.funcs.iter().enumerate().filter_map(|(i, f)| f.body.as_ref().map(|b| (i as u32, (b.entry_start - out_code) as u64, (b.range.end - out_code) as u64))).collect();
        let in_function = |addr: u64| extents.iter().find(|(_, s, e)| addr >= *s && addr < *e).map(|x| x.0);
        // --- rows
        let mut seen_lines: HashSet<u64> = HashSet::new();
        let mut wrong: Vec<String> = Vec::new();
        let mut deltas: HashSet<i64> = HashSet::new();
        for row in info_out.rows.iter().filter(|r| !r.end_sequence) {
            let a = match line_to_in.get(&row.line) {
                Some(a) => *a,
                None => {
                    if dead_lines.contains(&row.line) && row.address < 0xFFFF_FFF0 {
                        if let Some(f) = in_function(row.address) {
                            rep.violation(c, "C10/row-of-a-tombstoned-input-sequence-points-into-a-function", &format!("{}: line {} belonged to a sequence based at 0xFFFFFFFF in the input; in the output it has address {:#x} inside function {}", label, row.line, row.address, f), &blob);
                        }
                    }
                    continue; // not a row of an instruction start in the input
                }
            };
            rows_checked += 1;
            seen_lines.insert(row.line);
            match expected.get(&a) {
                Some(b) => {
                    let want = (*b - out_code) as u64;
                    let alt_ok = alt.get(&a).map(|x| (*x - out_code) as u64 == row.address).unwrap_or(false);
                    if row.address != want && !alt_ok {
                        deltas.insert(row.address as i64 - want as i64);
                        if wrong.len() < 3 {
                            wrong.push(format!("line {} (input offset {:#x}): address {:#x}, the instruction is at {:#x}", row.line, a, row.address, want));
                        }
                    }
                }
                None => {
                    // the instruction does not survive: the row must be dropped or tombstoned, not left inside some function
                    if row.address != TOMBSTONE && row.address != 0 {
                        if let Some(f) = in_function(row.address) {
                            rep.violation(c, "C10/row-of-removed-code-points-into-a-function", &format!("{}: line {} belonged to removed code (input offset {:#x}) but now has address {:#x} inside output function {}", label, row.line, a, row.address, f), &blob);
                        }
                    }
                }
            }
        }
        if !wrong.is_empty() {
            let sig = if deltas.len() == 1 { format!("C10/row-address/delta={}", deltas.iter().next().unwrap()) } else { "C10/row-address/varying".to_string() };
            rep.violation(c, &sig, &format!("{}: rows do not designate the start of the same instruction: {}", label, wrong.join("; ")), &blob);
        }
        // every surviving row must still be there
        let mut missing = 0;
        let mut example = None;
        for (line, a) in &line_to_in {
            if expected.contains_key(a) && !seen_lines.contains(line) {
                missing += 1;
                if example.is_none() {
                    example = Some((*line, *a));
                }
            }
        }
        if missing > 0 {
            rep.violation(c, "C10/surviving-row-dropped", &format!("{}: {} rows of instructions that are still emitted are missing from the output line table, e.g. line {} (input offset {:#x})", label, missing, example.unwrap().0, example.unwrap().1), &blob);
        }
        // --- subprograms
        for sp in &info_out.subprograms {
            let fi: u32 = match sp.name.strip_prefix('f').and_then(|s| s.parse().ok()) {
                Some(x) => x,
                None => continue,
            };
            rep.count("subprograms-checked", 1);
            let low = sp.low_pc.unwrap_or(TOMBSTONE);
            let high = match (sp.high_pc, sp.high_is_offset) {
                (Some(h), true) => low.wrapping_add(h),
                (Some(h), false) => h,
                _ => low,
            };
            match r.funcs.get(fi).and_then(|fo| dout.funcs.get(fo as usize).and_then(|f| f.body.as_ref()).map(|b| (fo, b))) {
                Some((fo, body)) => {
                    let starts: Vec<u64> = body.ops.iter().map(|o| (o.offset - out_code) as u64).collect();
                    let all_inside = starts.iter().all(|s| *s >= low && *s < high);
                    let others = extents.iter().filter(|(i, _, _)| *i != fo).any(|(i, _, _)| dout.funcs[*i as usize].body.as_ref().map(|b| b.ops.iter().any(|o| { let s = (o.offset - out_code) as u64; s >= low && s < high })).unwrap_or(false));
                    // which instructions are left out?
                    let uncovered: Vec<usize> = body.ops.iter().enumerate().filter(|(_, o)| { let s = (o.offset - out_code) as u64; !(s >= low && s < high) }).map(|(i, _)| i).collect();
                    let first_original = body.ops.iter().enumerate().position(|(i, o)| {
                        let is_marker = matches!(o.op, wasmparser::Operator::I64Const { value } if value == iso::MARKER);
                        let after_marker = i > 0 && matches!(body.ops[i - 1].op, wasmparser::Operator::I64Const { value } if value == iso::MARKER) && matches!(o.op, wasmparser::Operator::Drop);
                        !is_marker && !after_marker
                    }).unwrap_or(0);
                    let only_inserted_prefix = inserted && !others && !uncovered.is_empty() && uncovered.iter().all(|i| *i < first_original);
                    if only_inserted_prefix {
                        rep.violation(c, "C10/subprogram-range/inserted-prefix-not-covered", &format!("{}: subprogram {} has range [{:#x}, {:#x}); the {} instructions a transformation inserted before the first original instruction of its function (output #{}) are outside it", label, sp.name, low, high, uncovered.len(), fo), &blob);
                    } else if !all_inside || others {
                        rep.violation(c, if others { "C10/subprogram-range-covers-another-function" } else { "C10/subprogram-range-does-not-cover-its-function" }, &format!("{}: subprogram {} has range [{:#x}, {:#x}) but its function (output #{}) has instructions in [{:#x}, {:#x}]", label, sp.name, low, high, fo, starts.first().unwrap_or(&0), starts.last().unwrap_or(&0)), &blob);
                    }
                }
                None => {
                    // function removed: an end given as an address is an address of removed code like the start is; it
                    // must not come out pointing at code that is still there
                    if !sp.high_is_offset {
                        if let Some(h) = sp.high_pc {
                            if h != TOMBSTONE && h != 0 && extents.iter().any(|(_, s, e)| h >= *s && h <= *e) {
                                rep.violation(c, "C10/end-address-of-removed-function-points-at-live-code", &format!("{}: subprogram {} (function removed) has low_pc {:#x} and an end address {:#x}, which lies in the emitted code", label, sp.name, low, h), &blob);
                            }
                        }
                    }
                    // function removed: the range must not cover live code
                    if low != TOMBSTONE && low != 0 {
                        let covers = extents.iter().any(|(i, _, _)| dout.funcs[*i as usize].body.as_ref().map(|b| b.ops.iter().any(|o| { let s = (o.offset - out_code) as u64; s >= low && s < high })).unwrap_or(false));
                        if covers {
                            rep.violation(c, "C10/subprogram-of-removed-function-covers-live-code", &format!("{}: subprogram {} (function removed) has range [{:#x}, {:#x}) over code that is still there", label, sp.name, low, high), &blob);
                        }
                    }
                }
            }
        }
        // nested entries: the range of a lexical block of an emitted function must not reach into another function
        for (sub, lo, hi) in &info_out.blocks {
            let fi: u32 = match sub.strip_prefix('f').and_then(|s| s.parse().ok()) {
                Some(x) => x,
                None => continue,
            };
            if let Some(fo) = r.funcs.get(fi) {
                if let Some((_, a, b)) = extents.iter().find(|(i, _, _)| *i == fo) {
                    rep.count(if *lo >= *a && *hi <= *b && lo < hi { "lexical-blocks-inside-their-function" } else { "lexical-blocks-not-inside-their-function" }, 1);
                    if *lo != TOMBSTONE && *lo != 0 && extents.iter().any(|(i, s, e)| *i != fo && *lo < *e && *hi > *s + 1 && lo < hi) {
                        rep.violation(c, "C10/nested-entry-range-covers-another-function", &format!("{}: a lexical block of subprogram {} has range [{:#x}, {:#x}) but its function (output #{}) is at [{:#x}, {:#x})", label, sub, lo, hi, fo, a, b), &blob);
                    }
                }
            }
        }
        let _ = out_code_end;
        rep.observe("labels", &format!("{}{}", label, if inserted { "+inserted" } else { "" }));
    }
    rep.count("rows-checked", rows_checked);
    rep.count("nested-entries-in-input-units", info_in.nested_entries as u64);
    if rows_checked >= 3 {
        rep.nontrivial(c, "");
    }
    rep.sample(json!({"spec": c.spec, "scenario": c.scenario, "input_rows": info_in.rows.len(), "rows_checked": rows_checked, "subprograms": info_in.subprograms.len()}));
    rep.held(c);
}

//! C06 (GC keeps behaviour and everything reachable) and C07 (GC is precise and idempotent).

use crate::exec;
use crate::report::Report;
use crate::Case;
use serde_json::json;
use wv_oracle::reach::{reach, ExtraRoots};
use wv_oracle::{decode, feat, iso};

fn extra_roots(end: &wv_gen::log::Rec) -> ExtraRoots {
    let mut r = ExtraRoots::default();
    if let Some(s) = end.str("gc.roots") {
        for l in s.lines() {
            let mut it = l.split(' ');
            let (k, i) = (it.next().unwrap_or(""), it.next().and_then(|x| x.parse::<u32>().ok()));
            if let Some(i) = i {
                match k {
                    "F" => r.funcs.push(i),
                    "G" => r.globals.push(i),
                    "T" => r.tables.push(i),
                    "M" => r.memories.push(i),
                    _ => {}
                }
            }
        }
    }
    r
}

fn count(v: &[bool]) -> usize {
    v.iter().filter(|x| **x).count()
}

pub fn run(c: &Case, rep: &mut Report, prop: &str, seed: u64) {
    let end = c.end.unwrap();
    if end.str("parse") != Some("ok") {
        rep.count("not-accepted", 1);
        rep.held(c);
        return;
    }
    let input = c.input.unwrap_or(&[]);
    if feat::validate(input, false).is_err() {
        rep.inconclusive(c, "input-rejected-by-reference-validator");
        return;
    }
    // roots added through the API before the pass: the reference is the module as emitted after that edit
    let edited = end.str("addroots").is_some() || end.has("panic.addroots");
    if let Some(p) = end.str("panic.addroots") {
        rep.violation(c, &format!("{}/panic/{}", prop, crate::basic::panic_signature(p)), &format!("adding roots through the API: {}", p), &[]);
        return;
    }
    let input = if edited {
        match end.get("out.pre") {
            Some(p) => {
                if let Err(e) = feat::validate(p, false) {
                    // an invalid output after a well-formed edit is C02's subject
                    rep.inconclusive(c, &format!("edited-module-invalid(reported by C02): {}", e.chars().take(60).collect::<String>()));
                    return;
                }
                rep.count("cases-with-roots-added-through-the-api", 1);
                for w in end.str("addroots").unwrap_or("").split(',').filter(|w| !w.is_empty()) {
                    rep.observe("roots-added-through-the-api", w);
                }
                p
            }
            None => {
                rep.inconclusive(c, "no-output-after-edit(reported by C02)");
                return;
            }
        }
    } else {
        input
    };
    for (k, v) in &end.fields {
        if k.starts_with("panic.gc") {
            let p = std::str::from_utf8(v).unwrap_or("?");
            rep.violation(c, &format!("{}/panic/{}", prop, crate::basic::panic_signature(p)), &format!("{}: {}", k, p), &[]);
        }
    }
    let out = match end.get("out.gc") {
        Some(o) => o,
        None => {
            if !end.fields.iter().any(|(k, _)| k.starts_with("panic.gc")) {
                rep.inconclusive(c, "no-gc-output");
            }
            return;
        }
    };
    let din = match decode::decode(input) {
        Ok(d) => d,
        Err(e) => {
            rep.inconclusive(c, &format!("input-decode:{}", e));
            return;
        }
    };
    let extra = extra_roots(end);
    let rin = reach(&din, &extra);
    for e in &rin.edges_seen {
        rep.observe("edge-kinds-on-input", e);
    }
    if let Err(e) = feat::validate(out, false) {
        let sig: String = e.split(" (at offset").next().unwrap_or(&e).chars().take(70).collect();
        if prop == "C06" {
            rep.violation(c, &format!("C06/invalid-output/{}", crate::basic::panic_signature(&format!("v: {}", sig))), &format!("GC output rejected by the reference validator: {}", e), &[("out.gc.wasm", out)]);
        } else {
            rep.inconclusive(c, "gc-output-invalid(reported by C06)");
        }
        return;
    }
    let dout = match decode::decode(out) {
        Ok(d) => d,
        Err(e) => {
            rep.violation(c, &format!("{}/output-undecodable", prop), &e, &[("out.gc.wasm", out)]);
            return;
        }
    };
    let removed = (din.funcs.len() - count(&rin.keep.funcs)) + (din.globals.len() - count(&rin.keep.globals)) + (din.tables.len() - count(&rin.keep.tables))
        + (din.memories.len() - count(&rin.keep.memories)) + (din.elems.len() - count(&rin.keep.elems)) + (din.datas.len() - count(&rin.keep.datas));
    rep.count("entities-expected-removed", removed as u64);
    rep.count("entities-expected-kept", (count(&rin.keep.funcs) + count(&rin.keep.globals) + count(&rin.keep.tables) + count(&rin.keep.memories) + count(&rin.keep.elems) + count(&rin.keep.datas)) as u64);
    if prop == "C06" {
        // exports unchanged
        let mut ein: Vec<(String, decode::EKind)> = din.exports.iter().map(|e| (e.name.clone(), e.kind)).collect();
        let mut eout: Vec<(String, decode::EKind)> = dout.exports.iter().map(|e| (e.name.clone(), e.kind)).collect();
        ein.sort();
        eout.sort();
        if ein != eout {
            rep.violation(c, "C06/exports-changed", &format!("exports {:?} became {:?}", ein, eout), &[("out.gc.wasm", out)]);
        }
        // reachable => kept, unchanged
        let r = iso::compare(&din, &dout, Some(&rin.keep));
        let mut seen = std::collections::BTreeSet::new();
        for p in r.problems.iter().filter(|p| !p.sig.ends_with("-added")) {
            if seen.insert(p.sig.clone()) {
                rep.violation(c, &format!("C06/{}", p.sig), &p.detail, &[("out.gc.wasm", out)]);
            }
        }
        // a second declared segment may be added by the pass for ref.func targets (fix of the undeclared-function defect):
        // it is reported by the isomorphism as element-segment-added, which the filter above tolerates only as "-added"
        // behaviour through exports
        let case_seed = seed ^ wv_gen::rng::fnv64(c.spec.as_bytes());
        let calls = exec::plan_calls(input, case_seed, 10).unwrap_or_default();
        let a = exec::observe(input, &calls, Box::new(exec::StdHost::new()));
        if a.instantiate == "ok" {
            let b = exec::observe(out, &calls, Box::new(exec::StdHost::new()));
            rep.count("calls-compared", a.steps.len() as u64);
            rep.count("instructions-executed-on-input", a.instrs);
            if let Some((sig, detail)) = exec::diff(&a, &b, &calls) {
                rep.violation(c, &format!("C06/behaviour/{}", sig), &detail, &[("out.gc.wasm", out)]);
            }
        } else {
            rep.count("exec-skipped-input-does-not-instantiate", 1);
        }
        if removed > 0 {
            rep.nontrivial(c, "");
        }
        rep.sample(json!({"spec": c.spec, "expected_removed": removed, "funcs_in": din.funcs.len(), "funcs_out": dout.funcs.len(), "roots": end.str("gc.roots")}));
    } else {
        // C07: precise: everything present in the output is reachable in the output
        let rout = wv_oracle::reach::reach_opts(&dout, &ExtraRoots::default(), true);
        // custom-section roots of the input are legitimately kept: find them through the isomorphism
        let r = iso::compare(&din, &dout, Some(&rin.keep));
        let mut allowed = ExtraRoots::default();
        for f in &extra.funcs {
            if let Some(y) = r.funcs.get(*f) {
                allowed.funcs.push(y);
            }
        }
        for f in &extra.globals {
            if let Some(y) = r.globals.get(*f) {
                allowed.globals.push(y);
            }
        }
        for f in &extra.tables {
            if let Some(y) = r.tables.get(*f) {
                allowed.tables.push(y);
            }
        }
        for f in &extra.memories {
            if let Some(y) = r.memories.get(*f) {
                allowed.memories.push(y);
            }
        }
        let rout = if extra.funcs.is_empty() && extra.globals.is_empty() && extra.tables.is_empty() && extra.memories.is_empty() { rout } else { reach(&dout, &allowed) };
        for (kind, v) in [("function", &rout.keep.funcs), ("global", &rout.keep.globals), ("table", &rout.keep.tables), ("memory", &rout.keep.memories), ("element-segment", &rout.keep.elems), ("data-segment", &rout.keep.datas), ("type", &rout.keep.types)] {
            let dead: Vec<usize> = v.iter().enumerate().filter(|(_, k)| !**k).map(|(i, _)| i).collect();
            if !dead.is_empty() {
                rep.violation(c, &format!("C07/unreachable-{}-kept", kind), &format!("after GC the output still contains {}(s) {:?} that nothing reachable from the roots refers to", kind, dead), &[("out.gc.wasm", out)]);
            }
        }
        // idempotent
        match end.get("out.gc2") {
            Some(o2) => {
                rep.count("idempotence-compared", 1);
                if o2 != out {
                    rep.violation(c, "C07/second-run-changes-output", &format!("GC run twice emits {} bytes, once {} bytes", o2.len(), out.len()), &[("out.gc.wasm", out), ("out.gc2.wasm", o2)]);
                }
            }
            None => rep.inconclusive(c, "no-second-gc-output"),
        }
        if removed > 0 {
            rep.nontrivial(c, "");
        }
        rep.sample(json!({"spec": c.spec, "expected_removed": removed, "out_funcs": dout.funcs.len(), "out_types": dout.types.len(), "residual_memory": rout.residual_memory}));
    }
    rep.held(c);
}

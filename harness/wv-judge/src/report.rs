//! Verdict collection: held / violated (with replay directory) / inconclusive,
//! plus what was observed (for the evidence file).

use crate::Case;
use serde_json::{json, Map, Value};
use std::collections::{BTreeMap, BTreeSet};
use wv_gen::rng::fnv64;

pub struct Report {
    pub prop: String,
    pub replay_root: String,
    pub cases: u64,
    pub held: u64,
    pub violations: Vec<Value>,
    pub inconclusive: BTreeMap<String, u64>,
    pub nontrivial: BTreeSet<u64>,
    pub counters: BTreeMap<String, u64>,
    pub sets: BTreeMap<String, BTreeSet<String>>,
    pub samples: Vec<Value>,
    pub harness_errors: Vec<String>,
    cur_violated: bool,
    cur_inconclusive: bool,
}

impl Report {
    pub fn new(prop: &str, replay_root: &str) -> Report {
        Report {
            prop: prop.to_string(),
            replay_root: replay_root.to_string(),
            cases: 0,
            held: 0,
            violations: vec![],
            inconclusive: BTreeMap::new(),
            nontrivial: BTreeSet::new(),
            counters: BTreeMap::new(),
            sets: BTreeMap::new(),
            samples: vec![],
            harness_errors: vec![],
            cur_violated: false,
            cur_inconclusive: false,
        }
    }
    pub fn begin_case(&mut self, _c: &Case) {
        self.cases += 1;
        self.cur_violated = false;
        self.cur_inconclusive = false;
    }
    pub fn count(&mut self, k: &str, n: u64) {
        *self.counters.entry(k.to_string()).or_insert(0) += n;
    }
    pub fn observe(&mut self, set: &str, item: &str) {
        let s = self.sets.entry(set.to_string()).or_default();
        if s.len() < 5000 {
            s.insert(item.to_string());
        }
    }
    pub fn harness_error(&mut self, msg: &str) {
        if self.harness_errors.len() < 20 {
            self.harness_errors.push(msg.to_string());
        }
    }
    /// The case counted as a distinct non-trivial execution (key: input hash x scenario x extra).
    pub fn nontrivial(&mut self, c: &Case, extra: &str) {
        let mut h = fnv64(c.input.unwrap_or(&[]));
        h ^= fnv64(c.scenario.as_bytes()).rotate_left(17);
        h ^= fnv64(extra.as_bytes()).rotate_left(33);
        self.nontrivial.insert(h);
    }
    pub fn held(&mut self, _c: &Case) {
        if !self.cur_violated && !self.cur_inconclusive {
            self.held += 1;
        }
    }
    pub fn inconclusive(&mut self, _c: &Case, reason: &str) {
        self.cur_inconclusive = true;
        *self.inconclusive.entry(reason.to_string()).or_insert(0) += 1;
    }
    pub fn sample(&mut self, v: Value) {
        if self.samples.len() < 6 {
            self.samples.push(v);
        }
    }
    /// Record a violation; writes a replay directory with the input, outputs and the verdict.
    pub fn violation(&mut self, c: &Case, signature: &str, detail: &str, blobs: &[(&str, &[u8])]) {
        self.cur_violated = true;
        let key = format!("{:016x}", fnv64(format!("{}|{}|{}", c.spec, c.scenario, signature).as_bytes()));
        let dir = format!("{}/{}/{}", self.replay_root, self.prop, key);
        if self.violations.len() < 200 {
            let _ = std::fs::create_dir_all(&dir);
            if let Some(i) = c.input {
                let _ = std::fs::write(format!("{}/input.wasm", dir), i);
            }
            for (name, b) in blobs {
                let _ = std::fs::write(format!("{}/{}", dir, name), b);
            }
            let scen = json!({"property": self.prop, "spec": c.spec, "scenario": c.scenario, "idx": c.idx});
            let _ = std::fs::write(format!("{}/scenario.json", dir), serde_json::to_string_pretty(&scen).unwrap());
            let _ = std::fs::write(format!("{}/verdict.txt", dir), format!("property={}\nsignature={}\n{}\n", self.prop, signature, detail));
        }
        self.violations.push(json!({
            "idx": c.idx, "spec": c.spec, "scenario": c.scenario, "signature": signature,
            "detail": detail.chars().take(600).collect::<String>(), "replay": dir,
        }));
    }
    pub fn write(&self, path: &str) {
        let mut m = Map::new();
        m.insert("property".into(), json!(self.prop));
        m.insert("cases".into(), json!(self.cases));
        m.insert("held".into(), json!(self.held));
        m.insert("violations".into(), Value::Array(self.violations.clone()));
        m.insert("inconclusive".into(), json!(self.inconclusive));
        m.insert("nontrivial".into(), json!(self.nontrivial.iter().collect::<Vec<_>>()));
        m.insert("counters".into(), json!(self.counters));
        m.insert("sets".into(), json!(self.sets));
        m.insert("samples".into(), Value::Array(self.samples.clone()));
        m.insert("harness_errors".into(), json!(self.harness_errors));
        std::fs::write(path, serde_json::to_string(&Value::Object(m)).unwrap()).expect("write report");
    }
}

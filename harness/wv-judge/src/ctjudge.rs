//! C11: the code-offset map handed to custom sections is exact.

use crate::report::Report;
use crate::Case;
use serde_json::json;
use std::collections::{HashMap, HashSet};
use wasmparser::Operator;
use wv_oracle::reach::{reach, ExtraRoots};
use wv_oracle::{decode, feat, iso};

pub fn run(c: &Case, rep: &mut Report) {
    let end = c.end.unwrap();
    if end.str("parse") != Some("ok") {
        rep.count("not-accepted", 1);
        rep.held(c);
        return;
    }
    let input = c.input.unwrap_or(&[]);
    if feat::validate(input, false).is_err() {
        rep.inconclusive(c, "input-rejected-by-reference-validator");
        return;
    }
    let din = match decode::decode(input) {
        Ok(d) => d,
        Err(e) => {
            rep.inconclusive(c, &format!("input-decode:{}", e));
            return;
        }
    };
    // every instruction start of the input, and whether it is live
    let mut in_starts: HashMap<usize, (u32, bool)> = HashMap::new();
    for (fi, f) in din.funcs.iter().enumerate() {
        if let Some(b) = &f.body {
            let live: HashSet<usize> = wv_oracle::norm::normalise(&b.ops).iter().map(|o| o.offset).collect();
            for o in &b.ops {
                in_starts.insert(o.offset, (fi as u32, live.contains(&o.offset) && !matches!(o.op, Operator::Nop)));
            }
        }
    }
    // a second emission after everything that kept code alive was removed: where no function is left, nothing
    // may be reported
    if let (Some(out), Some(0)) = (end.get("out.emptied"), end.num("emptied.local_funcs")) {
        rep.count("second-emissions-without-any-function", 1);
        let pairs = end.str_or("ct.map.emptied", "").lines().filter(|l| !l.is_empty()).count();
        let ranges = end.str_or("ct.ranges.emptied", "").lines().filter(|l| !l.is_empty()).count();
        if pairs != 0 || ranges != 0 {
            rep.violation(c, "C11/map-of-an-earlier-emission-reported", &format!("after removing every function the module was emitted again: the custom section was handed {} instruction pairs and {} function ranges for a binary without code", pairs, ranges), &[("out.wasm", out)]);
        }
    }
    // ... or only a function built afterwards is left: no pair (it has no input location), and the reported
    // code-section start and range must be those of the emitted binary
    if let (Some(out), Some(1), Some(1)) = (end.get("out.emptied"), end.num("emptied.local_funcs"), end.num("emptied.built")) {
        if let Ok(dout) = decode::decode(out) {
            if let Some(cr) = &dout.code_range {
                rep.count("second-emissions-with-only-a-built-function", 1);
                let start = end.num("ct.start.emptied").unwrap_or(u64::MAX) as i64;
                if start != cr.start as i64 {
                    rep.violation(c, &format!("C11/code-section-start/delta={}", start - cr.start as i64), &format!("emptied: only a builder-made function is emitted; reported code_section_start {} but the code section contents start at {}", start, cr.start), &[("out.wasm", out)]);
                }
                let pairs = end.str_or("ct.map.emptied", "").lines().filter(|l| !l.is_empty()).count();
                if pairs != 0 {
                    rep.violation(c, "C11/pair-for-an-instruction-without-input-location", &format!("emptied: {} pairs reported although the only function was built through the API", pairs), &[("out.wasm", out)]);
                }
                let body = dout.funcs.iter().filter_map(|f| f.body.as_ref()).next();
                let ranges: Vec<(usize, usize)> = end.str_or("ct.ranges.emptied", "").lines().filter_map(|l| { let mut it = l.split(':'); it.next(); Some((it.next()?.parse().ok()?, it.next()?.parse().ok()?)) }).collect();
                if let Some(b) = body {
                    if ranges.len() != 1 || ranges[0] != (b.entry_start, b.range.end) {
                        rep.violation(c, "C11/function-range", &format!("emptied: ranges {:?} reported, the only code entry of the emitted binary is [{}, {})", ranges, b.entry_start, b.range.end), &[("out.wasm", out)]);
                    }
                }
            }
        }
    }
    let mut pairs_checked = 0u64;
    let loc_shift: usize = if end.num("cfg").map(|c| c & 128 != 0).unwrap_or(false) { 1_000_000 } else { 0 };
    if loc_shift > 0 {
        rep.count("cases-with-an-on_instr_loc-callback", 1);
    }
    for label in ["emit", "gc"] {
        let out = match end.get(&format!("out.{}", label)) {
            Some(o) => o,
            None => continue,
        };
        let blob = [("out.wasm", &out[..])];
        let calls = end.num(&format!("ct.calls.{}", label)).unwrap_or(0);
        if calls != 1 {
            rep.violation(c, "C11/transform-delivery-count", &format!("{}: apply_code_transform was called {} times for one emit (preserve_code_transform is on)", label, calls), &blob);
            continue;
        }
        let dout = match decode::decode(out) {
            Ok(d) => d,
            Err(e) => {
                rep.violation(c, "C11/output-undecodable", &e, &blob);
                continue;
            }
        };
        let keep = if label == "gc" { Some(reach(&din, &ExtraRoots::default()).keep) } else { None };
        let inserted = end.num("inserted").unwrap_or(0) > 0 && label == "emit";
        let r = iso::compare_opts(&din, &dout, keep.as_ref(), iso::IsoOpts { skip_output_markers: inserted });
        if let Some(p) = r.problems.iter().find(|p| !p.sig.ends_with("-added")) {
            rep.inconclusive(c, &format!("bijection-unavailable(reported by C03/C04/C06):{}:{}", label, p.sig));
            continue;
        }
        // --- code section start
        let start = end.num(&format!("ct.start.{}", label)).unwrap_or(u64::MAX) as i64;
        if let Some(cr) = &dout.code_range {
            rep.count("code-section-starts-checked", 1);
            if start != cr.start as i64 {
                rep.violation(
                    c,
                    &format!("C11/code-section-start/delta={}", start - cr.start as i64),
                    &format!("{}: reported code_section_start {} but the code section contents of the emitted binary start at {} ({} functions)", label, start, cr.start, dout.funcs.iter().filter(|f| f.body.is_some()).count()),
                    &blob,
                );
            }
        }
        // --- function ranges
        let mut ranges_seen = 0;
        for l in end.str_or(&format!("ct.ranges.{}", label), "").lines() {
            let mut it = l.split(':');
            let (f, a, b) = (it.next().unwrap_or("-"), it.next().and_then(|x| x.parse::<usize>().ok()), it.next().and_then(|x| x.parse::<usize>().ok()));
            let (a, b) = match (a, b) {
                (Some(a), Some(b)) => (a, b),
                _ => continue,
            };
            let fi: u32 = match f.parse() {
                Ok(x) => x,
                Err(_) => continue,
            };
            ranges_seen += 1;
            match r.funcs.get(fi).and_then(|fo| dout.funcs.get(fo as usize)).and_then(|f| f.body.as_ref()) {
                Some(body) => {
                    rep.count("function-ranges-checked", 1);
                    if a != body.entry_start || b != body.range.end {
                        rep.violation(c, "C11/function-range", &format!("{}: function in#{} reported at [{}, {}) but its entry in the emitted code section is [{}, {})", label, fi, a, b, body.entry_start, body.range.end), &blob);
                    }
                }
                None => rep.violation(c, "C11/function-range-for-unemitted-function", &format!("{}: range reported for input function {} which is not in the output", label, fi), &blob),
            }
        }
        let emitted_with_preimage = r.funcs.fwd.iter().enumerate().filter(|(i, o)| o.is_some() && din.funcs[*i].body.is_some()).count();
        if ranges_seen < emitted_with_preimage {
            rep.violation(c, "C11/function-range-missing", &format!("{}: {} emitted functions, {} ranges", label, emitted_with_preimage, ranges_seen), &blob);
        }
        // --- instruction pairs
        let mut expected: HashMap<usize, usize> = HashMap::new();
        let mut alt: HashMap<usize, usize> = HashMap::new();
        for p in r.func_pairing.values() {
            // walrus keeps (and maps) the code that follows a return_call*: pair it as well
            for (a, b) in &p.ops_keep_tail {
                expected.insert(*a, *b);
            }
            for (a, b) in &p.ops {
                expected.insert(*a, *b);
            }
            for (a, b) in &p.alt_ops {
                alt.insert(*a, *b);
            }
        }
        let mut marker_offsets: HashSet<usize> = HashSet::new();
        if inserted {
            for f in &dout.funcs {
                if let Some(b) = &f.body {
                    for (i, o) in b.ops.iter().enumerate() {
                        if matches!(o.op, Operator::I64Const { value } if value == iso::MARKER) && matches!(b.ops.get(i + 1).map(|x| &x.op), Some(Operator::Drop)) {
                            marker_offsets.insert(o.offset);
                            marker_offsets.insert(b.ops[i + 1].offset);
                        }
                    }
                }
            }
            rep.count("inserted-instructions-in-output", marker_offsets.len() as u64);
        }
        // independent of the pairing: the two offsets of a pair must be starts of instructions with the same opcode
        let mut in_ops: HashMap<usize, std::mem::Discriminant<Operator>> = HashMap::new();
        for f in &din.funcs {
            if let Some(b) = &f.body {
                for o in &b.ops {
                    in_ops.insert(o.offset, std::mem::discriminant(&o.op));
                }
            }
        }
        let mut out_ops: HashMap<usize, std::mem::Discriminant<Operator>> = HashMap::new();
        for f in &dout.funcs {
            if let Some(b) = &f.body {
                for o in &b.ops {
                    out_ops.insert(o.offset, std::mem::discriminant(&o.op));
                }
            }
        }
        let mut n = 0;
        let mut wrong: Vec<(usize, usize, usize)> = Vec::new();
        for l in end.str_or(&format!("ct.map.{}", label), "").lines() {
            let mut it = l.split(':');
            let (a, b) = match (it.next().and_then(|x| x.parse::<usize>().ok()), it.next().and_then(|x| x.parse::<usize>().ok())) {
                (Some(a), Some(b)) => (a, b),
                _ => continue,
            };
            // with an (injective) on_instr_loc callback the first component is what the callback returned for
            // the input offset: offset + 1_000_000 in the harness's configuration bit 128
            let a = if loc_shift > 0 {
                match a.checked_sub(loc_shift) {
                    Some(x) => x,
                    None => {
                        rep.violation(c, "C11/pair-id-is-not-what-the-on_instr_loc-callback-returned", &format!("{}: pair ({}, {})", label, a, b), &blob);
                        continue;
                    }
                }
            } else {
                a
            };
            n += 1;
            pairs_checked += 1;
            if marker_offsets.contains(&b) {
                rep.violation(c, "C11/pair-points-at-inserted-instruction", &format!("{}: pair ({}, {}) designates an instruction inserted by the transformation", label, a, b), &blob);
                continue;
            }
            if alt.get(&a) != Some(&b) {
                match (in_ops.get(&a), out_ops.get(&b)) {
                    (Some(x), Some(y)) if x != y => {
                        rep.violation(c, "C11/pair-joins-different-instructions", &format!("{}: pair ({}, {}): the input offset is the start of one operator, the output offset the start of another", label, a, b), &blob);
                        continue;
                    }
                    (Some(_), None) => {
                        rep.violation(c, "C11/pair-output-offset-is-not-an-instruction-start", &format!("{}: pair ({}, {})", label, a, b), &blob);
                        continue;
                    }
                    _ => {}
                }
            }
            match expected.get(&a) {
                Some(e) if *e == b => {}
                // the `end` of an `if` without `else` may be mapped to the `else` walrus emits for that construct
                Some(_) if alt.get(&a) == Some(&b) => rep.count("else-less-if-end-mapped-to-synthesised-else", 1),
                Some(e) => wrong.push((a, b, *e)),
                None => match in_starts.get(&a) {
                    Some((fi, live)) => {
                        let emitted = r.funcs.get(*fi).is_some();
                        if emitted && !*live {
                            rep.violation(c, "C11/pair-for-elided-instruction", &format!("{}: pair ({}, {}) names an input instruction (function {}) that is a nop or dead code and is not emitted", label, a, b, fi), &blob);
                        } else if !emitted {
                            rep.violation(c, "C11/pair-for-removed-function", &format!("{}: pair ({}, {}) names an instruction of input function {} which is not emitted", label, a, b, fi), &blob);
                        }
                    }
                    None => rep.violation(c, "C11/pair-input-offset-is-not-an-instruction-start", &format!("{}: pair ({}, {})", label, a, b), &blob),
                },
            }
        }
        if !wrong.is_empty() {
            let d0 = wrong[0].1 as i64 - wrong[0].2 as i64;
            let constant = wrong.iter().all(|w| w.1 as i64 - w.2 as i64 == d0);
            let sig = if constant { format!("C11/pair-output-offset/delta={}", d0) } else { "C11/pair-output-offset/varying".to_string() };
            rep.violation(c, &sig, &format!("{}: {} of {} pairs do not point at the first byte of the same instruction, e.g. input offset {} -> reported {} but the instruction is at {}", label, wrong.len(), n, wrong[0].0, wrong[0].1, wrong[0].2), &blob);
        }
        if n == 0 && !expected.is_empty() {
            rep.violation(c, "C11/empty-map", &format!("{}: no pairs although {} input instructions are emitted", label, expected.len()), &blob);
        }
        rep.count("live-input-instructions", expected.len() as u64);
        rep.count("pairs", n);
        rep.observe("labels", label);
    }
    if let Some(n) = end.num("resequenced") {
        rep.count("sequences-moved-into-new-sequences-by-a-transformation", n);
    }
    if pairs_checked >= 5 {
        rep.nontrivial(c, "");
    }
    rep.sample(json!({"spec": c.spec, "scenario": c.scenario, "pairs_checked": pairs_checked, "inserted": end.num("inserted")}));
    rep.held(c);
}

//! Oracle process: reads event logs written by the subject process and applies
//! the monitors of one property. Links no walrus code.

mod basic;
mod buildjudge;
mod cfgjudge;
mod ctjudge;
mod dwarfjudge;
mod exec;
mod gcjudge;
mod histjudge;
mod mapjudge;
mod parjudge;
mod report;
mod structural;
mod visitjudge;

use report::Report;
use wv_gen::log::{self, Rec};

fn arg(args: &[String], name: &str) -> Option<String> {
    args.iter().position(|a| a == name).and_then(|i| args.get(i + 1).cloned())
}
fn args_all(args: &[String], name: &str) -> Vec<String> {
    let mut v = Vec::new();
    for (i, a) in args.iter().enumerate() {
        if a == name {
            if let Some(x) = args.get(i + 1) {
                v.push(x.clone());
            }
        }
    }
    v
}

/// One case as seen in the log: begin record, optional end record.
pub struct Case<'a> {
    pub idx: u64,
    pub spec: &'a str,
    pub scenario: &'a str,
    pub input: Option<&'a [u8]>,
    pub begin: &'a Rec,
    pub end: Option<&'a Rec>,
}

pub fn pair_cases(recs: &[Rec]) -> Vec<Case<'_>> {
    let mut out: Vec<Case> = Vec::new();
    for r in recs {
        match r.kind.as_str() {
            "begin" => out.push(Case {
                idx: r.num("idx").unwrap_or(0),
                spec: r.str_or("spec", ""),
                scenario: r.str_or("scenario", ""),
                input: r.get("input"),
                begin: r,
                end: None,
            }),
            "end" => {
                let idx = r.num("idx").unwrap_or(u64::MAX);
                if let Some(c) = out.last_mut() {
                    if c.idx == idx && c.end.is_none() {
                        c.end = Some(r);
                    }
                }
            }
            _ => {}
        }
    }
    out
}

fn main() {
    let args: Vec<String> = std::env::args().collect();
    let prop = arg(&args, "--prop").expect("--prop");
    let logs = args_all(&args, "--log");
    let out = arg(&args, "--out").expect("--out");
    let replay_dir = arg(&args, "--replay-dir").unwrap_or_else(|| "/verif/replays".into());
    let seed: u64 = arg(&args, "--seed").and_then(|s| s.parse().ok()).unwrap_or(1);
    let mut rep = Report::new(&prop, &replay_dir);
    let logs2 = args_all(&args, "--log2");
    for (li, l) in logs.iter().enumerate() {
        // optional second run of the same shard by another process (C08)
        let recs2 = logs2.get(li).and_then(|p| log::read_all(p).ok()).unwrap_or_default();
        let second: std::collections::HashMap<u64, &Rec> =
            recs2.iter().filter(|r| r.kind == "end").filter_map(|r| r.num("idx").map(|i| (i, r))).collect();
        let recs = match log::read_all(l) {
            Ok(r) => r,
            Err(e) => {
                rep.harness_error(&format!("cannot read {}: {}", l, e));
                continue;
            }
        };
        // crash records appended by the orchestrator
        let cases = pair_cases(&recs);
        let crashes: Vec<&Rec> = recs.iter().filter(|r| r.kind == "crash").collect();
        for r in recs.iter().filter(|r| r.kind == "harness_died") {
            rep.harness_error(&format!("driver shard died outside of a case ({}); its remaining cases were not run", r.str_or("how", "?")));
        }
        if !recs.iter().any(|r| r.kind == "shard_done") && !recs.is_empty() && recs[0].str("scenario").is_some() && logs.len() > 0 && !args.iter().any(|a| a == "--single") {
            rep.harness_error("driver shard did not finish");
        }
        for c in &cases {
            rep.begin_case(c);
            if c.begin.has("noinput") {
                rep.inconclusive(c, "input-not-materialized");
                continue;
            }
            if c.end.is_none() {
                let crash = crashes.iter().find(|r| r.num("idx") == Some(c.idx)).copied();
                basic::judge_crash(&prop, c, crash, &mut rep);
                continue;
            }
            if let Some(e) = c.end.unwrap().str("harness_error") {
                rep.inconclusive(c, &format!("harness-error:{}", e));
                continue;
            }
            if let Some(f) = c.end.unwrap().num("failed-parse-first") {
                rep.count("cases-preceded-by-a-failing-parse-on-the-same-thread", f);
            }
            match prop.as_str() {
                "C02" => basic::c02(c, &mut rep),
                "C05" => basic::c05(c, &mut rep),
                "C08" => basic::c08(c, second.get(&c.idx).copied(), !logs2.is_empty(), &mut rep),
                "C12" => basic::c12(c, &mut rep),
                "C20" => basic::c20(c, &mut rep),
                "C03" | "C04" => structural::run(c, &mut rep, &prop),
                "C01" => exec::c01(c, &mut rep, seed),
                "C18" => exec::c18(c, &mut rep, seed),
                "C14" => cfgjudge::run(c, &mut rep),
                "C09" => parjudge::run(c, second.get(&c.idx).copied(), &mut rep),
                "C17" => histjudge::run(c, &mut rep),
                "C15" => buildjudge::run(c, &mut rep),
                "C16" => visitjudge::run(c, &mut rep),
                "C11" => ctjudge::run(c, &mut rep),
                "C10" => dwarfjudge::run(c, &mut rep),
                "C19" => mapjudge::c19(c, &mut rep),
                "C13" => mapjudge::c13(c, &mut rep),
                "C06" | "C07" => gcjudge::run(c, &mut rep, &prop, seed),
                _ => rep.harness_error(&format!("no judge for {}", prop)),
            }
        }
    }
    rep.write(&out);
}

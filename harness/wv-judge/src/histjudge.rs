//! C17: replay a history on a sequential reference model and compare every logged observation.

use crate::report::Report;
use crate::Case;
use serde_json::json;

struct Model {
    dedup: bool,
    has_find: bool,
    no_delete: bool,
    vals: Vec<u32>,
    dead: Vec<bool>,
}

impl Model {
    fn show(&self, coll: &str, v: u32) -> String {
        match coll {
            "locals" => format!("{}", v % 4),
            _ => format!("{}", v),
        }
    }
}

pub fn run(c: &Case, rep: &mut Report) {
    let end = c.end.unwrap();
    let text = String::from_utf8_lossy(c.input.unwrap_or(&[])).to_string();
    let (coll, syms) = match text.split_once(':') {
        Some(x) => x,
        None => {
            rep.inconclusive(c, "bad-history");
            return;
        }
    };
    let mut m = Model { dedup: coll == "types", has_find: coll == "types" || coll == "imports" || coll == "exports" || coll == "funcs", no_delete: coll == "locals", vals: vec![], dead: vec![] };
    let mut steps = 0;
    // functions renamed through get_mut are no longer found under the name their value gave them
    let mut renamed: Vec<usize> = Vec::new();
    for (step, s) in syms.chars().enumerate() {
        let got = match end.str(&format!("s{}", step)) {
            Some(g) => g,
            None => {
                rep.violation(c, "C17/history-aborted", &format!("{}: no observation for step {} of {:?}", coll, step, syms), &[]);
                break;
            }
        };
        let mut want = String::new();
        match s {
            'a'..='h' => {
                let v = s as u32 - 'a' as u32;
                let existing = if m.dedup { (0..m.vals.len()).find(|k| !m.dead[*k] && m.vals[*k] == v) } else { None };
                match existing {
                    Some(k) => want.push_str(&format!("add -> id#{} existing", k)),
                    None => {
                        m.vals.push(v);
                        m.dead.push(false);
                        want.push_str(&format!("add -> id#{} new", m.vals.len() - 1));
                    }
                }
            }
            'r' | 'R' => {
                let k = if s == 'R' { m.vals.len().wrapping_sub(1) } else { m.dead.iter().position(|d| !*d).unwrap_or(usize::MAX) };
                if k >= m.vals.len() || m.dead[k] {
                    want.push_str("rename -> skip");
                } else {
                    let has_name = !matches!(coll, "exports" | "imports" | "locals" | "customs");
                    want.push_str(&format!("rename id#{} {}", k, if has_name { "done" } else { "n/a" }));
                    if has_name && coll == "funcs" {
                        renamed.push(k);
                    }
                }
            }
            _ => {
                let k = if s == 'L' { m.vals.len().wrapping_sub(1) } else { (s as u8 - b'0') as usize };
                if k >= m.vals.len() || m.dead[k] || m.no_delete {
                    want.push_str("del -> skip");
                } else {
                    m.dead[k] = true;
                    want.push_str(&format!("del id#{}", k));
                }
            }
        }
        want.push_str(" | gets:");
        for k in 0..m.vals.len() {
            if m.dead[k] {
                want.push_str(" absent");
            } else {
                want.push_str(&format!(" {}", m.show(coll, m.vals[k])));
            }
        }
        let live: Vec<String> = (0..m.vals.len()).filter(|k| !m.dead[*k]).map(|k| m.show(coll, m.vals[k])).collect();
        want.push_str(&format!(" | iter: [{}]", live.join(",")));
        if matches!(coll, "tables" | "memories" | "elements" | "exports" | "imports" | "funcs" | "customs") {
            want.push_str(&format!(" | iter_mut: [{}]", live.join(",")));
        } else {
            want.push_str(" | iter_mut: n/a");
        }
        want.push_str(" | find:");
        if m.has_find {
            for v in 0..4u32 {
                // functions: odd values carry the name "n<v>", even values are anonymous; the lookup for an even
                // value asks for the empty name, which no function has
                if coll == "funcs" && v % 2 == 0 {
                    want.push_str(" -");
                    continue;
                }
                // imports: values 2k (global) and 2k+1 (function) share a name; the lookup by name finds the first live one
                let same = |a: u32, b: u32| if coll == "imports" { a / 2 == b / 2 } else { a == b };
                match (0..m.vals.len()).find(|k| !m.dead[*k] && same(m.vals[*k], v) && !(coll == "funcs" && renamed.contains(k))) {
                    Some(k) => want.push_str(&format!(" {}", k)),
                    None => want.push_str(" -"),
                }
            }
        }
        steps += 1;
        if got != want {
            // classify
            let part = |s: &str, i: usize| s.split(" | ").nth(i).unwrap_or("").to_string();
            let what = if got.contains("PANIC") && !want.contains("PANIC") {
                "operation-panicked"
            } else if part(got, 0) != part(&want, 0) {
                if part(got, 0).contains("existing") && part(&want, 0).contains("new") {
                    "identifier-reused"
                } else if part(got, 0).contains("new") && part(&want, 0).contains("existing") {
                    "duplicate-not-merged"
                } else {
                    "operation-result"
                }
            } else if part(got, 1) != part(&want, 1) {
                // a dead id answering, a live id lost, or a wrong item
                let (g, w): (Vec<&str>, Vec<&str>) = (got.split(" | ").nth(1).unwrap_or("").split(' ').collect(), want.split(" | ").nth(1).unwrap_or("").split(' ').collect());
                let mut kind = "get-wrong-item";
                for (a, b) in g.iter().zip(w.iter()) {
                    if a != b {
                        kind = if *b == "absent" { "deleted-id-still-resolves" } else if *a == "absent" { "live-id-reported-absent" } else { "get-wrong-item" };
                        break;
                    }
                }
                kind
            } else if part(got, 2) != part(&want, 2) {
                "iteration-differs"
            } else if part(got, 3) != part(&want, 3) {
                "mutable-iteration-differs"
            } else {
                "find-differs"
            };
            rep.violation(c, &format!("C17/{}/{}", coll, what), &format!("history {:?} step {} ({}): observed `{}`, the reference model says `{}`", syms, step, s, got, want), &[]);
            break;
        }
    }
    rep.count("steps-checked", steps);
    rep.observe("collections", coll);
    rep.observe("history-lengths", &syms.len().to_string());
    if syms.len() >= 2 {
        rep.nontrivial(c, "");
    }
    if syms.len() > 20 || rep.samples.len() < 3 {
        rep.sample(json!({"collection": coll, "history": syms.chars().take(60).collect::<String>(), "last_observation": end.str(&format!("s{}", syms.len().saturating_sub(1)))}));
    }
    rep.held(c);
}

//! C15: IR built through the builder API is emitted faithfully.

use crate::report::Report;
use crate::Case;
use serde_json::json;
use std::collections::HashMap;
use wasmparser::BlockType;
use wv_gen::mspec::VT;
use wv_gen::ops::{self, Raw};
use wv_gen::tree::{self, Flat};
use wv_oracle::{decode, feat, iso};

fn fmt_actual(op: &wasmparser::Operator) -> (String, String) {
    let (k, fields) = ops::fields_of(op);
    let name = iso::op_kind_name(k).to_string();
    let mut s = name.clone();
    for (fname, raw) in fields {
        match raw {
            Raw::U32(v) => s.push_str(&format!(" {}={}", fname, v)),
            Raw::U8(v) => s.push_str(&format!(" {}={}", fname, v)),
            Raw::I32(v) => s.push_str(&format!(" {}={}", fname, v)),
            Raw::I64(v) => s.push_str(&format!(" {}={}", fname, v)),
            Raw::F32(v) => s.push_str(&format!(" {}={:08x}", fname, v)),
            Raw::F64(v) => s.push_str(&format!(" {}={:016x}", fname, v)),
            Raw::MemArg { align, offset, memory } => s.push_str(&format!(" align={} offset={} memory={}", align, offset, memory)),
            other => s.push_str(&format!(" {}={:?}", fname, other)),
        }
    }
    (name, s)
}

pub fn run(c: &Case, rep: &mut Report) {
    let end = c.end.unwrap();
    let text = String::from_utf8_lossy(c.input.unwrap_or(&[])).to_string();
    let (seed, index) = match text.split_once(':').and_then(|(a, b)| Some((a.parse::<u64>().ok()?, b.parse::<u64>().ok()?))) {
        Some(x) => x,
        None => {
            rep.inconclusive(c, "bad-tree-spec");
            return;
        }
    };
    let t = tree::tree_for(seed, index);
    let want = tree::flatten(&t);
    let np = t.params.len();
    let order_name = |k: u32| ["", "append", "reverse-insert-at-0", "random-positional-insert", "dangling-attached-later", "nested-closures", "preallocated-in-random-order", "random-positional-insert-with-closures", "closures-appending-to-the-enclosing-sequence"][k as usize];
    for (k, v) in &end.fields {
        if let Some(o) = k.strip_prefix("panic.") {
            let p = std::str::from_utf8(v).unwrap_or("?");
            rep.violation(c, &format!("C15/panic/{}", crate::basic::panic_signature(p)), &format!("construction order {}: {}", o, p), &[]);
        }
    }
    let mut compared = 0;
    // a finished function edited after a first emission must be emitted like one edited before its only emission
    if let (Some(a), Some(b)) = (end.get("reemit.second"), end.get("reemit.fresh")) {
        rep.count("second-emissions-after-an-edit-compared", 1);
        if a != b {
            let pos = a.iter().zip(b.iter()).position(|(x, y)| x != y).unwrap_or(a.len().min(b.len()));
            rep.violation(c, "C15/second-emission-after-builder_mut-edit-differs", &format!("build, emit, read a local in front of the body through builder_mut, emit again: {} bytes; the same edit before the only emission: {} bytes; first difference at {}", a.len(), b.len(), pos), &[("second.wasm", a), ("fresh.wasm", b)]);
        }
    }
    for order in 1..=8u32 {
        let out = match end.get(&format!("out.{}", order)) {
            Some(o) => o,
            None => continue,
        };
        let blob = [("out.wasm", &out[..])];
        let oname = order_name(order);
        if let Err(e) = feat::validate(out, false) {
            rep.violation(c, &format!("C15/{}/output-invalid", oname), &e, &blob);
            continue;
        }
        let d = match decode::decode(out) {
            Ok(d) => d,
            Err(e) => {
                rep.violation(c, "C15/output-undecodable", &e, &blob);
                continue;
            }
        };
        let f_idx = d.exports.iter().find(|e| e.name == "f").map(|e| e.index);
        let helper_idx = d.exports.iter().find(|e| e.name == "helper").map(|e| e.index);
        let (f_idx, helper_idx) = match (f_idx, helper_idx) {
            (Some(a), Some(b)) => (a, b),
            _ => {
                rep.violation(c, "C15/export-missing", "built function or helper not exported", &blob);
                continue;
            }
        };
        let func = &d.funcs[f_idx as usize];
        let sig = d.types.get(func.ty as usize);
        if sig.map(|s| (&s.params, &s.results)) != Some((&t.params, &t.results)) {
            rep.violation(c, &format!("C15/{}/signature", oname), &format!("built {:?}->{:?}, emitted {:?}", t.params, t.results, sig), &blob);
            continue;
        }
        let body = match &func.body {
            Some(b) => b,
            None => {
                rep.violation(c, "C15/no-body", "", &blob);
                continue;
            }
        };
        compared += 1;
        rep.count("bodies-compared", 1);
        rep.count("operators-compared", want.len() as u64);
        if body.ops.len() != want.len() {
            let kind = if body.ops.len() < want.len() { "instructions-missing" } else { "instructions-extra" };
            rep.violation(c, &format!("C15/{}/{}", oname, kind), &format!("tree flattens to {} operators, emitted body has {}", want.len(), body.ops.len()), &blob);
            continue;
        }
        let mut lfwd: HashMap<usize, u32> = HashMap::new();
        let mut lrev: HashMap<u32, usize> = HashMap::new();
        for (i, (w, a)) in want.iter().zip(body.ops.iter()).enumerate() {
            let (aname, atext) = fmt_actual(&a.op);
            let site = format!("order {} operator #{}", oname, i);
            let mut bad: Option<(String, String)> = None;
            match w {
                Flat::Plain(p) => {
                    if p == "Call helper" {
                        if atext != format!("Call function_index={}", helper_idx) {
                            bad = Some(("call-target".into(), format!("{}: expected a call of the helper (index {}), got {}", site, helper_idx, atext)));
                        }
                    } else if *p != atext {
                        let kind = if p.split(' ').next() != Some(aname.as_str()) { "wrong-instruction-or-order" } else { "wrong-immediate" };
                        bad = Some((kind.into(), format!("{}: expected `{}`, emitted `{}`", site, p, atext)));
                    }
                }
                Flat::Local(n, l) => {
                    let idx = match ops::fields_of(&a.op).1.first() {
                        Some((_, Raw::U32(v))) if aname == *n => *v,
                        _ => {
                            bad = Some(("wrong-instruction-or-order".into(), format!("{}: expected {} of tree local {}, emitted `{}`", site, n, l, atext)));
                            u32::MAX
                        }
                    };
                    if bad.is_none() {
                        if *l < np {
                            if idx as usize != *l {
                                bad = Some(("parameter-position".into(), format!("{}: parameter {} emitted as local {}", site, l, idx)));
                            }
                        } else {
                            let ty: Option<VT> = if (idx as usize) >= np { body.locals.get(idx as usize - np).copied() } else { None };
                            if ty != Some(t.locals[*l]) {
                                bad = Some(("local-slot-type".into(), format!("{}: tree local {} of type {:?} emitted as slot {} of type {:?}", site, l, t.locals[*l], idx, ty)));
                            }
                            match (lfwd.get(l).copied(), lrev.get(&idx).copied()) {
                                (Some(x), _) if x != idx => bad = Some(("local-slot-changes".into(), format!("{}: tree local {} was slot {} before, now {}", site, l, x, idx))),
                                (_, Some(y)) if y != *l => bad = Some(("local-slots-shared".into(), format!("{}: slot {} stands for tree locals {} and {}", site, idx, y, l))),
                                _ => {
                                    lfwd.insert(*l, idx);
                                    lrev.insert(idx, *l);
                                }
                            }
                        }
                    }
                }
                Flat::Start(n, p, r) => {
                    let bt = match &a.op {
                        wasmparser::Operator::Block { blockty } if *n == "Block" => Some(blockty),
                        wasmparser::Operator::Loop { blockty } if *n == "Loop" => Some(blockty),
                        wasmparser::Operator::If { blockty } if *n == "If" => Some(blockty),
                        _ => None,
                    };
                    match bt {
                        None => bad = Some(("wrong-nesting".into(), format!("{}: expected {} {:?}->{:?}, emitted `{}`", site, n, p, r, atext))),
                        Some(bt) => {
                            let s = match bt {
                                BlockType::Empty => Some((vec![], vec![])),
                                BlockType::Type(t) => VT::from_wp(*t).map(|t| (vec![], vec![t])),
                                BlockType::FuncType(i) => d.types.get(*i as usize).map(|s| (s.params.clone(), s.results.clone())),
                            };
                            if s != Some((p.clone(), r.clone())) {
                                bad = Some(("block-signature".into(), format!("{}: {} built with {:?}->{:?}, emitted with {:?}", site, n, p, r, s)));
                            }
                        }
                    }
                }
                Flat::Else => {
                    if !matches!(a.op, wasmparser::Operator::Else) {
                        bad = Some(("wrong-nesting".into(), format!("{}: expected else, emitted `{}`", site, atext)));
                    }
                }
                Flat::End => {
                    if !matches!(a.op, wasmparser::Operator::End) {
                        bad = Some(("wrong-nesting".into(), format!("{}: expected end, emitted `{}`", site, atext)));
                    }
                }
                Flat::Br(n, depth) => {
                    let got = match &a.op {
                        wasmparser::Operator::Br { relative_depth } if *n == "Br" => Some(*relative_depth),
                        wasmparser::Operator::BrIf { relative_depth } if *n == "BrIf" => Some(*relative_depth),
                        _ => None,
                    };
                    match got {
                        None => bad = Some(("wrong-instruction-or-order".into(), format!("{}: expected {} {}, emitted `{}`", site, n, depth, atext))),
                        Some(g) if g != *depth => bad = Some(("branch-depth".into(), format!("{}: {} must reach the construct {} levels out, emitted depth {}", site, n, depth, g))),
                        _ => {}
                    }
                }
                Flat::BrTable(ts, dflt) => match ops::fields_of(&a.op).1.first() {
                    Some((_, Raw::BrTable(gt, gd))) => {
                        if gt != ts || gd != dflt {
                            bad = Some(("branch-depth".into(), format!("{}: br_table targets {:?} default {} emitted as {:?} default {}", site, ts, dflt, gt, gd)));
                        }
                    }
                    _ => bad = Some(("wrong-instruction-or-order".into(), format!("{}: expected br_table, emitted `{}`", site, atext))),
                },
            }
            if let Some((kind, detail)) = bad {
                rep.violation(c, &format!("C15/{}/{}", oname, kind), &detail, &blob);
                break;
            }
        }
        rep.observe("construction-orders", oname);
    }
    for w in &want {
        if let Flat::Plain(p) = w {
            rep.observe("instructions-built", p.split(' ').next().unwrap_or(""));
        } else if let Flat::Start(n, p, r) = w {
            rep.observe("instructions-built", n);
            if !p.is_empty() || r.len() > 1 {
                rep.observe("instructions-built", "multi-value-block-type");
            }
        } else if let Flat::Br(n, _) = w {
            rep.observe("instructions-built", n);
        } else if let Flat::BrTable(..) = w {
            rep.observe("instructions-built", "BrTable");
        } else if let Flat::Local(n, _) = w {
            rep.observe("instructions-built", n);
        }
    }
    if compared == 8 && want.len() >= 4 {
        rep.nontrivial(c, "");
    }
    rep.sample(json!({"tree": text, "operators": want.len(), "params": format!("{:?}", t.params), "results": format!("{:?}", t.results), "first": want.iter().take(6).map(|w| format!("{:?}", w)).collect::<Vec<_>>()}));
    rep.held(c);
}

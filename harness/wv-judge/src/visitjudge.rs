//! C16: traversals visit everything exactly once, in order, without recursion.

use crate::report::Report;
use crate::Case;
use serde_json::json;
use std::collections::BTreeMap;
use wasmparser::{BlockType, Operator};
use wv_gen::ops::{self, Raw, RefKind};
use wv_oracle::norm::{normalise_with, NKind};
use wv_oracle::{decode, feat, ident};

const SPAN_LIMIT: u64 = 16 * 1024;

struct Expected {
    /// operand tokens per instruction, program order
    groups: Vec<Vec<String>>,
    /// sequence type tokens (signatures), any order
    seq_types: Vec<String>,
    seqs: usize,
    max_depth: usize,
}

fn expected(m: &decode::DModule, f: u32) -> Option<Expected> {
    let func = m.funcs.get(f as usize)?;
    let body = func.body.as_ref()?;
    let sig = m.types.get(func.ty as usize)?;
    let mut e = Expected { groups: vec![], seq_types: vec![], seqs: 1, max_depth: 0 };
    // the function entry sequence carries the (walrus-made) entry type ()->(results)
    e.seq_types.push(format!("()->({})", sig.results.iter().map(|t| ident::vt(*t)).collect::<Vec<_>>().join(",")));
    let multi = |bt: &BlockType| -> Option<String> {
        if let BlockType::FuncType(i) = bt {
            let s = m.types.get(*i as usize)?;
            if !(s.params.is_empty() && s.results.len() <= 1) {
                return Some(ident::sig(s));
            }
        }
        None
    };
    for o in normalise_with(&body.ops, false) {
        e.max_depth = e.max_depth.max(o.depth);
        let op = match &o.kind {
            NKind::Op(op) => op,
            NKind::SyntheticElse => continue,
        };
        match op {
            Operator::End | Operator::Else => continue,
            Operator::Block { blockty } | Operator::Loop { blockty } => {
                e.seqs += 1;
                if let Some(s) = multi(blockty) {
                    e.seq_types.push(s);
                }
                e.groups.push(vec![]);
                continue;
            }
            Operator::If { blockty } => {
                e.seqs += 2;
                if let Some(s) = multi(blockty) {
                    e.seq_types.push(s.clone());
                    e.seq_types.push(s);
                }
                e.groups.push(vec![]);
                continue;
            }
            _ => {}
        }
        let (_, fields) = ops::fields_of(op);
        let mut g = Vec::new();
        for (name, raw) in fields {
            match raw {
                Raw::U32(v) => match ops::field_ref_kind(name) {
                    Some(RefKind::Func) => g.push(format!("F{}", v)),
                    Some(RefKind::Global) => g.push(format!("G{}", v)),
                    Some(RefKind::Table) => g.push(format!("T{}", v)),
                    Some(RefKind::Memory) => g.push(format!("M{}", v)),
                    Some(RefKind::Data) => g.push(format!("D{}", v)),
                    Some(RefKind::Elem) => g.push(format!("X{}", v)),
                    Some(RefKind::Local) => g.push(format!("L{}", v)),
                    Some(RefKind::Type) => g.push(format!("Y{}", m.types.get(v as usize).map(ident::sig).unwrap_or_else(|| "?".into()))),
                    _ => {}
                },
                Raw::MemArg { memory, .. } => g.push(format!("M{}", memory)),
                _ => {}
            }
        }
        g.sort();
        e.groups.push(g);
    }
    Some(e)
}

fn multiset(v: impl Iterator<Item = String>) -> BTreeMap<String, i64> {
    let mut m = BTreeMap::new();
    for x in v {
        *m.entry(x).or_insert(0) += 1;
    }
    m
}

fn diff_multisets(got: &BTreeMap<String, i64>, want: &BTreeMap<String, i64>) -> Option<(String, i64, i64)> {
    for (k, w) in want {
        let g = got.get(k).copied().unwrap_or(0);
        if g != *w {
            return Some((k.clone(), g, *w));
        }
    }
    for (k, g) in got {
        if !want.contains_key(k) {
            return Some((k.clone(), *g, 0));
        }
    }
    None
}

pub fn run(c: &Case, rep: &mut Report) {
    let end = c.end.unwrap();
    if end.str("parse") != Some("ok") {
        rep.count("not-accepted", 1);
        rep.held(c);
        return;
    }
    let input = c.input.unwrap_or(&[]);
    if feat::validate(input, false).is_err() {
        rep.inconclusive(c, "input-rejected-by-reference-validator");
        return;
    }
    let din = match decode::decode(input) {
        Ok(d) => d,
        Err(e) => {
            rep.inconclusive(c, &format!("input-decode:{}", e));
            return;
        }
    };
    for (k, v) in &end.fields {
        if k.starts_with("panic.") {
            let p = std::str::from_utf8(v).unwrap_or("?");
            rep.violation(c, &format!("C16/panic/{}", crate::basic::panic_signature(p)), &format!("{}: {}", k, p), &[]);
        }
    }
    let mut funcs_checked = 0u64;
    let mut instrs = 0u64;
    let mut deepest = 0usize;
    for (k, v) in &end.fields {
        let idx: u32 = match k.strip_prefix("imm_all.").and_then(|s| s.parse().ok()) {
            Some(i) => i,
            None => continue,
        };
        let e = match expected(&din, idx) {
            Some(e) => e,
            None => {
                rep.violation(c, "C16/traversed-function-not-in-input", &format!("function {}", idx), &[]);
                continue;
            }
        };
        funcs_checked += 1;
        instrs += e.groups.len() as u64;
        deepest = deepest.max(e.max_depth);
        let site = format!("function {} ({} instructions, nesting depth {})", idx, e.groups.len(), e.max_depth);
        // ---------- immutable, everything overridden: exact order, grouping, nesting
        let toks: Vec<&str> = std::str::from_utf8(v).unwrap_or("").split(' ').filter(|t| !t.is_empty()).collect();
        let mut depth = 0i64;
        let mut seqs = 0usize;
        let mut groups: Vec<Vec<String>> = Vec::new();
        let mut ys: Vec<String> = Vec::new();
        let mut bad_nesting = false;
        let mut operand_before_instr = false;
        for t in &toks {
            match *t {
                "S" => {
                    depth += 1;
                    seqs += 1;
                }
                "E" => {
                    depth -= 1;
                    if depth < 0 {
                        bad_nesting = true;
                    }
                }
                "I" => groups.push(vec![]),
                t if t.starts_with('y') => ys.push(t[1..].to_string()),
                t => match groups.last_mut() {
                    Some(g) => g.push(t.to_string()),
                    None => operand_before_instr = true,
                },
            }
        }
        if bad_nesting || depth != 0 {
            rep.violation(c, "C16/immutable/sequence-events-not-nested", &format!("{}: start/end events unbalanced (final depth {})", site, depth), &[]);
        }
        if seqs != e.seqs {
            rep.violation(c, "C16/immutable/sequence-count", &format!("{}: {} sequences started, the function has {}", site, seqs, e.seqs), &[]);
        }
        if operand_before_instr {
            rep.violation(c, "C16/immutable/operand-outside-instruction", &site, &[]);
        }
        if groups.len() != e.groups.len() {
            let kind = if groups.len() > e.groups.len() { "instruction-visited-more-than-once-or-extra" } else { "instruction-not-visited" };
            rep.violation(c, &format!("C16/immutable/{}", kind), &format!("{}: {} instructions reported", site, groups.len()), &[]);
        } else {
            for (i, (g, w)) in groups.iter_mut().zip(e.groups.iter()).enumerate() {
                g.sort();
                if g != w {
                    let kind = if g.len() > w.len() { "operand-reported-more-than-once" } else if g.len() < w.len() { "operand-not-reported" } else { "wrong-operand-or-order" };
                    rep.violation(c, &format!("C16/immutable/{}", kind), &format!("{}: instruction #{} in program order reported operands {:?}, the binary has {:?}", site, i, g, w), &[]);
                    break;
                }
            }
        }
        if let Some((k, g, w)) = diff_multisets(&multiset(ys.into_iter()), &multiset(e.seq_types.iter().cloned())) {
            rep.violation(c, "C16/immutable/sequence-type-reports", &format!("{}: sequence type {} reported {} times, expected {}", site, k, g, w), &[]);
        }
        // ---------- the other three visitors: multisets
        let all_operands = || multiset(e.groups.iter().flatten().cloned().chain(e.seq_types.iter().map(|s| format!("Y{}", s))));
        for (label, with_instr) in [("imm_ids", false), ("mut_ids", false), ("mut_all", true)] {
            let v = match end.str(&format!("{}.{}", label, idx)) {
                Some(v) => v,
                None => continue,
            };
            let toks: Vec<&str> = v.split(' ').filter(|t| !t.is_empty()).collect();
            let mut n_instr = 0usize;
            let mut n_seq = 0usize;
            let got = multiset(toks.iter().filter_map(|t| match *t {
                "I" => {
                    n_instr += 1;
                    None
                }
                "S" => {
                    n_seq += 1;
                    None
                }
                "E" => None,
                t if t.starts_with('y') => Some(format!("Y{}", &t[1..])),
                t => Some(t.to_string()),
            }));
            if let Some((k, g, w)) = diff_multisets(&got, &all_operands()) {
                let kind = if g > w { "operand-reported-more-than-once" } else { "operand-not-reported" };
                let which = match label {
                    "imm_ids" => "immutable/default-hooks",
                    "mut_ids" => "mutable/default-hooks",
                    _ => "mutable/all-hooks",
                };
                rep.violation(c, &format!("C16/{}/{}", which, kind), &format!("{}: operand {} reported {} times, the function has it {} times", site, k, g, w), &[]);
            }
            if with_instr && (n_instr != e.groups.len() || n_seq != e.seqs) {
                rep.violation(c, "C16/mutable/instruction-or-sequence-count", &format!("{}: {} instructions / {} sequences reported, expected {} / {}", site, n_instr, n_seq, e.groups.len(), e.seqs), &[]);
            }
        }
        // ---------- traversals started from inside the callbacks of a traversal
        if let Some(v) = end.str(&format!("imm_nested.{}", idx)) {
            let toks: Vec<&str> = v.split(' ').filter(|t| !t.is_empty()).collect();
            let (ni, ns, ne) = (toks.iter().filter(|t| **t == "I").count(), toks.iter().filter(|t| **t == "S").count(), toks.iter().filter(|t| **t == "E").count());
            rep.count("traversals-with-nested-traversals", 1);
            rep.count("instructions-reported-by-traversals-started-at-nested-sequences", end.num(&format!("imm_nested.inner.{}", idx)).unwrap_or(0));
            if let Some(k) = end.num(&format!("imm_nested.mismatch.{}", idx)) {
                if k > 0 {
                    rep.violation(c, "C16/immutable/traversal-started-at-a-nested-sequence-covers-something-else", &format!("{}: {} traversals started at a nested sequence reported a different number of instructions than that sequence's sub-tree has", site, k), &[]);
                }
            }
            if ni != e.groups.len() || ns != e.seqs || ne != e.seqs {
                rep.violation(c, "C16/immutable/outer-traversal-disturbed-by-a-traversal-started-in-a-callback", &format!("{}: the outer traversal reported {} instructions, {} sequence starts, {} ends; the function has {} instructions in {} sequences", site, ni, ns, ne, e.groups.len(), e.seqs), &[]);
            }
        }
        // ---------- a writing visitor: every type id handed out was replaced by a marker; the immutable traversal
        // afterwards must report the marker exactly where it reported a type before
        if let Some(v) = end.str(&format!("rewrite.{}", idx)) {
            let n: Vec<u64> = v.split(' ').filter_map(|x| x.parse().ok()).collect();
            if n.len() == 5 {
                let (before_total, before_marked, handed, after_total, after_marked) = (n[0], n[1], n[2], n[3], n[4]);
                rep.count("type-ids-rewritten-through-the-mutable-traversal", handed);
                if before_marked != 0 || handed != before_total || after_total != before_total || after_marked != before_total {
                    rep.violation(c, "C16/mutable/write-through-the-visitor-lost-or-miscounted", &format!("{}: immutable traversal reported {} type ids, the mutable one handed out {}; after replacing every one by a marker type the immutable traversal reports {} type ids, {} of them the marker", site, before_total, handed, after_total, after_marked), &[]);
                }
            }
        }
        // ---------- `unreachable` put in front of every sequence: everything behind it is still visited
        if let (Some(v), Some(nseq)) = (end.str(&format!("imm_all_term.{}", idx)), end.num(&format!("term.seqs.{}", idx))) {
            for (which, v) in [("immutable", Some(v)), ("mutable", end.str(&format!("mut_all_term.{}", idx)))] {
                let v = match v {
                    Some(v) => v,
                    None => continue,
                };
                let toks: Vec<&str> = v.split(' ').filter(|t| !t.is_empty()).collect();
                let n_instr = toks.iter().filter(|t| **t == "I").count();
                let n_seq = toks.iter().filter(|t| **t == "S").count();
                let got = multiset(toks.iter().filter_map(|t| match *t {
                    "I" | "S" | "E" => None,
                    t if t.starts_with('y') => Some(format!("Y{}", &t[1..])),
                    t => Some(t.to_string()),
                }));
                rep.count("traversals-with-code-behind-a-terminator", 1);
                if nseq as usize != e.seqs || n_seq != e.seqs || n_instr != e.groups.len() + e.seqs {
                    rep.violation(c, &format!("C16/{}/code-behind-a-terminator-not-visited", which), &format!("{}: `unreachable` was put in front of each of the {} sequences: {} sequences and {} instructions reported, expected {} and {}", site, e.seqs, n_seq, n_instr, e.seqs, e.groups.len() + e.seqs), &[]);
                } else if let Some((k, g, w)) = diff_multisets(&got, &all_operands()) {
                    rep.violation(c, &format!("C16/{}/code-behind-a-terminator-operands", which), &format!("{}: operand {} reported {} times, the function has it {} times", site, k, g, w), &[]);
                }
            }
        }
        // ---------- call-stack span
        for label in ["imm_all", "imm_ids", "mut_all", "mut_ids"] {
            if let Some(s) = end.num(&format!("span.{}.{}", label, idx)) {
                let cur = rep.counters.get("max_stack_span_bytes").copied().unwrap_or(0);
                if s > cur {
                    rep.counters.insert("max_stack_span_bytes".into(), s);
                }
                if s > SPAN_LIMIT {
                    rep.violation(c, &format!("C16/stack-depth-grows/{}", label), &format!("{}: the traversal's callbacks ran at stack addresses {} bytes apart (limit {}): call-stack depth depends on nesting", site, s, SPAN_LIMIT), &[]);
                }
            }
        }
    }
    rep.count("functions-checked", funcs_checked);
    rep.count("instructions-expected", instrs);
    let cur = rep.counters.get("max_nesting_depth").copied().unwrap_or(0);
    if deepest as u64 > cur {
        rep.counters.insert("max_nesting_depth".into(), deepest as u64);
    }
    if instrs >= 3 {
        rep.nontrivial(c, "");
    }
    rep.sample(json!({"spec": c.spec, "functions": funcs_checked, "instructions": instrs, "max_nesting_depth": deepest}));
    rep.held(c);
}

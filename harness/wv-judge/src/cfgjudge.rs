//! C14: configuration switches do exactly what they document.
//! Switch bits: 1 dwarf, 2 names, 4 synthetic names, 8 strict, 16 producers, 32 only-stable, 64 code-transform.

use crate::report::Report;
use crate::Case;
use serde_json::json;
use wv_oracle::sections::{producers, strip_custom, Producers};
use wv_oracle::{decode, feat};

fn debug_sections(b: &[u8]) -> Vec<String> {
    decode::decode(b).map(|m| m.customs.iter().filter(|c| c.name.starts_with(".debug")).map(|c| c.name.clone()).collect()).unwrap_or_default()
}

/// the producers fields of a binary: those of every `producers` section, in order (a mutated input can
/// carry the section twice; walrus reads both)
fn producers_of(b: &[u8]) -> Option<Producers> {
    let m = decode::decode(b).ok()?;
    let mut all: Option<Producers> = None;
    for c in m.customs.iter().filter(|c| c.name == "producers") {
        all.get_or_insert_with(Vec::new).extend(producers(&c.data).ok()?);
    }
    all
}

/// an input producers section the reference decoder rejects (walrus warns and keeps what it read up to the
/// error): nothing is demanded about its fields, only that walrus is recorded once
fn producers_malformed(b: &[u8]) -> bool {
    decode::decode(b).map(|m| m.customs.iter().any(|c| c.name == "producers" && producers(&c.data).is_err())).unwrap_or(false)
}

/// Check the producers model: input fields preserved (order of fields and of values), walrus exactly once.
fn check_producers(input: Option<&Producers>, output: Option<&Producers>, input_malformed: bool) -> Result<(), String> {
    let output = match output {
        Some(o) => o,
        None => return Err("no producers section in the output although generation is on".into()),
    };
    let walrus: Vec<&(String, String)> = output.iter().filter(|f| f.0 == "processed-by").flat_map(|f| f.1.iter()).filter(|v| v.0 == "walrus").collect();
    // an input that itself records walrus more than once (only possible with a repeated section, field or
    // value name, which the producers convention forbids) is outside the exactly-once clause
    let walrus_in_input = input.map(|p| p.iter().flat_map(|f| f.1.iter()).filter(|v| v.0 == "walrus").count()).unwrap_or(0);
    if walrus.len() != 1 && !(walrus_in_input > 1 && !walrus.is_empty()) {
        return Err(format!("walrus is recorded {} times as processed-by: {:?}", walrus.len(), output));
    }
    for f in output {
        for v in &f.1 {
            if v.0 == "walrus" && f.0 != "processed-by" {
                return Err(format!("walrus recorded in field {}", f.0));
            }
        }
    }
    if input_malformed {
        return Ok(());
    }
    let empty: Producers = vec![];
    let input = input.unwrap_or(&empty);
    // expected: the input with every walrus processed-by entry removed
    let strip = |p: &Producers| -> Producers {
        p.iter()
            .map(|(n, vals)| (n.clone(), vals.iter().filter(|v| !(n == "processed-by" && v.0 == "walrus")).cloned().collect::<Vec<_>>()))
            .filter(|(_, vals): &(String, Vec<(String, String)>)| !vals.is_empty())
            .collect()
    };
    let (a, b) = (strip(input), strip(output));
    if a != b {
        return Err(format!("producers fields not preserved: input (without walrus) {:?}, output (without walrus) {:?}", a, b));
    }
    Ok(())
}

pub fn run(c: &Case, rep: &mut Report) {
    let end = c.end.unwrap();
    let input = c.input.unwrap_or(&[]);
    let in_debug = debug_sections(input);
    let in_prod = producers_of(input);
    let in_prod_bad = producers_malformed(input);
    if in_prod_bad {
        rep.count("inputs-with-malformed-producers-section", 1);
    }
    // there is DWARF to carry only if the reference reader finds at least one well-formed unit in the input
    let in_has_units = decode::decode(input).ok().map(|m| matches!(wv_oracle::dwarfread::read(&m), Ok(Some(i)) if i.version != 0)).unwrap_or(false);
    let v_default = feat::validate(input, false);
    let v_stable = feat::validate(input, true);
    let mut ok_masks = 0;
    let mut combos = 0;
    for mask in (0u32..128).chain([1 | 512, 27 | 512, 91 | 512, 19 | 512]) {
        let parse = match end.str(&format!("parse.{}", mask)) {
            Some(p) => p,
            None => continue,
        };
        combos += 1;
        let calls = end.num(&format!("onparse.{}", mask)).unwrap_or(u64::MAX);
        let expect_ok = if mask & 32 != 0 { v_stable.is_ok() } else { v_default.is_ok() };
        match parse {
            "ok" => {
                ok_masks += 1;
                if calls != 1 {
                    rep.violation(c, "C14/on-parse-count-after-success", &format!("cfg mask {}: parse succeeded and the callback ran {} times", mask, calls), &[]);
                }
                if !expect_ok {
                    rep.count("accepted-although-reference-rejects(C05)", 1);
                }
            }
            "err" => {
                if calls != 0 {
                    rep.violation(c, "C14/on-parse-ran-on-failed-parse", &format!("cfg mask {}: parse failed and the callback ran {} times", mask, calls), &[]);
                }
            }
            _ => {
                let p = end.str_or(&format!("panic.parse.{}", mask), "?");
                if in_debug.is_empty() || mask & 1 == 0 {
                    rep.violation(c, &format!("C14/panic/{}", crate::basic::panic_signature(p)), &format!("cfg mask {}: {}", mask, p), &[]);
                }
            }
        }
        if let Some(p) = end.str(&format!("panic.emit.{}", mask)) {
            rep.violation(c, &format!("C14/panic/{}", crate::basic::panic_signature(p)), &format!("cfg mask {} emit: {}", mask, p), &[]);
        }
        let out = match end.get(&format!("out.{}", mask)) {
            Some(o) => o,
            None => continue,
        };
        // DWARF sections are carried iff generate_dwarf
        let od = debug_sections(out);
        if mask & 1 == 0 && !od.is_empty() {
            rep.violation(c, "C14/debug-sections-without-generate-dwarf", &format!("cfg mask {}: output has {:?}", mask, od), &[("out.wasm", out)]);
        }
        if mask & 1 != 0 && in_has_units && od.is_empty() {
            rep.violation(c, "C14/debug-sections-dropped-with-generate-dwarf", &format!("cfg mask {}: input has {:?}, output none", mask, in_debug), &[("out.wasm", out)]);
        }
        if mask & 1 != 0 && in_debug.is_empty() && !od.is_empty() {
            rep.count("debug-sections-synthesised-from-nothing", 1);
        }
        // names switch: differs from its sibling by exactly the name section
        if mask & 2 != 0 {
            if let Some(off) = end.get(&format!("out.{}", mask ^ 2)) {
                rep.count("name-switch-pairs", 1);
                if strip_custom(out, "name") != off {
                    rep.violation(c, "C14/name-switch-changes-more-than-the-name-section", &format!("cfg masks {} / {}: stripping the name section from the former does not give the latter", mask, mask ^ 2), &[("on.wasm", out), ("off.wasm", off)]);
                }
                if decode::decode(off).map(|m| m.custom("name").is_some()).unwrap_or(false) {
                    rep.violation(c, "C14/name-section-although-disabled", &format!("cfg mask {}", mask ^ 2), &[("off.wasm", off)]);
                }
            }
        }
        if mask & 16 != 0 {
            if let Some(off) = end.get(&format!("out.{}", mask ^ 16)) {
                rep.count("producers-switch-pairs", 1);
                if strip_custom(out, "producers") != off {
                    rep.violation(c, "C14/producers-switch-changes-more-than-the-producers-section", &format!("cfg masks {} / {}", mask, mask ^ 16), &[("on.wasm", out), ("off.wasm", off)]);
                }
                if decode::decode(off).map(|m| m.custom("producers").is_some()).unwrap_or(false) {
                    rep.violation(c, "C14/producers-section-although-disabled", &format!("cfg mask {}", mask ^ 16), &[("off.wasm", off)]);
                }
            }
            if let Err(e) = check_producers(in_prod.as_ref(), producers_of(out).as_ref(), in_prod_bad) {
                rep.violation(c, "C14/producers-model", &format!("cfg mask {}: {}", mask, e), &[("out.wasm", out)]);
            }
        }
    }
    // one configuration value, four parses, a callback that rejects the first module it sees
    if let Some(l) = end.str("reuse") {
        rep.count("configuration-values-reused-for-four-parses", 1);
        let steps: Vec<(&str, u64)> = l.split(' ').filter_map(|x| x.split_once(':')).map(|(a, b)| (a, b.parse().unwrap_or(99))).collect();
        let valid = v_default.is_ok();
        for (i, (verdict, calls)) in steps.iter().enumerate() {
            let bad = match *verdict {
                "ok" => *calls != 1,
                "panic" => true,
                // a failed parse: the callback did not run, unless it is the callback itself that rejected (its first run)
                _ => !(*calls == 0 || (*calls == 1 && i == steps.iter().position(|s| s.1 > 0).unwrap_or(usize::MAX))),
            };
            // a valid input must be accepted from the second parse on
            let should_succeed = valid && i >= 1;
            if bad || (should_succeed && *verdict != "ok") {
                rep.violation(c, "C14/on-parse-with-a-reused-configuration", &format!("parses with one configuration value whose callback rejects its first module: {:?} (verdict:callback runs per parse); input valid: {}", steps, valid), &[]);
                break;
            }
        }
    }
    // repeated round trips: walrus still exactly once
    let mut rounds = 0;
    for r in 1..=5 {
        if let Some(o) = end.get(&format!("round.{}", r)) {
            rounds += 1;
            if let Err(e) = check_producers(in_prod.as_ref(), producers_of(o).as_ref(), in_prod_bad) {
                rep.violation(c, "C14/producers-model-after-repeated-round-trips", &format!("after {} round trips: {}", r, e), &[("out.wasm", o)]);
                break;
            }
        }
    }
    rep.count("switch-combinations-run", combos);
    rep.count("round-trips", rounds);
    rep.observe("inputs", &format!("names={} producers={} dwarf={} valid={}", decode::decode(input).map(|m| m.custom("name").is_some()).unwrap_or(false), in_prod.is_some(), !in_debug.is_empty(), v_default.is_ok()));
    if combos == 132 {
        rep.nontrivial(c, if ok_masks > 0 { "accepted" } else { "rejected" });
    }
    rep.sample(json!({"spec": c.spec, "combinations": combos, "accepted_under": ok_masks, "input_producers": in_prod, "rounds": rounds}));
    rep.held(c);
}

//! C19: the index maps walrus exposes to extension code agree with the binaries.

use crate::report::Report;
use crate::Case;
use serde_json::json;
use wv_oracle::{decode, feat, ident};

pub fn c19(c: &Case, rep: &mut Report) {
    let end = c.end.unwrap();
    if end.str("parse") != Some("ok") {
        rep.count("not-accepted", 1);
        rep.held(c);
        return;
    }
    let input = c.input.unwrap_or(&[]);
    if feat::validate(input, false).is_err() {
        rep.inconclusive(c, "input-rejected-by-reference-validator");
        return;
    }
    let din = match decode::decode(input) {
        Ok(d) => d,
        Err(e) => {
            rep.inconclusive(c, &format!("input-decode:{}", e));
            return;
        }
    };
    // ---- parse-time map
    let mut checked = 0u64;
    if let Some(lines) = end.str("onparse.lines") {
        let got: Vec<&str> = lines.lines().collect();
        let want = ident::expected_on_parse_lines(&din);
        if got.len() != want.len() {
            // find which index space disagrees in size
            let count = |v: &[String], k: &str| v.iter().filter(|l| l.starts_with(k)).count();
            let gots: Vec<String> = got.iter().map(|s| s.to_string()).collect();
            let mut detail = String::new();
            for k in ["func ", "type ", "table ", "memory ", "global ", "elem ", "data "] {
                if count(&gots, k) != count(&want, k) {
                    detail.push_str(&format!("{}: map answers {} indices, the binary defines {}; ", k.trim(), count(&gots, k), count(&want, k)));
                }
            }
            rep.violation(c, "C19/parse-map/index-space-size", &detail, &[]);
        }
        for (g, w) in got.iter().zip(want.iter()) {
            checked += 1;
            if g != w {
                let space = g.split(' ').next().unwrap_or("?");
                rep.violation(c, &format!("C19/parse-map/{}", space), &format!("parse-time map: walrus reports `{}`, the input binary defines `{}`", g, w), &[]);
                break;
            }
        }
        for w in &want {
            rep.observe("index-spaces-checked", w.split(' ').next().unwrap_or(""));
        }
    } else {
        rep.inconclusive(c, "no-on-parse-observation");
    }
    rep.count("parse-map-entries-checked", checked);
    // ---- emit-time map, as serialised by the harness section into the output itself
    let mut emit_checked = 0u64;
    for label in ["emit", "gc"] {
        let out = match end.get(&format!("out.{}", label)) {
            Some(o) => o,
            None => continue,
        };
        let dout = match decode::decode(out) {
            Ok(d) => d,
            Err(e) => {
                rep.violation(c, "C19/output-undecodable", &e, &[("out.wasm", out)]);
                continue;
            }
        };
        let payload = match dout.custom("wv.probe") {
            Some(p) => String::from_utf8_lossy(&p.data).to_string(),
            None => {
                rep.inconclusive(c, "probe-section-missing");
                continue;
            }
        };
        for l in payload.lines() {
            let mut it = l.split(' ');
            let (k, a, b) = (it.next().unwrap_or("?"), it.next().unwrap_or("-"), it.next().unwrap_or("!"));
            let kind = k.chars().next().unwrap_or('?');
            if b == "!" && a == "-" {
                // an entity walrus created itself (e.g. a function-entry block type) that is not emitted: no claim
                continue;
            }
            if b == "!" {
                rep.violation(c, &format!("C19/emit-map/{}-live-id-without-index", kind), &format!("{}: a live {} (input index {}) has no emitted index while custom sections serialise", label, kind, a), &[("out.wasm", out)]);
                continue;
            }
            let (ai, bi) = match (a.parse::<u32>(), b.parse::<u32>()) {
                (Ok(x), Ok(y)) => (x, y),
                _ => continue, // entity created by walrus itself (no input index)
            };
            emit_checked += 1;
            let (li, lo) = (ident::line(&din, kind, ai), ident::line(&dout, kind, bi));
            if li != lo {
                rep.violation(
                    c,
                    &format!("C19/emit-map/{}", kind),
                    &format!("{}: emit-time map sends input {} #{} to emitted index {}, but there the output has `{}` while the input entity is `{}`", label, kind, ai, bi, lo, li),
                    &[("out.wasm", out)],
                );
                break;
            }
            rep.observe("emit-kinds-checked", k);
        }
    }
    rep.count("emit-map-entries-checked", emit_checked);
    if checked >= 3 && emit_checked >= 3 {
        rep.nontrivial(c, "");
    }
    rep.sample(json!({"spec": c.spec, "parse_entries": checked, "emit_entries": emit_checked}));
    rep.held(c);
}

use std::collections::{BTreeMap, HashMap};
use wv_oracle::iso;
use wv_oracle::reach::{reach, ExtraRoots};
use wv_oracle::sections::{names, Names};

fn names_of(m: &decode::DModule) -> Result<Option<Names>, String> {
    match m.custom("name") {
        None => Ok(None),
        Some(c) => names(&c.data).map(Some),
    }
}

/// C13: names stay attached to the same (renumbered) entity.
/// Function replacement (the C18 scenario) seen from the name section: functions are identified by signature and
/// constants (unique markers in generated code); the original keeps its name, the replacement body of an exported
/// function has none, the body that takes the place of an imported function keeps that function's name (it is the
/// same function, says `replace_imported_func`).
fn replace_names(c: &Case, din: &decode::DModule, nin: &Names, rep: &mut Report) {
    let end = c.end.unwrap();
    let in_lines: Vec<String> = (0..din.funcs.len()).map(|i| ident::func_line(din, i as u32)).collect();
    let in_name: HashMap<u32, &String> = nin.funcs.iter().filter(|(i, _)| (*i as usize) < din.funcs.len()).map(|(i, n)| (*i, n)).collect();
    let mut checked = 0u64;
    for kind in ["imp", "exp"] {
        for fi in 0..din.funcs.len() as u32 {
            let label = format!("{}.{}", kind, fi);
            let out = match end.get(&format!("out.{}", label)) {
                Some(o) => o,
                None => continue,
            };
            let blob = [("out.wasm", &out[..])];
            let dout = match decode::decode(out) {
                Ok(d) => d,
                Err(_) => continue, // C18 reports it
            };
            let nout = match names_of(&dout) {
                Ok(Some(n)) => n,
                Ok(None) => Names::default(),
                Err(e) => {
                    rep.violation(c, "C13/output-name-section-malformed", &e, &blob);
                    continue;
                }
            };
            rep.count("outputs-after-a-function-replacement", 1);
            let out_lines: Vec<String> = (0..dout.funcs.len()).map(|i| ident::func_line(&dout, i as u32)).collect();
            let out_name: HashMap<u32, &String> = nout.funcs.iter().map(|(i, n)| (*i, n)).collect();
            for (i, l) in in_lines.iter().enumerate() {
                let n = match in_name.get(&(i as u32)) {
                    Some(n) => *n,
                    None => continue,
                };
                if in_lines.iter().filter(|x| *x == l).count() != 1 {
                    continue;
                }
                let js: Vec<usize> = out_lines.iter().enumerate().filter(|(_, x)| *x == l).map(|(j, _)| j).collect();
                if js.len() != 1 {
                    continue;
                }
                checked += 1;
                match out_name.get(&(js[0] as u32)) {
                    Some(m) if *m == n => {}
                    Some(m) => rep.violation(c, "C13/function-name-changed-by-a-replacement", &format!("{}: function in#{} named {:?} is out#{} named {:?}", label, i, n, js[0], m), &blob),
                    None => rep.violation(c, "C13/function-name-dropped-by-a-replacement", &format!("{}: function in#{} named {:?} is still emitted (out#{}) but has lost its name{}", label, i, n, js[0], if i as u32 == fi { " - it is the function whose export was retargeted" } else { "" }), &blob),
                }
            }
            for (j, m) in &nout.funcs {
                let l = match out_lines.get(*j as usize) {
                    Some(l) => l,
                    None => continue,
                };
                if in_lines.contains(l) {
                    continue;
                }
                // a function the input does not have: the replacement body
                let owner = nin.funcs.iter().find(|(_, n)| n == m).map(|(i, _)| *i);
                if let Some(o) = owner {
                    if !(kind == "imp" && o == fi) {
                        rep.violation(c, "C13/function-name-migrated-to-the-replacement", &format!("{}: out#{} is not a function of the input and carries {:?}, the name of in#{}", label, j, m, o), &blob);
                    }
                }
            }
        }
    }
    rep.count("function-names-checked-across-replacements", checked);
    if checked > 0 {
        rep.nontrivial(c, "");
    }
    rep.held(c);
}

pub fn c13(c: &Case, rep: &mut Report) {
    let end = c.end.unwrap();
    if end.str("parse") != Some("ok") {
        rep.count("not-accepted", 1);
        rep.held(c);
        return;
    }
    let input = c.input.unwrap_or(&[]);
    if feat::validate(input, false).is_err() {
        rep.inconclusive(c, "input-rejected-by-reference-validator");
        return;
    }
    let din = match decode::decode(input) {
        Ok(d) => d,
        Err(e) => {
            rep.inconclusive(c, &format!("input-decode:{}", e));
            return;
        }
    };
    let nin = match names_of(&din) {
        Ok(Some(n)) => n,
        Ok(None) => {
            rep.count("inputs-without-name-section", 1);
            rep.held(c);
            return;
        }
        Err(_) => {
            rep.inconclusive(c, "input-name-section-malformed");
            return;
        }
    };
    if c.scenario == "replace" {
        replace_names(c, &din, &nin, rep);
        return;
    }
    // entries that name nothing (index past the last entity of that kind) and subsections walrus ignores
    let stale = nin.funcs.iter().filter(|(i, _)| *i as usize >= din.funcs.len()).count()
        + nin.tables.iter().filter(|(i, _)| *i as usize >= din.tables.len()).count()
        + nin.memories.iter().filter(|(i, _)| *i as usize >= din.memories.len()).count()
        + nin.globals.iter().filter(|(i, _)| *i as usize >= din.globals.len()).count()
        + nin.elems.iter().filter(|(i, _)| *i as usize >= din.elems.len()).count()
        + nin.datas.iter().filter(|(i, _)| *i as usize >= din.datas.len()).count()
        + nin.types.iter().filter(|(i, _)| *i as usize >= din.types.len()).count();
    if stale > 0 {
        rep.count("inputs-with-stale-name-entries", 1);
    }
    for o in &nin.other_subsections {
        rep.observe("uninterpreted-name-subsections-in-inputs", o);
    }
    // with generate_synthetic_names_for_anonymous_items an entity the input leaves unnamed gets a made-up name:
    // that is what the switch is for; names the input does give must still be the ones emitted
    let synth = end.num("cfg").map(|c| c & 4 != 0).unwrap_or(false);
    if synth {
        rep.count("cases-with-synthetic-names-switched-on", 1);
    }
    let mut total_checked = 0u64;
    // ---- in the IR right after parsing (what later edits build on): every local the input names carries that
    // name, whether or not the body mentions it
    if let Some(lines) = end.str("onparse.localnames") {
        let mut got: HashMap<(u32, u32), String> = HashMap::new();
        for l in lines.lines() {
            let mut it = l.splitn(3, ' ');
            if let (Some(f), Some(j), Some(n)) = (it.next().and_then(|x| x.parse().ok()), it.next().and_then(|x| x.parse().ok()), it.next()) {
                got.insert((f, j), n.to_string());
            }
        }
        for (f, v) in &nin.locals {
            let nparams = din.sig_of_func(*f).map(|s| s.params.len()).unwrap_or(0) as u32;
            let nlocals = din.funcs.get(*f as usize).and_then(|x| x.body.as_ref()).map(|b| b.locals.len()).unwrap_or(0) as u32;
            if din.funcs.get(*f as usize).map(|x| x.body.is_none()).unwrap_or(true) {
                continue;
            }
            // the last entry for an index wins
            let mut last: HashMap<u32, &String> = HashMap::new();
            for (j, n) in v {
                last.insert(*j, n);
            }
            for (j, n) in last {
                if j >= nparams + nlocals || (synth && n.is_empty()) {
                    continue;
                }
                total_checked += 1;
                rep.count("local-names-checked-in-the-parsed-ir", 1);
                match got.get(&(*f, j)) {
                    Some(g) if g == n => {}
                    other => {
                        rep.violation(c, "C13/local-name-not-attached-after-parse", &format!("function {} local {} is named {:?} by the input; right after parsing the local carries {:?}", f, j, n, other), &[]);
                    }
                }
            }
        }
    }
    // "addimp": one import of each kind was added through the API (named wv_added_*): every index space is
    // renumbered, the input's names must follow their entities
    for label in ["emit", "gc", "addimp"] {
        let out = match end.get(&format!("out.{}", label)) {
            Some(o) => o,
            None => continue,
        };
        let dout = match decode::decode(out) {
            Ok(d) => d,
            Err(e) => {
                rep.violation(c, "C13/output-undecodable", &e, &[("out.wasm", out)]);
                continue;
            }
        };
        if label == "addimp" {
            rep.count("outputs-with-imports-added-through-the-api", 1);
        }
        let nout = match names_of(&dout) {
            Ok(Some(n)) => n,
            Ok(None) => Names::default(),
            Err(e) => {
                rep.violation(c, "C13/output-name-section-malformed", &e, &[("out.wasm", out)]);
                continue;
            }
        };
        let keep = if label == "gc" { Some(reach(&din, &ExtraRoots::default()).keep) } else { None };
        let r = iso::compare(&din, &dout, keep.as_ref());
        if r.problems.iter().any(|p| !p.sig.ends_with("-added") && !(label == "addimp" && p.sig == "import-name-or-order-differs")) {
            // structure itself is off: C03/C04/C06 report that; names cannot be judged against a broken bijection.
            // What can still be judged: segments are identified by their content where that content is unique on
            // both sides (data bytes; element kind and items, functions mapped through the function pairing, which
            // is established before segments are compared) - the name must have travelled with the content
            let mut moved = 0;
            {
                let ekey = |e: &decode::DElem, map_funcs: bool| -> Option<String> {
                    let mut k = match e.mode { decode::DElemMode::Passive => "p", decode::DElemMode::Declared => "d", decode::DElemMode::Active { .. } => "a" }.to_string();
                    for it in &e.items {
                        match it {
                            decode::DConst::RefFunc(f) => k.push_str(&format!(" f{}", if map_funcs { r.funcs.get(*f)? } else { *f })),
                            decode::DConst::GlobalGet(_) => return None,
                            other => k.push_str(&format!(" {:?}", other)),
                        }
                    }
                    Some(k)
                };
                let ein: Vec<Option<String>> = din.elems.iter().map(|e| ekey(e, true)).collect();
                let eout: Vec<Option<String>> = dout.elems.iter().map(|e| ekey(e, false)).collect();
                let dkey = |d: &decode::DData| Some(format!("{} {:?}", matches!(d.mode, decode::DDataMode::Passive), d.bytes));
                let din_k: Vec<Option<String>> = din.datas.iter().map(dkey).collect();
                let dout_k: Vec<Option<String>> = dout.datas.iter().map(dkey).collect();
                for (kind, keys_in, keys_out, a, b) in [("element", &ein, &eout, &nin.elems, &nout.elems), ("data", &din_k, &dout_k, &nin.datas, &nout.datas)] {
                    for (i, n) in a.iter() {
                        let k = match keys_in.get(*i as usize) { Some(Some(k)) => k, _ => continue };
                        if keys_in.iter().filter(|x| x.as_ref() == Some(k)).count() != 1 {
                            continue;
                        }
                        let js: Vec<usize> = keys_out.iter().enumerate().filter(|(_, x)| x.as_ref() == Some(k)).map(|(j, _)| j).collect();
                        if js.len() != 1 {
                            continue;
                        }
                        let got = b.iter().find(|(j, _)| *j as usize == js[0]).map(|(_, m)| m);
                        if got != Some(n) {
                            moved += 1;
                            rep.violation(c, &format!("C13/{}-name-left-its-segment", kind), &format!("{}: {} segment in#{} named {:?} is the only one with its content; the only output segment with that content, out#{}, is named {:?}", label, kind, i, n, js[0], got), &[("out.wasm", out)]);
                        }
                    }
                }
            }
            if moved == 0 {
                rep.inconclusive(c, "bijection-unavailable(reported by C03/C04/C06)");
            }
            continue;
        }
        let blob = [("out.wasm", &out[..])];
        if nin.module != nout.module && !(synth && nin.module.is_none()) {
            rep.violation(c, "C13/module-name", &format!("{}: module name {:?} became {:?}", label, nin.module, nout.module), &blob);
        }
        // simple index spaces
        let spaces: [(&str, &Vec<(u32, String)>, &Vec<(u32, String)>, Option<&iso::PairMap>); 6] = [
            ("function", &nin.funcs, &nout.funcs, Some(&r.funcs)),
            ("table", &nin.tables, &nout.tables, Some(&r.tables)),
            ("memory", &nin.memories, &nout.memories, Some(&r.memories)),
            ("global", &nin.globals, &nout.globals, Some(&r.globals)),
            ("element", &nin.elems, &nout.elems, Some(&r.elems)),
            ("data", &nin.datas, &nout.datas, Some(&r.datas)),
        ];
        for (kind, a, b, map) in spaces {
            let map = map.unwrap();
            let bm: HashMap<u32, &String> = b.iter().map(|(i, n)| (*i, n)).collect();
            let am: HashMap<u32, &String> = a.iter().map(|(i, n)| (*i, n)).collect();
            for (i, n) in a {
                if let Some(j) = map.get(*i) {
                    total_checked += 1;
                    match bm.get(&j) {
                        Some(m) if *m == n => {}
                        Some(m) => rep.violation(c, &format!("C13/{}-name-changed", kind), &format!("{}: {} in#{} named {:?} is out#{} named {:?}", label, kind, i, n, j, m), &blob),
                        None => rep.violation(c, &format!("C13/{}-name-dropped", kind), &format!("{}: {} in#{} named {:?} is emitted as out#{} without a name", label, kind, i, n, j), &blob),
                    }
                }
            }
            for (j, m) in b {
                match map.get_rev(*j) {
                    Some(i) => {
                        if synth && am.get(&i).is_none() {
                            continue;
                        }
                        if am.get(&i).map(|n| *n != m).unwrap_or(true) {
                            let owner = a.iter().find(|(_, n)| n == m).map(|(k, _)| *k);
                            let sig = if owner.is_some() { "name-migrated" } else { "name-invented" };
                            rep.violation(c, &format!("C13/{}-{}", kind, sig), &format!("{}: {} out#{} carries {:?}; its preimage in#{} is named {:?}; the name belongs to in#{:?}", label, kind, j, m, i, am.get(&i), owner), &blob);
                        }
                    }
                    None => {
                        // the imports the harness added carry the names it gave them
                        if !(label == "addimp" && m.starts_with("wv_added_")) {
                            rep.violation(c, &format!("C13/{}-name-on-unpaired-entity", kind), &format!("{}: {} out#{} carries {:?} but corresponds to no input entity", label, kind, j, m), &blob);
                        }
                    }
                }
            }
        }
        // types: compared through signatures (walrus merges identical types: one of their names)
        {
            let mut by_sig_in: BTreeMap<String, Vec<&String>> = BTreeMap::new();
            for (i, n) in &nin.types {
                if let Some(s) = din.types.get(*i as usize) {
                    by_sig_in.entry(ident::sig(s)).or_default().push(n);
                }
            }
            let mut named_out: BTreeMap<String, Vec<&String>> = BTreeMap::new();
            for (j, n) in &nout.types {
                if let Some(s) = dout.types.get(*j as usize) {
                    let k = ident::sig(s);
                    total_checked += 1;
                    if synth && !by_sig_in.contains_key(&k) {
                        continue;
                    }
                    if !by_sig_in.get(&k).map(|v| v.contains(&n)).unwrap_or(false) {
                        rep.violation(c, "C13/type-name-migrated", &format!("{}: output type {} {} carries {:?}, no input type with that signature has this name", label, j, k, n), &blob);
                    }
                    named_out.entry(k).or_default().push(n);
                }
            }
            // every named input signature that is still emitted keeps a name, unless all types of that
            // signature with a name were unnamed duplicates' siblings: demand a name only if EVERY input type of
            // that signature is named (otherwise the merged survivor may be the unnamed one)
            let out_sigs: std::collections::BTreeSet<String> = dout.types.iter().map(ident::sig).collect();
            for (k, v) in &by_sig_in {
                let all_named = din.types.iter().enumerate().filter(|(_, s)| &ident::sig(s) == k).all(|(i, _)| nin.types.iter().any(|(x, _)| *x as usize == i));
                if all_named && out_sigs.contains(k) && !named_out.contains_key(k) {
                    rep.violation(c, "C13/type-name-dropped", &format!("{}: type {} named {:?} is emitted without a name", label, k, v), &blob);
                }
            }
        }
        // locals
        let lin: HashMap<u32, &Vec<(u32, String)>> = nin.locals.iter().map(|(f, v)| (*f, v)).collect();
        let lout: HashMap<u32, &Vec<(u32, String)>> = nout.locals.iter().map(|(f, v)| (*f, v)).collect();
        for (fi, pairing) in &r.func_pairing {
            let fo = match r.funcs.get(*fi) {
                Some(x) => x,
                None => continue,
            };
            let nparams = din.sig_of_func(*fi).map(|s| s.params.len()).unwrap_or(0) as u32;
            let mut lmap: HashMap<u32, u32> = pairing.locals.iter().cloned().collect();
            for p in 0..nparams {
                lmap.insert(p, p);
            }
            let rmap: HashMap<u32, u32> = lmap.iter().map(|(a, b)| (*b, *a)).collect();
            let empty = vec![];
            let a = lin.get(fi).copied().unwrap_or(&empty);
            let b = lout.get(&fo).copied().unwrap_or(&empty);
            for (li, n) in a {
                // with synthetic names on, an empty input name counts as no name (walrus documents that it skips those)
                if synth && n.is_empty() {
                    continue;
                }
                // unused locals are not emitted and may lose their name
                if let Some(lo) = lmap.get(li) {
                    total_checked += 1;
                    match b.iter().find(|(x, _)| x == lo) {
                        Some((_, m)) if m == n => {}
                        Some((_, m)) => rep.violation(c, "C13/local-name-changed", &format!("{}: function in#{} local {} named {:?} is out#{} local {} named {:?}", label, fi, li, n, fo, lo, m), &blob),
                        None => rep.violation(c, "C13/local-name-dropped", &format!("{}: function in#{} local {} named {:?} is emitted as local {} of out#{} without a name", label, fi, li, n, lo, fo), &blob),
                    }
                }
            }
            for (lo, m) in b {
                let pre = rmap.get(lo);
                let ok = pre.map(|li| a.iter().any(|(x, n)| x == li && n == m)).unwrap_or(false);
                let unnamed_in_input = pre.map(|li| !a.iter().any(|(x, n)| x == li && !n.is_empty())).unwrap_or(false);
                if !ok && !(synth && unnamed_in_input) {
                    rep.violation(c, "C13/local-name-migrated", &format!("{}: function out#{} local {} carries {:?}; its preimage is local {:?} of in#{}", label, fo, lo, m, pre, fi), &blob);
                }
            }
        }
        for (fo, v) in &nout.locals {
            if r.funcs.get_rev(*fo).is_none() && !v.is_empty() {
                rep.violation(c, "C13/local-names-on-unpaired-function", &format!("{}: out#{}", label, fo), &blob);
            }
        }
    }
    // the history goes on after the pass: locals that the edit started using are emitted now, with their names
    if let (Some(out), Some(lines)) = (end.get("out.gcuse"), end.str("uselocal")) {
        if let (Ok(dout), Some(lines)) = (decode::decode(out), Some(lines)) {
            let nout = names_of(&dout).ok().flatten().unwrap_or_default();
            for l in lines.lines() {
                let (k, name) = match l.split_once(' ') {
                    Some((k, n)) => (k.parse::<i64>().unwrap_or(-1), n),
                    None => continue,
                };
                let mut found: Option<(u32, u32)> = None;
                for (fi, f) in dout.funcs.iter().enumerate() {
                    if let Some(b) = &f.body {
                        for w in b.ops.windows(3) {
                            if let (wasmparser::Operator::I64Const { value }, wasmparser::Operator::Drop, wasmparser::Operator::LocalGet { local_index }) = (&w[0].op, &w[1].op, &w[2].op) {
                                if *value == 0x77AA_0000 + k {
                                    found = Some((fi as u32, *local_index));
                                }
                            }
                        }
                    }
                }
                match found {
                    None => rep.count("local-uses-not-found-in-the-output", 1),
                    Some((fo, x)) => {
                        rep.count("locals-first-used-after-the-gc-pass", 1);
                        total_checked += 1;
                        let got = nout.locals.iter().find(|(f, _)| *f == fo).and_then(|(_, v)| v.iter().find(|(i, _)| *i == x)).map(|(_, n)| n.as_str());
                        if got != Some(name) {
                            rep.violation(c, "C13/local-name-lost-between-gc-and-first-use", &format!("gcuse: the local named {:?} in the input was first used after the GC pass; it is emitted as local {} of function out#{} and carries {:?}", name, x, fo, got), &[("out.wasm", out)]);
                        }
                    }
                }
            }
        }
    }
    rep.count("names-checked", total_checked);
    for s in &nin.other_subsections {
        rep.observe("droppable-subsections-seen", s);
    }
    if total_checked >= 3 {
        rep.nontrivial(c, "");
    }
    rep.sample(json!({"spec": c.spec, "named_funcs": nin.funcs.len(), "named_local_groups": nin.locals.len(), "named_types": nin.types.len(), "names_checked": total_checked}));
    rep.held(c);
}

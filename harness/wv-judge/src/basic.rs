//! Monitors that need only the reference validator and plain decoding:
//! C02 (valid output, no panic), C05 (parse gate), C08 (determinism),
//! C12 (unknown custom sections), C20 (no feature escalation).

use crate::report::Report;
use crate::Case;
use serde_json::json;
use wv_gen::log::Rec;
use wv_oracle::{decode, feat};

fn outputs<'a>(end: &'a Rec) -> Vec<(&'a str, &'a [u8])> {
    end.fields.iter().filter(|(k, _)| k.starts_with("out.")).map(|(k, v)| (&k[4..], v.as_slice())).collect()
}
fn panics<'a>(end: &'a Rec) -> Vec<(&'a str, &'a str)> {
    end.fields
        .iter()
        .filter(|(k, _)| k.starts_with("panic."))
        .map(|(k, v)| (&k[6..], std::str::from_utf8(v).unwrap_or("?")))
        .collect()
}

/// Panic signature: location + message with numbers and ids blanked.
pub fn panic_signature(p: &str) -> String {
    let mut s = String::new();
    let mut last_digit = false;
    for ch in p.chars().take(160) {
        if ch.is_ascii_digit() {
            if !last_digit {
                s.push('#');
            }
            last_digit = true;
        } else {
            last_digit = false;
            s.push(ch);
        }
    }
    // keep the line number of the location: re-insert from the original prefix
    let loc = p.split(": ").next().unwrap_or("");
    let rest = s.splitn(2, ": ").nth(1).unwrap_or("").to_string();
    format!("{}: {}", loc, rest)
}

pub fn judge_crash(prop: &str, c: &Case, crash: Option<&Rec>, rep: &mut Report) {
    let how = crash.map(|r| r.str_or("how", "unknown").to_string()).unwrap_or_else(|| "unknown".into());
    // A watchdog kill of the harness is never a verdict about walrus.
    if how == "watchdog" || how == "unknown" {
        rep.inconclusive(c, &format!("driver-died:{}", how));
        return;
    }
    // stack overflow / abort / CPU budget inside walrus code: a violation of "never crashes".
    match prop {
        "C05" | "C02" | "C16" => {
            rep.violation(c, &format!("{}/process-died/{}", prop, how), &format!("subject process died ({}) while running this case", how), &[]);
        }
        _ => rep.inconclusive(c, &format!("driver-died:{}", how)),
    }
}

fn has_code(bytes: &[u8]) -> bool {
    decode::decode(bytes).map(|m| m.funcs.iter().any(|f| f.body.is_some())).unwrap_or(false)
}

pub fn c02(c: &Case, rep: &mut Report) {
    let end = c.end.unwrap();
    let only_stable = end.num("cfg").unwrap_or(0) & 32 != 0;
    if end.str("parse") != Some("ok") {
        rep.count("not-accepted", 1);
        rep.held(c);
        return;
    }
    for (label, p) in panics(end) {
        if label == "parse" {
            continue;
        }
        rep.violation(c, &format!("C02/panic/{}", panic_signature(p)), &format!("step {} panicked: {}", label, p), &[]);
    }
    let outs = outputs(end);
    for (label, out) in &outs {
        rep.count("outputs-validated", 1);
        if let Err(e) = feat::validate(out, only_stable) {
            let sig: String = e.split(" (at offset").next().unwrap_or(&e).chars().take(80).collect();
            rep.violation(c, &format!("C02/invalid-output/{}", panic_signature(&format!("v: {}", sig))), &format!("output of step {} rejected by the reference validator: {}", label, e), &[(&format!("out.{}.wasm", label), out)]);
        }
    }
    if outs.iter().any(|(_, o)| has_code(o)) {
        rep.nontrivial(c, "");
    }
    if let Some(e) = end.str("edits") {
        for x in e.split(',') {
            rep.observe("edit-kinds", x.split('(').next().unwrap_or(""));
        }
        rep.count("edit-scripts", 1);
    }
    rep.sample(json!({"spec": c.spec, "scenario": c.scenario, "input_len": c.input.map(|i| i.len()), "edits": end.str("edits"), "outputs": outs.iter().map(|(l, o)| format!("{}:{}B", l, o.len())).collect::<Vec<_>>()}));
    rep.held(c);
}

pub fn c05(c: &Case, rep: &mut Report) {
    let end = c.end.unwrap();
    let input = c.input.unwrap_or(&[]);
    let cpu_budget_ns: u64 = 60_000_000_000;
    for (label, only_stable) in [("default", false), ("stable", true)] {
        let got = match end.str(&format!("gate.{}", label)) {
            Some(g) => g,
            None => continue,
        };
        let want = feat::validate(input, only_stable);
        rep.count(&format!("inputs-{}-{}", label, if want.is_ok() { "valid" } else { "invalid" }), 1);
        match (got, &want) {
            ("panic", _) => {
                let p = end.str_or(&format!("gate.{}.panic", label), "?");
                rep.violation(c, &format!("C05/panic/{}", panic_signature(p)), &format!("parse ({}) panicked: {}; reference validator says {:?}", label, p, want), &[]);
            }
            ("ok", Err(e)) => {
                let sig: String = e.split(" (at offset").next().unwrap_or(e).chars().take(60).collect();
                rep.violation(c, &format!("C05/accepted-invalid/{}/{}", label, panic_signature(&format!("v: {}", sig))), &format!("walrus ({}) accepted bytes the reference validator rejects: {}", label, e), &[]);
            }
            ("err", Ok(())) => {
                let e = end.str_or(&format!("gate.{}.err", label), "?");
                rep.violation(c, &format!("C05/rejected-valid/{}/{}", label, panic_signature(&format!("e: {}", e.chars().take(60).collect::<String>()))), &format!("walrus ({}) rejected a module the reference validator accepts: {}", label, e), &[]);
            }
            _ => {}
        }
        if let Some(ns) = end.num(&format!("gate.{}.cpu_ns", label)) {
            if ns > cpu_budget_ns {
                rep.violation(c, "C05/cpu-budget", &format!("parse ({}) used {} ms CPU (> 60 s budget) on {} bytes", label, ns / 1_000_000, input.len()), &[]);
            }
            let cur = rep.counters.get("max_parse_cpu_us").copied().unwrap_or(0);
            if ns / 1000 > cur {
                rep.counters.insert("max_parse_cpu_us".into(), ns / 1000);
            }
        }
    }
    let d = end.str_or("gate.default", "");
    rep.observe("verdict-pairs", &format!("{}|{}", d, end.str_or("gate.stable", "")));
    rep.nontrivial(c, d);
    rep.sample(json!({"spec": c.spec, "len": input.len(), "default": d, "stable": end.str("gate.stable")}));
    rep.held(c);
}

pub fn c08(c: &Case, second: Option<&Rec>, expect_second: bool, rep: &mut Report) {
    let end = c.end.unwrap();
    if end.str("parse") != Some("ok") {
        rep.count("not-accepted", 1);
        rep.held(c);
        return;
    }
    let outs = outputs(end);
    // edited module: its output must be a fixpoint too
    if let (Some(a), Some(b)) = (end.get("out.gc"), end.get("out.gc-fix")) {
        rep.count("gc-outputs-round-tripped", 1);
        if a != b {
            let diff = describe_diff(a, b);
            rep.violation(c, &format!("C08/fixpoint-of-gc-output/{}", diff.0), &format!("re-parsing the output emitted after the GC pass and emitting again does not reproduce it: {}", diff.1), &[("out.gc.wasm", a), ("out.gc-fix.wasm", b)]);
        }
    }
    if let (Some(a), Some(b)) = (end.get("out.addimp"), end.get("out.addimp-fix")) {
        rep.count("compared-fixpoint-of-edited-output", 1);
        if a != b {
            let diff = describe_diff(a, b);
            rep.violation(c, &format!("C08/fixpoint-of-edited-output/{}", diff.0), &format!("after adding named imports through the API, re-parsing the output and emitting again does not reproduce it: {}", diff.1), &[("out.addimp.wasm", a), ("out.addimp-fix.wasm", b)]);
        }
        if a.len() > 8 {
            rep.nontrivial(c, "");
        }
        rep.held(c);
        return;
    }
    let base = outs.iter().find(|(l, _)| *l == "emit").map(|(_, o)| *o);
    let base = match base {
        Some(b) => b,
        None => {
            rep.inconclusive(c, "no-first-output");
            return;
        }
    };
    let mut outs = outs;
    match second.and_then(|r| r.get("out.emit")) {
        Some(o2) => outs.push(("proc2", o2)),
        None => {
            if expect_second {
                rep.inconclusive(c, "second-process-output-missing");
            }
        }
    }
    let mut compared = 0;
    for (label, o) in &outs {
        if *label == "emit" || !matches!(*label, "emit2" | "fix" | "shift" | "proc2") {
            continue;
        }
        compared += 1;
        rep.count(&format!("compared-{}", label), 1);
        if *o != base {
            let what = match *label {
                "emit2" => "second emit_wasm on the same Module differs from the first",
                "fix" => "re-parsing walrus's own output and emitting again does not reproduce it",
                "shift" => "same input parsed with shifted arena ids emits different bytes",
                _ => "second process emitted different bytes",
            };
            let diff = describe_diff(base, o);
            rep.violation(c, &format!("C08/{}/{}", label, diff.0), &format!("{}: {}", what, diff.1), &[("out.emit.wasm", base), (&format!("out.{}.wasm", label), o)]);
        }
    }
    // every other emission of the scenario (after the GC pass, after edits, ...) is a function of the input as well:
    // the second process must have produced the same bytes
    if let Some(r2) = second {
        for label in ["gc", "gc-fix", "gc2", "addimp", "addimp-fix", "reedit", "reedit_fresh", "emit2", "fix", "shift", "emptied"] {
            if let (Some(a), Some(b)) = (end.get(&format!("out.{}", label)), r2.get(&format!("out.{}", label))) {
                rep.count("later-emissions-compared-across-processes", 1);
                compared += 1;
                if a != b {
                    let diff = describe_diff(a, b);
                    rep.violation(c, &format!("C08/proc2-{}/{}", label, diff.0), &format!("the emission labelled {} differs between two processes: {}", label, diff.1), &[(&format!("out.{}.a.wasm", label), a), (&format!("out.{}.b.wasm", label), b)]);
                }
            }
        }
    }
    // same logical module reached by (emit, edit, emit) and by (fresh parse, same edit, emit)
    if let (Some(a), Some(b)) = (end.get("out.reedit"), end.get("out.reedit_fresh")) {
        rep.count("compared-edit-after-emit", 1);
        compared += 1;
        if a != b {
            let diff = describe_diff(b, a);
            rep.violation(c, &format!("C08/edit-after-emit/{}", diff.0), &format!("emitting, editing and emitting again gives other bytes than applying the same edit to a freshly parsed module: {}", diff.1), &[("out.reedit.wasm", a), ("out.reedit_fresh.wasm", b)]);
        }
    }
    for (label, p) in panics(end) {
        rep.violation(c, &format!("C08/panic/{}", panic_signature(p)), &format!("step {} panicked: {}", label, p), &[]);
    }
    if compared >= 2 && base.len() > 8 {
        rep.nontrivial(c, "");
    }
    rep.sample(json!({"spec": c.spec, "len": base.len(), "compared": outs.iter().map(|(l, _)| l.to_string()).collect::<Vec<_>>()}));
    rep.held(c);
}

/// Classify a byte difference by what changed at the section level.
fn describe_diff(a: &[u8], b: &[u8]) -> (String, String) {
    let (da, db) = (decode::decode(a), decode::decode(b));
    if let (Ok(da), Ok(db)) = (da, db) {
        let ca: Vec<&str> = da.customs.iter().map(|c| c.name.as_str()).collect();
        let cb: Vec<&str> = db.customs.iter().map(|c| c.name.as_str()).collect();
        if ca != cb {
            return ("custom-sections-differ".into(), format!("custom sections {:?} vs {:?}", ca, cb));
        }
        if da.section_ids != db.section_ids {
            return ("section-list-differs".into(), format!("sections {:?} vs {:?}", da.section_ids, db.section_ids));
        }
    }
    let pos = a.iter().zip(b.iter()).position(|(x, y)| x != y).unwrap_or(a.len().min(b.len()));
    ("bytes-differ".into(), format!("lengths {} vs {}, first difference at offset {}", a.len(), b.len(), pos))
}

pub fn c12(c: &Case, rep: &mut Report) {
    let end = c.end.unwrap();
    if end.str("parse") != Some("ok") {
        rep.count("not-accepted", 1);
        rep.held(c);
        return;
    }
    let input = c.input.unwrap_or(&[]);
    let din = match decode::decode(input) {
        Ok(d) => d,
        Err(e) => {
            rep.inconclusive(c, &format!("input-decode:{}", e));
            return;
        }
    };
    let want: Vec<(String, Vec<u8>)> = din.unknown_customs().iter().map(|c| (c.name.clone(), c.data.clone())).collect();
    // interpreted custom sections standing between unknown ones (the order of the unknown ones must survive that)
    if let Some(first_dbg) = din.customs.iter().position(|c| c.name.starts_with(".debug") || c.name == "name" || c.name == "producers") {
        let after = din.customs[first_dbg..].iter().filter(|c| !(c.name.starts_with(".debug") || c.name == "name" || c.name == "producers")).count();
        if after >= 2 {
            rep.count("inputs-with-2+-unknown-sections-after-an-interpreted-one", 1);
        }
        if din.customs[first_dbg].name.starts_with(".debug") && after >= 2 {
            rep.count("inputs-with-2+-unknown-sections-after-a-.debug-section", 1);
        }
    }
    for (label, o) in outputs(end) {
        if !matches!(label, "emit" | "emit2" | "gc" | "gcemit2" | "gc2") {
            continue;
        }
        let dout = match decode::decode(o) {
            Ok(d) => d,
            Err(e) => {
                rep.violation(c, "C12/output-undecodable", &format!("{}: {}", label, e), &[(&format!("out.{}.wasm", label), o)]);
                continue;
            }
        };
        let got: Vec<(String, Vec<u8>)> = dout.unknown_customs().iter().filter(|c| c.name != "wv.probe").map(|c| (c.name.clone(), c.data.clone())).collect();
        rep.count("lists-compared", 1);
        rep.count("sections-compared", want.len() as u64);
        if got != want {
            let kind = if got.is_empty() && !want.is_empty() {
                "all-lost"
            } else if got.len() < want.len() {
                "some-lost"
            } else if got.len() > want.len() {
                "duplicated-or-added"
            } else if got.iter().map(|g| &g.0).collect::<Vec<_>>() != want.iter().map(|g| &g.0).collect::<Vec<_>>() {
                "renamed-or-reordered"
            } else {
                "payload-changed"
            };
            rep.violation(
                c,
                &format!("C12/{}/{}", label, kind),
                &format!("unknown custom sections after {}: got {:?}, want {:?}", label, got.iter().map(|g| (&g.0, g.1.len())).collect::<Vec<_>>(), want.iter().map(|g| (&g.0, g.1.len())).collect::<Vec<_>>()),
                &[(&format!("out.{}.wasm", label), o)],
            );
        }
    }
    if !want.is_empty() {
        rep.nontrivial(c, "");
        rep.observe("section-counts", &want.len().to_string());
    }
    rep.sample(json!({"spec": c.spec, "unknown_customs": want.iter().map(|w| format!("{}:{}B", w.0, w.1.len())).collect::<Vec<_>>()}));
    rep.held(c);
}

pub fn c20(c: &Case, rep: &mut Report) {
    let end = c.end.unwrap();
    if end.str("parse") != Some("ok") {
        rep.count("not-accepted", 1);
        rep.held(c);
        return;
    }
    let input = c.input.unwrap_or(&[]);
    let out = match end.get("out.emit") {
        Some(o) => o,
        None => {
            rep.inconclusive(c, "no-output");
            return;
        }
    };
    let full = feat::walrus_features(false);
    if feat::validate_with(input, full).is_err() {
        rep.inconclusive(c, "input-invalid");
        return;
    }
    let mut sets: Vec<(String, wasmparser::WasmFeatures)> = Vec::new();
    for (name, p) in feat::PROPOSALS {
        let mut s = full;
        s.remove(p);
        sets.push((format!("full-minus-{}", name), s));
    }
    if let Some(min) = feat::minimal_features(input) {
        rep.observe("minimal-sets", &feat::feature_names(min).join("+"));
        sets.push(("minimal".to_string(), min));
    }
    let mut not_needed = 0;
    for (name, s) in sets {
        if feat::validate_with(input, s).is_ok() {
            not_needed += 1;
            rep.count(&format!("input-ok-under-{}", name), 1);
            if let Err(e) = feat::validate_with(out, s) {
                let sig: String = e.split(" (at offset").next().unwrap_or(&e).chars().take(70).collect();
                rep.violation(c, &format!("C20/{}/{}", name, crate::basic::panic_signature(&format!("v: {}", sig))), &format!("input validates under {} but the output does not: {}", name, e), &[("out.emit.wasm", out)]);
            }
        }
    }
    // encodings the reference validator does not gate on features: judged on the bytes themselves
    if let (Ok(din), Ok(dout)) = (decode::decode(input), decode::decode(out)) {
        let ein = wv_oracle::encodings::encodings(input, &din);
        let eout = wv_oracle::encodings::encodings(out, &dout);
        let min = feat::minimal_features(input).map(feat::feature_names).unwrap_or_default();
        for (class, proposal) in wv_oracle::encodings::CLASSES {
            if eout.contains(class) {
                rep.count(&format!("outputs-using-{}", class), 1);
            }
            let implied_by_input = ein.contains(class)
                || min.contains(&proposal)
                || (class == "element-segment-flags" && (min.contains(&"reference-types") || ein.contains("data-segment-flags") || ein.contains("data-count-section")))
                || (proposal == "bulk-memory" && (ein.contains("element-segment-flags") || ein.contains("data-segment-flags") || ein.contains("data-count-section")))
                || (class == "data-segment-flags" && min.contains(&"multi-memory"));
            if eout.contains(class) && !implied_by_input {
                rep.violation(
                    c,
                    &format!("C20/encoding-escalation/{}", class),
                    &format!("the output uses the {} encoding ({} proposal); the input uses none of it and does not need that proposal (input encodings {:?}, minimal features {:?})", class, proposal, ein, min),
                    &[("out.emit.wasm", out)],
                );
            }
        }
        if ein.is_empty() {
            rep.count("inputs-with-pure-mvp-encodings", 1);
        }
    }
    if not_needed > 0 && has_code(out) {
        rep.nontrivial(c, "");
    }
    rep.sample(json!({"spec": c.spec, "sets_input_valid_under": not_needed}));
    rep.held(c);
}

//! C09: the parallel build agrees with the serial build under every schedule tried.

use crate::report::Report;
use crate::Case;
use serde_json::json;
use wv_gen::log::Rec;

fn accept(v: &str) -> &str {
    if v == "ok" {
        "accept"
    } else if v.starts_with("err") {
        "reject"
    } else {
        "panic"
    }
}

pub fn run(c: &Case, par: Option<&Rec>, rep: &mut Report) {
    let ser = c.end.unwrap();
    let par = match par {
        Some(p) => p,
        None => {
            rep.inconclusive(c, "parallel-run-missing");
            return;
        }
    };
    if ser.str("flavour") != Some("serial") || par.str("flavour") != Some("parallel") {
        rep.harness_error("C09: flavours mixed up (serial log must come from the serial build, parallel log from the parallel build)");
        return;
    }
    let (vs, vp) = (ser.str_or("verdict", "?"), par.str_or("verdict", "?"));
    if vs.starts_with("panic") || vp.starts_with("panic") {
        rep.violation(c, &format!("C09/panic/{}", crate::basic::panic_signature(if vp.starts_with("panic") { vp } else { vs })), &format!("serial: {} / parallel: {}", vs, vp), &[]);
    }
    if accept(vs) != accept(vp) {
        rep.violation(c, "C09/accept-reject-differs", &format!("serial build: {} / parallel build: {}", vs, vp), &[]);
    } else if vs != vp {
        rep.count("same-decision-different-error-text", 1);
    }
    match (ser.get("out"), par.get("out")) {
        (Some(a), Some(b)) => {
            rep.count("outputs-compared", 1);
            if a != b {
                let pos = a.iter().zip(b.iter()).position(|(x, y)| x != y).unwrap_or(a.len().min(b.len()));
                rep.violation(c, "C09/serial-vs-parallel-bytes-differ", &format!("lengths {} / {}, first difference at {}", a.len(), b.len(), pos), &[("serial.wasm", a), ("parallel.wasm", b)]);
            }
        }
        (None, None) => {}
        _ => rep.violation(c, "C09/output-only-on-one-side", &format!("serial: {} / parallel: {}", vs, vp), &[]),
    }
    // with code-transform preservation on and the offset map embedded in the output
    match (ser.get("out_ct"), par.get("out_ct")) {
        (Some(a), Some(b)) => {
            rep.count("outputs-with-offset-map-compared", 1);
            if a != b {
                let pos = a.iter().zip(b.iter()).position(|(x, y)| x != y).unwrap_or(a.len().min(b.len()));
                rep.violation(c, "C09/serial-vs-parallel-bytes-differ/with-code-transform", &format!("preserve_code_transform on, offset map embedded by a custom section: lengths {} / {}, first difference at {}", a.len(), b.len(), pos), &[("serial.wasm", a), ("parallel.wasm", b)]);
            }
        }
        (None, None) => {}
        _ => rep.violation(c, "C09/output-only-on-one-side/with-code-transform", &format!("serial: {:?} / parallel: {:?}", ser.str("verdict_ct"), par.str("verdict_ct")), &[]),
    }
    // the same with ids from an on_instr_loc callback that gives neighbouring instructions one id
    match (ser.get("out_ctl"), par.get("out_ctl")) {
        (Some(a), Some(b)) => {
            rep.count("outputs-with-offset-map-and-shared-location-ids-compared", 1);
            if a != b {
                let pos = a.iter().zip(b.iter()).position(|(x, y)| x != y).unwrap_or(a.len().min(b.len()));
                rep.violation(c, "C09/serial-vs-parallel-bytes-differ/with-code-transform-and-on_instr_loc", &format!("preserve_code_transform on, location ids from a non-injective on_instr_loc callback, offset map embedded by a custom section: lengths {} / {}, first difference at {}", a.len(), b.len(), pos), &[("serial.wasm", a), ("parallel.wasm", b)]);
            }
        }
        (None, None) => {}
        _ => rep.violation(c, "C09/output-only-on-one-side/with-code-transform-and-on_instr_loc", &format!("serial: {:?} / parallel: {:?}", ser.str("verdict_ctl"), par.str("verdict_ctl")), &[]),
    }
    // GC, then every local function edited: iter_local_mut (serial build) vs the public par_iter_local_mut
    let (es, ep) = (ser.str_or("verdict_ed", "-"), par.str_or("verdict_ed", "-"));
    for v in [es, ep] {
        if v.starts_with("iter-mismatch") {
            rep.violation(c, "C09/parallel-iterator-yields-a-different-set-of-functions", v, &[]);
        } else if v.starts_with("panic") {
            rep.violation(c, &format!("C09/panic/{}", crate::basic::panic_signature(v)), &format!("edit through the function iterators: serial: {} / parallel: {}", es, ep), &[]);
        }
    }
    match (ser.get("out_ed"), par.get("out_ed")) {
        (Some(a), Some(b)) => {
            rep.count("outputs-edited-through-par_iter_local_mut-compared", 1);
            if a != b {
                let pos = a.iter().zip(b.iter()).position(|(x, y)| x != y).unwrap_or(a.len().min(b.len()));
                rep.violation(c, "C09/serial-vs-parallel-bytes-differ/edited-through-the-function-iterators", &format!("after GC every local function was edited (iter_local_mut vs par_iter_local_mut): lengths {} / {}, first difference at {}", a.len(), b.len(), pos), &[("serial.wasm", a), ("parallel.wasm", b)]);
            }
        }
        (None, None) => {}
        _ => {
            if !es.starts_with("iter-mismatch") && !ep.starts_with("iter-mismatch") && !es.starts_with("panic") && !ep.starts_with("panic") {
                rep.violation(c, "C09/output-only-on-one-side/edited-through-the-function-iterators", &format!("serial: {} / parallel: {}", es, ep), &[]);
            }
        }
    }
    // runs of the parallel build that differed from its own first run
    for (k, v) in &par.fields {
        if let Some(label) = k.strip_prefix("verdict.") {
            rep.violation(c, "C09/parallel-runs-disagree/verdict", &format!("thread-count/delay configuration {}: {} (first run: {})", label, String::from_utf8_lossy(v), vp), &[]);
        } else if let Some(label) = k.strip_prefix("out.") {
            rep.violation(c, "C09/parallel-runs-disagree/bytes", &format!("thread-count/delay configuration {} emitted different bytes", label), &[("parallel-first.wasm", par.get("out").unwrap_or(&[])), ("parallel-other.wasm", v)]);
        }
    }
    let runs = par.num("runs").unwrap_or(0);
    let orders = par.num("distinct_orders").unwrap_or(0);
    let items = par.num("items").unwrap_or(0);
    rep.count("parallel-runs", runs);
    rep.count("distinct-completion-orders(sum over inputs)", orders);
    rep.count("work-items(sum over inputs)", items);
    rep.observe("decisions", accept(vs));
    let cur = rep.counters.get("max_distinct_orders_for_one_input").copied().unwrap_or(0);
    if orders > cur {
        rep.counters.insert("max_distinct_orders_for_one_input".into(), orders);
    }
    if items >= 2 && runs >= 5 {
        rep.nontrivial(c, "");
    }
    rep.sample(json!({"spec": c.spec, "functions": items, "parallel_runs": runs, "distinct_completion_orders": orders, "decision": accept(vs)}));
    rep.held(c);
}

//! C03 (code) and C04 (module structure): lock-step isomorphism between the
//! decoded input and the decoded output.

use crate::report::Report;
use crate::Case;
use serde_json::json;
use wv_oracle::{decode, feat, iso};

pub fn run(c: &Case, rep: &mut Report, prop: &str) {
    let end = c.end.unwrap();
    if end.str("parse") != Some("ok") {
        rep.count("not-accepted", 1);
        rep.held(c);
        return;
    }
    let input = c.input.unwrap_or(&[]);
    if feat::validate(input, false).is_err() {
        rep.inconclusive(c, "input-rejected-by-reference-validator");
        return;
    }
    let edited = end.has("out.addimp");
    let out = match end.get("out.emit").or(end.get("out.addimp")) {
        Some(o) => o,
        None => {
            rep.inconclusive(c, "no-output");
            return;
        }
    };
    let din = match decode::decode(input) {
        Ok(d) => d,
        Err(e) => {
            rep.inconclusive(c, &format!("input-decode:{}", e));
            return;
        }
    };
    let dout = match decode::decode(out) {
        Ok(d) => d,
        Err(e) => {
            rep.violation(c, &format!("{}/output-undecodable", prop), &e, &[("out.emit.wasm", out)]);
            return;
        }
    };
    let r = iso::compare(&din, &dout, None);
    let cat = if prop == "C03" { "code" } else { "struct" };
    let mut seen = std::collections::BTreeSet::new();
    if edited {
        // the edit added one import of each kind: those (and the type of the new function) are the only additions
        let added: Vec<&decode::DImport> = dout.imports.iter().filter(|i| i.module == "wv.add").collect();
        if added.len() != 4 {
            rep.violation(c, "C04/edit/added-imports-missing", &format!("4 imports were added through the API, the output has {} of them", added.len()), &[("out.wasm", out)]);
        }
        // ... and nothing else: one function, global, table and memory more than the input, at most one type more
        for (kind, a, b) in [("functions", din.funcs.len(), dout.funcs.len()), ("globals", din.globals.len(), dout.globals.len()), ("tables", din.tables.len(), dout.tables.len()), ("memories", din.memories.len(), dout.memories.len())] {
            if b != a + 1 {
                rep.violation(c, &format!("C04/edit/{}-count", kind), &format!("one imported entity of each kind was added through the API: the input has {} {}, the output {}", a, kind, b), &[("out.wasm", out)]);
            }
        }
        if dout.types.len() > din.types.len() + 1 || dout.elems.len() != din.elems.len() || dout.datas.len() != din.datas.len() || dout.exports.len() != din.exports.len() {
            rep.violation(c, "C04/edit/other-entities-count", &format!("types {}->{}, element segments {}->{}, data segments {}->{}, exports {}->{}", din.types.len(), dout.types.len(), din.elems.len(), dout.elems.len(), din.datas.len(), dout.datas.len(), din.exports.len(), dout.exports.len()), &[("out.wasm", out)]);
        }
        rep.count("edited-outputs-compared", 1);
    }
    for p in r.problems.iter().filter(|p| p.cat == cat).filter(|p| !(edited && (p.sig.ends_with("-added") || p.sig == "import-name-or-order-differs"))) {
        if seen.insert(p.sig.clone()) {
            rep.violation(c, &format!("{}/{}", prop, p.sig), &p.detail, &[("out.emit.wasm", out)]);
        }
    }
    if prop == "C03" {
        rep.count("operators-compared", r.ops_compared);
        rep.count("functions-compared", r.func_pairing.len() as u64);
        for k in &r.ops_seen {
            rep.observe("operators-matched", iso::op_kind_name(*k));
        }
        if r.ops_compared >= 5 {
            rep.nontrivial(c, "");
        }
        rep.sample(json!({"spec": c.spec, "functions": r.func_pairing.len(), "operators_compared": r.ops_compared, "distinct_operator_kinds": r.ops_seen.len()}));
    } else {
        let n = din.imports.len() + din.exports.len() + din.elems.len() + din.datas.len() + din.globals.len() + din.tables.len() + din.memories.len();
        rep.count("entities-compared", n as u64 + din.funcs.len() as u64);
        rep.count("imports", din.imports.len() as u64);
        rep.count("exports", din.exports.len() as u64);
        rep.count("element-segments", din.elems.len() as u64);
        rep.count("data-segments", din.datas.len() as u64);
        for e in &din.elems {
            rep.observe("element-forms", &format!("{}/{}/{}", match e.mode { decode::DElemMode::Passive => "passive", decode::DElemMode::Declared => "declared", _ => "active" }, if e.expr_encoding { "exprs" } else { "funcs" }, format!("{:?}", e.ty)));
        }
        for m in &din.memories {
            rep.observe("memory-forms", &format!("imported={} is64={} shared={} max={}", m.import.is_some(), m.ty.is64, m.ty.shared, m.ty.max.is_some()));
        }
        for t in &din.tables {
            rep.observe("table-forms", &format!("imported={} elem={:?} max={}", t.import.is_some(), t.ty.elem, t.ty.lim.max.is_some()));
        }
        for g in &din.globals {
            rep.observe("global-forms", &format!("imported={} ty={:?} mut={} init={}", g.import.is_some(), g.ty.ty, g.ty.mutable, match &g.init { Some(decode::DConst::GlobalGet(_)) => "global.get", Some(decode::DConst::RefFunc(_)) => "ref.func", Some(decode::DConst::RefNull(_)) => "ref.null", Some(_) => "const", None => "-" }));
        }
        if n >= 2 {
            rep.nontrivial(c, "");
        }
        rep.sample(json!({"spec": c.spec, "imports": din.imports.len(), "exports": din.exports.len(), "elems": din.elems.len(), "datas": din.datas.len(), "globals": din.globals.len(), "tables": din.tables.len(), "memories": din.memories.len(), "funcs": din.funcs.len()}));
    }
    rep.held(c);
}

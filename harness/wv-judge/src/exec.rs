//! Execution equivalence (C01, C06, C18): both binaries are instantiated in
//! the reference interpreter against the same deterministic host and driven
//! through the same seeded call sequence; after every call the result, the
//! trap, the host-call trace and the exported state are compared.

use crate::report::Report;
use crate::Case;
use serde_json::json;
use wasmparser::ValType;
use wv_gen::rng::Rng;
use wv_interp::{DefaultHost, ExportKind, Host, Instance, InstantiateError, Limits, Outcome, Trap, Val};

/// Deterministic host: imported function results are a pure function of
/// (module, field, call count, args); imported integer globals get small
/// values half of the time so that offsets taken from them can be in bounds.
pub struct StdHost {
    inner: DefaultHost,
}

impl StdHost {
    pub fn new() -> StdHost {
        StdHost { inner: DefaultHost }
    }
}

impl Host for StdHost {
    fn call(&mut self, module: &str, field: &str, call_count: u64, args: &[Val], results: &[ValType]) -> Result<Vec<Val>, Trap> {
        self.inner.call(module, field, call_count, args, results)
    }
    fn global_import(&mut self, module: &str, field: &str, ty: ValType, _mutable: bool) -> Option<Val> {
        let h = wv_interp::host::import_hash(module, field);
        if h & 1 == 0 {
            return None;
        }
        match ty {
            ValType::I32 => Some(Val::I32(((h >> 8) % 32 * 8) as i32)),
            ValType::I64 => Some(Val::I64(((h >> 8) % 32 * 8) as i64)),
            _ => None,
        }
    }
}

pub fn limits() -> Limits {
    Limits { max_pages: 128, max_table: 10_000, max_call_depth: 500, fuel: 50_000 }
}

fn arg_for(t: ValType, rng: &mut Rng) -> Val {
    match t {
        ValType::I32 => Val::I32(rng.interesting_u64() as u32 as i32),
        ValType::I64 => Val::I64(rng.interesting_u64() as i64),
        ValType::F32 => Val::F32(match rng.below(4) {
            0 => 0x7fc0_0001,
            1 => 0x3f80_0000,
            2 => 0xc2c8_0000,
            _ => rng.next() as u32,
        }),
        ValType::F64 => Val::F64(match rng.below(4) {
            0 => 0x7ff8_0000_0000_0001,
            1 => 0x3ff0_0000_0000_0000,
            2 => 0xc059_0000_0000_0000,
            _ => rng.next(),
        }),
        ValType::V128 => Val::V128(((rng.next() as u128) << 64) | rng.interesting_u64() as u128),
        ValType::Ref(r) if r == wasmparser::RefType::EXTERNREF => {
            if rng.bool() {
                Val::ExternRef(None)
            } else {
                Val::ExternRef(Some(rng.below(5) as u32))
            }
        }
        ValType::Ref(_) => Val::FuncRef(None),
    }
}

#[derive(Clone, Debug)]
pub struct Call {
    pub export: String,
    pub args: Vec<Val>,
}

/// The call sequence is derived from the input module only (export names and
/// signatures), so both sides are driven identically.
pub fn plan_calls(input: &[u8], seed: u64, max_calls: usize) -> Result<Vec<Call>, String> {
    let inst = match Instance::instantiate(input, Box::new(StdHost::new()), limits()) {
        Ok(i) => i,
        Err(e) => return Err(format!("{:?}", e)),
    };
    let mut funcs: Vec<(String, Vec<ValType>)> = inst
        .exports()
        .into_iter()
        .filter_map(|e| match e.kind {
            ExportKind::Func { params, .. } => Some((e.name, params)),
            _ => None,
        })
        .collect();
    funcs.sort();
    let mut rng = Rng::derive(seed, &[0xC011]);
    let mut out = Vec::new();
    if funcs.is_empty() {
        return Ok(out);
    }
    // every export at least once (while the budget lasts), then random repeats: state carries over
    let mut order: Vec<usize> = (0..funcs.len()).collect();
    rng.shuffle(&mut order);
    for i in order.iter().take(max_calls) {
        let (n, p) = &funcs[*i];
        out.push(Call { export: n.clone(), args: p.iter().map(|t| arg_for(*t, &mut rng)).collect() });
    }
    while out.len() < max_calls.min(funcs.len() * 2 + 3) {
        let (n, p) = &funcs[rng.usize(funcs.len())];
        out.push(Call { export: n.clone(), args: p.iter().map(|t| arg_for(*t, &mut rng)).collect() });
    }
    Ok(out)
}

thread_local! {
    /// C18: index (in the instance being observed) of the function that is being replaced; references to it
    /// are printed as `funcref:REPLACED` on both sides (it is a host import in the model and a local
    /// function in the output)
    static SPECIAL_FUNC: std::cell::Cell<Option<u32>> = std::cell::Cell::new(None);
}

fn val_str(inst: &Instance, v: &Val) -> String {
    if let Val::FuncRef(Some(f)) = v {
        if SPECIAL_FUNC.with(|s| s.get()) == Some(*f) {
            return "funcref:REPLACED".into();
        }
    }
    match v {
        Val::I32(x) => format!("i32:{}", x),
        Val::I64(x) => format!("i64:{}", x),
        Val::F32(x) => format!("f32:{:08x}", x),
        Val::F64(x) => format!("f64:{:016x}", x),
        Val::V128(x) => format!("v128:{:032x}", x),
        Val::FuncRef(None) => "funcref:null".into(),
        // function indices are renumbered by walrus: compare by class
        Val::FuncRef(Some(f)) => format!("funcref:{:?}", inst.func_class(*f)),
        Val::ExternRef(x) => format!("externref:{:?}", x),
    }
}

fn outcome_str(inst: &Instance, o: &Outcome) -> String {
    match o {
        Outcome::Returned(vs) => format!("returned[{}]", vs.iter().map(|v| val_str(inst, v)).collect::<Vec<_>>().join(",")),
        Outcome::Trap(t) => format!("trap:{:?}", t),
        Outcome::OutOfFuel => "out-of-fuel".into(),
        Outcome::Unsupported(s) => format!("unsupported:{}", s),
    }
}

/// Exported state, by export name.
fn state_str(inst: &Instance) -> Vec<String> {
    let mut ex = inst.exports();
    ex.sort_by(|a, b| a.name.cmp(&b.name));
    let mut out = Vec::new();
    for e in ex {
        match e.kind {
            ExportKind::Global { .. } => out.push(format!("global {:?} = {}", e.name, val_str(inst, &inst.global_value(e.index)))),
            ExportKind::Memory => out.push(format!("memory {:?} len={} hash={:016x}", e.name, inst.memory_len(e.index), inst.memory_hash(e.index))),
            ExportKind::Table => {
                let n = inst.table_len(e.index);
                let mut s = format!("table {:?} len={}", e.name, n);
                for i in 0..n.min(64) {
                    s.push_str(&format!(" {}", val_str(inst, &inst.table_get(e.index, i))));
                }
                out.push(s);
            }
            _ => {}
        }
    }
    out
}

#[derive(Clone, Debug, Default)]
pub struct Observation {
    pub instantiate: String,
    /// per call: outcome, host trace, state
    pub steps: Vec<(String, Vec<String>, Vec<String>)>,
    pub instrs: u64,
    pub host_calls: u64,
    pub normal_returns: u64,
    pub traps: Vec<String>,
    pub unsupported: Vec<String>,
    pub initial_state: Vec<String>,
}

pub fn inst_err_str(e: &InstantiateError) -> String {
    match e {
        InstantiateError::Trap { phase, trap } => format!("trap in {}: {:?}", phase, trap),
        other => format!("{:?}", other),
    }
}

pub fn observe(wasm: &[u8], calls: &[Call], host: Box<dyn Host>) -> Observation {
    let mut o = Observation::default();
    let mut inst = match Instance::instantiate(wasm, host, limits()) {
        Ok(i) => i,
        Err(e) => {
            o.instantiate = inst_err_str(&e);
            return o;
        }
    };
    o.instantiate = "ok".into();
    let tr = inst.take_host_trace();
    o.initial_state = state_str(&inst);
    o.initial_state.push(format!("start host calls: {}", tr.iter().map(|h| format!("{}.{}({:?})", h.module, h.field, h.args.len())).collect::<Vec<_>>().join(";")));
    for c in calls {
        let before = inst.stats().instrs_executed;
        let out = inst.call_export(&c.export, &c.args);
        let s = outcome_str(&inst, &out);
        match &out {
            Outcome::Returned(_) => {
                if inst.stats().instrs_executed - before >= 50 {
                    o.normal_returns += 1;
                }
            }
            Outcome::Trap(t) => o.traps.push(format!("{:?}", t).split('(').next().unwrap_or("").to_string()),
            Outcome::Unsupported(u) => o.unsupported.push(u.clone()),
            Outcome::OutOfFuel => o.traps.push("OutOfFuel".into()),
        }
        let trace: Vec<String> = inst
            .take_host_trace()
            .iter()
            .map(|h| {
                format!(
                    "{}.{}({}) -> [{}]",
                    h.module,
                    h.field,
                    h.args.iter().map(|v| val_str(&inst, v)).collect::<Vec<_>>().join(","),
                    h.results.iter().map(|v| val_str(&inst, v)).collect::<Vec<_>>().join(",")
                )
            })
            .collect();
        o.host_calls += trace.len() as u64;
        let st = state_str(&inst);
        o.steps.push((s, trace, st));
    }
    o.instrs = inst.stats().instrs_executed;
    o
}

/// First difference between two observations, if any: (signature, detail).
pub fn diff(a: &Observation, b: &Observation, calls: &[Call]) -> Option<(String, String)> {
    if a.instantiate != b.instantiate {
        return Some(("instantiation-outcome".into(), format!("input: {} / output: {}", a.instantiate, b.instantiate)));
    }
    if a.initial_state != b.initial_state {
        let k = a.initial_state.iter().zip(b.initial_state.iter()).position(|(x, y)| x != y).unwrap_or(0);
        return Some(("state-after-instantiation".into(), format!("input: {:?} / output: {:?}", a.initial_state.get(k), b.initial_state.get(k))));
    }
    for (i, (x, y)) in a.steps.iter().zip(b.steps.iter()).enumerate() {
        let c = &calls[i];
        if x.0 != y.0 {
            let kind = if x.0.starts_with("trap") != y.0.starts_with("trap") {
                "trap-vs-return"
            } else if x.0.starts_with("trap") {
                "trap-kind"
            } else {
                "result-value"
            };
            return Some((format!("call-result/{}", kind), format!("call #{} {}({:?}): input {} / output {}", i, c.export, c.args, x.0, y.0)));
        }
        if x.1 != y.1 {
            let k = x.1.iter().zip(y.1.iter()).position(|(p, q)| p != q).unwrap_or(x.1.len().min(y.1.len()));
            return Some(("host-call-trace".into(), format!("call #{} {}: host trace differs at entry {}: {:?} vs {:?} (lengths {} / {})", i, c.export, k, x.1.get(k), y.1.get(k), x.1.len(), y.1.len())));
        }
        if x.2 != y.2 {
            let k = x.2.iter().zip(y.2.iter()).position(|(p, q)| p != q).unwrap_or(0);
            let what = x.2.get(k).map(|s| s.split(' ').next().unwrap_or("")).unwrap_or("?");
            return Some((format!("exported-state/{}", what), format!("after call #{} {}: input {:?} / output {:?}", i, c.export, x.2.get(k), y.2.get(k))));
        }
    }
    if a.steps.len() != b.steps.len() {
        return Some(("call-count".into(), "different number of steps".into()));
    }
    None
}

pub fn c01(c: &Case, rep: &mut Report, seed: u64) {
    let end = c.end.unwrap();
    if end.str("parse") != Some("ok") {
        rep.count("not-accepted", 1);
        rep.held(c);
        return;
    }
    let input = c.input.unwrap_or(&[]);
    if wv_oracle::feat::validate(input, false).is_err() {
        rep.inconclusive(c, "input-rejected-by-reference-validator");
        return;
    }
    let out = match end.get("out.emit") {
        Some(o) => o,
        None => {
            rep.inconclusive(c, "no-output");
            return;
        }
    };
    if let Err(e) = wv_oracle::feat::validate(out, false) {
        rep.violation(c, "C01/output-invalid", &format!("the output does not validate, so it cannot be instantiated like the input: {}", e), &[("out.emit.wasm", out)]);
        return;
    }
    let case_seed = seed ^ wv_gen::rng::fnv64(c.spec.as_bytes());
    let calls = match plan_calls(input, case_seed, 12) {
        Ok(c) => c,
        Err(_) => vec![],
    };
    let a = observe(input, &calls, Box::new(StdHost::new()));
    let b = observe(out, &calls, Box::new(StdHost::new()));
    rep.count("calls", a.steps.len() as u64);
    rep.count("instructions-executed-on-input", a.instrs);
    rep.count("host-calls", a.host_calls);
    for t in &a.traps {
        rep.observe("trap-kinds", t);
    }
    for u in &a.unsupported {
        rep.observe("interpreter-unsupported", u);
    }
    rep.observe("instantiation-outcomes", a.instantiate.split(':').next().unwrap_or(""));
    if a.instantiate.contains("Unsupported") {
        rep.inconclusive(c, "interpreter-limit-at-instantiation");
        return;
    }
    if let Some((sig, detail)) = diff(&a, &b, &calls) {
        rep.violation(c, &format!("C01/{}", sig), &detail, &[("out.emit.wasm", out)]);
    }
    if a.normal_returns >= 1 {
        rep.nontrivial(c, "");
    }
    rep.sample(json!({"spec": c.spec, "instantiate": a.instantiate, "calls": calls.iter().take(3).map(|c| format!("{}({})", c.export, c.args.len())).collect::<Vec<_>>(), "first_outcomes": a.steps.iter().take(3).map(|s| s.0.chars().take(60).collect::<String>()).collect::<Vec<_>>(), "instrs": a.instrs}));
    rep.held(c);
}

// ------------------------------------------------------------------------------------------------
// C18: function replacement
// ------------------------------------------------------------------------------------------------

fn marker_for(t: ValType) -> Val {
    match t {
        ValType::I32 => Val::I32(0x5EED_0001),
        ValType::I64 => Val::I64(0x5EED_0002_0000_0003),
        ValType::F32 => Val::F32(0x7fa0_0001),
        ValType::F64 => Val::F64(0x7ff4_0000_0000_0001),
        ValType::V128 => Val::V128(0x5EED_0004_0000_0000_0000_0000_0000_0005),
        ValType::Ref(r) if r == wasmparser::RefType::EXTERNREF => Val::ExternRef(None),
        ValType::Ref(_) => Val::FuncRef(None),
    }
}

/// Host of the expected-behaviour model: the replaced import behaves like the new body.
struct ReplHost {
    inner: StdHost,
    module: String,
    field: String,
}

impl Host for ReplHost {
    fn call(&mut self, module: &str, field: &str, call_count: u64, args: &[Val], results: &[ValType]) -> Result<Vec<Val>, Trap> {
        if module == self.module && field == self.field {
            return Ok(results.iter().map(|t| marker_for(*t)).collect());
        }
        self.inner.call(module, field, call_count, args, results)
    }
    fn global_import(&mut self, module: &str, field: &str, ty: ValType, mutable: bool) -> Option<Val> {
        self.inner.global_import(module, field, ty, mutable)
    }
}

fn normalise_traces(o: &mut Observation, prefix: &str) {
    for s in o.steps.iter_mut() {
        for t in s.1.iter_mut() {
            if t.starts_with(prefix) {
                *t = "REPLACED".to_string();
            }
        }
    }
}

pub fn c18(c: &Case, rep: &mut Report, seed: u64) {
    use wv_oracle::decode;
    let end = c.end.unwrap();
    if end.str("parse") != Some("ok") {
        rep.count("not-accepted", 1);
        rep.held(c);
        return;
    }
    let input = c.input.unwrap_or(&[]);
    if wv_oracle::feat::validate(input, false).is_err() {
        rep.inconclusive(c, "input-rejected-by-reference-validator");
        return;
    }
    let din = match decode::decode(input) {
        Ok(d) => d,
        Err(e) => {
            rep.inconclusive(c, &format!("input-decode:{}", e));
            return;
        }
    };
    for (k, v) in &end.fields {
        let p = std::str::from_utf8(v).unwrap_or("?");
        if k.starts_with("panic.") {
            rep.violation(c, &format!("C18/panic/{}", crate::basic::panic_signature(p)), &format!("{}: {}", k, p), &[]);
        } else if k.starts_with("err.") {
            rep.violation(c, "C18/replace-refused", &format!("{}: {}", k, p), &[]);
        }
    }
    let case_seed = seed ^ wv_gen::rng::fnv64(c.spec.as_bytes());
    let calls = plan_calls(input, case_seed, 10).unwrap_or_default();
    let imp_list = |m: &decode::DModule| -> Vec<String> { m.imports.iter().map(|i| format!("{}/{} {:?}", i.module, i.field, match &i.kind { decode::DImportKind::Func(t) => format!("func {:?}", m.types.get(*t as usize)), other => format!("{:?}", other) })).collect() };
    let mut replaced = 0;
    for (k, out) in end.fields.iter().filter(|(k, _)| k.starts_with("out.")) {
        let mut it = k[4..].split('.');
        let (kind, fi) = (it.next().unwrap_or(""), it.next().and_then(|x| x.parse::<u32>().ok()).unwrap_or(u32::MAX));
        let blob = [("out.wasm", &out[..])];
        let which = if kind == "imp" { "replace_imported_func" } else { "replace_exported_func" };
        if let Err(e) = wv_oracle::feat::validate(out, false) {
            let sig: String = e.split(" (at offset").next().unwrap_or(&e).chars().take(60).collect();
            rep.violation(c, &format!("C18/{}/output-invalid/{}", which, crate::basic::panic_signature(&format!("v: {}", sig))), &format!("function {}: {}", fi, e), &blob);
            continue;
        }
        let dout = match decode::decode(out) {
            Ok(d) => d,
            Err(e) => {
                rep.violation(c, "C18/output-undecodable", &e, &blob);
                continue;
            }
        };
        let func = match din.funcs.get(fi as usize) {
            Some(f) => f,
            None => continue,
        };
        replaced += 1;
        // --- import list: only that import removed (plus the trace import the harness itself added, last)
        let mut want_imports: Vec<String> = Vec::new();
        for (i, s) in imp_list(&din).into_iter().enumerate() {
            if kind == "imp" && func.import == Some(i) {
                continue;
            }
            want_imports.push(s);
        }
        let got_imports = imp_list(&dout);
        let trace_sig = "wv/trace";
        let got_wo_trace: Vec<String> = got_imports.iter().filter(|s| !s.starts_with(trace_sig)).cloned().collect();
        if got_wo_trace != want_imports {
            rep.violation(c, &format!("C18/{}/import-list", which), &format!("function {}: imports expected {:?}, got {:?}", fi, want_imports, got_wo_trace), &blob);
        }
        // --- exports keep names and kinds
        let mut ein: Vec<(String, decode::EKind)> = din.exports.iter().map(|e| (e.name.clone(), e.kind)).collect();
        let mut eout: Vec<(String, decode::EKind)> = dout.exports.iter().map(|e| (e.name.clone(), e.kind)).collect();
        ein.sort();
        eout.sort();
        if ein != eout {
            rep.violation(c, &format!("C18/{}/exports-changed", which), &format!("{:?} became {:?}", ein, eout), &blob);
        }
        // --- behaviour against the expected model
        // imports may share a (module, field) pair: for the comparison every function import gets its input index
        // appended to its field name, on both sides (the output keeps the remaining imports in input order and
        // has the harness's trace import last - checked above), so that the host can tell them apart
        let renamed_field = if kind == "imp" { format!("{}@{}", din.imports[func.import.unwrap_or(0)].field, fi) } else { String::new() };
        let (ren_in, ren_out);
        let (input, out): (&[u8], &[u8]) = if kind == "imp" {
            ren_in = wv_oracle::sections::rename_func_imports(input, &|k, _m, f| format!("{}@{}", f, k)).unwrap_or_else(|| input.to_vec());
            ren_out = wv_oracle::sections::rename_func_imports(out, &|j, m, f| if m == "wv" && f == "trace" { f.to_string() } else { format!("{}@{}", f, if j < fi { j } else { j + 1 }) }).unwrap_or_else(|| out.to_vec());
            (&ren_in, &ren_out)
        } else {
            (input, out)
        };
        let (mut a, b_) = if kind == "imp" {
            let imp = &din.imports[func.import.unwrap_or(0)];
            let host = ReplHost { inner: StdHost::new(), module: imp.module.clone(), field: renamed_field.clone() };
            SPECIAL_FUNC.with(|s| s.set(Some(fi)));
            let mut a = observe(input, &calls, Box::new(host));
            normalise_traces(&mut a, &format!("{}.{}(", imp.module, renamed_field));
            // in the output the replaced function is the one whose body starts with the harness marker
            let out_idx = dout.funcs.iter().position(|f| f.body.as_ref().map(|b| b.ops.iter().any(|o| matches!(o.op, wasmparser::Operator::I32Const { value: 0x7ACE }))).unwrap_or(false)).map(|i| i as u32);
            SPECIAL_FUNC.with(|s| s.set(out_idx));
            let b = observe(out, &calls, Box::new(StdHost::new()));
            SPECIAL_FUNC.with(|s| s.set(None));
            (a, b)
        } else {
            // the first export of that function is retargeted: calls to it behave like the new body,
            // everything else (other exports, internal callers) still reaches the original
            let first = din.exports.iter().find(|e| e.kind == decode::EKind::Func && e.index == fi).map(|e| e.name.clone()).unwrap_or_default();
            let results: Vec<ValType> = din.sig_of_func(fi).map(|s| s.results.iter().map(|t| t.wp()).collect()).unwrap_or_default();
            let empty = end.num(&format!("empty.{}", &k[4..])).is_some();
            if empty {
                rep.count("exported-functions-replaced-by-an-empty-body", 1);
            }
            let a = observe_with_override_opt(input, &calls, Box::new(StdHost::new()), &first, &results, !empty);
            (a, observe(out, &calls, Box::new(StdHost::new())))
        };
        let mut b = b_;
        normalise_traces(&mut b, "wv.trace(");
        // the start function may call the replaced import: initial host-call summary differs in names only
        if let (Some(x), Some(y)) = (a.initial_state.last_mut(), b.initial_state.last_mut()) {
            if kind == "imp" {
                let imp = &din.imports[func.import.unwrap_or(0)];
                *x = x.replace(&format!("{}.{}(", imp.module, renamed_field), "REPLACED(").replace("REPLACED(0)", "REPLACED(1)").replace("REPLACED(2)", "REPLACED(1)").replace("REPLACED(3)", "REPLACED(1)");
                *y = y.replace("wv.trace(", "REPLACED(");
            }
        }
        rep.count("replacements-executed", 1);
        rep.count("calls-compared", a.steps.len() as u64);
        if a.instantiate.contains("Unsupported") {
            rep.inconclusive(c, "interpreter-limit-at-instantiation");
            continue;
        }
        // the new body costs one call (and one frame) more than the host import it replaces, so the interpreter's
        // resource limits (fuel, call depth) are hit at different points: a call that hits one of them on either
        // side, and everything after it, is not comparable
        let limit = |s: &str| s == "out-of-fuel" || s == "trap:StackExhausted";
        if let Some(k) = a.steps.iter().zip(b.steps.iter()).position(|(x, y)| limit(&x.0) || limit(&y.0)) {
            a.steps.truncate(k);
            b.steps.truncate(k);
            rep.count("calls-not-compared-after-fuel-exhaustion", 1);
        }
        if a.instantiate.contains("OutOfFuel") || b.instantiate.contains("OutOfFuel") {
            rep.inconclusive(c, "fuel-exhausted-at-instantiation");
            continue;
        }
        // a start function that calls the replaced import changes instantiation traces only by name: compare outcome
        if let Some((sig, detail)) = diff(&a, &b, &calls) {
            rep.violation(c, &format!("C18/{}/{}", which, sig), &format!("function {}: {}", fi, detail), &blob);
        }
        rep.observe("kinds", which);
        let n_replaced_calls: usize = b.steps.iter().map(|s| s.1.iter().filter(|t| *t == "REPLACED").count()).sum();
        rep.count("new-body-executions-observed", n_replaced_calls as u64);
        a.steps.clear();
    }
    if replaced > 0 {
        rep.nontrivial(c, "");
    }
    rep.sample(json!({"spec": c.spec, "replacements": replaced, "calls": calls.len()}));
    rep.held(c);
}

/// Like `observe`, but calls to the export `name` are answered by the model of the replacement body
/// (one traced host call, marker results) without running anything.
pub fn observe_with_override(wasm: &[u8], calls: &[Call], host: Box<dyn Host>, name: &str, results: &[ValType]) -> Observation {
    observe_with_override_opt(wasm, calls, host, name, results, true)
}

/// `traces`: the replacement body calls the harness's trace import (false: the replacement body is empty)
pub fn observe_with_override_opt(wasm: &[u8], calls: &[Call], host: Box<dyn Host>, name: &str, results: &[ValType], traces: bool) -> Observation {
    let mut o = Observation::default();
    let mut inst = match Instance::instantiate(wasm, host, limits()) {
        Ok(i) => i,
        Err(e) => {
            o.instantiate = inst_err_str(&e);
            return o;
        }
    };
    o.instantiate = "ok".into();
    let tr = inst.take_host_trace();
    o.initial_state = state_str(&inst);
    o.initial_state.push(format!("start host calls: {}", tr.iter().map(|h| format!("{}.{}({:?})", h.module, h.field, h.args.len())).collect::<Vec<_>>().join(";")));
    for c in calls {
        if c.export == name {
            let vals: Vec<Val> = results.iter().map(|t| marker_for(*t)).collect();
            let s = outcome_str(&inst, &Outcome::Returned(vals));
            let st = state_str(&inst);
            o.steps.push((s, if traces { vec!["REPLACED".to_string()] } else { vec![] }, st));
            continue;
        }
        let out = inst.call_export(&c.export, &c.args);
        let s = outcome_str(&inst, &out);
        let trace: Vec<String> = inst
            .take_host_trace()
            .iter()
            .map(|h| format!("{}.{}({}) -> [{}]", h.module, h.field, h.args.iter().map(|v| val_str(&inst, v)).collect::<Vec<_>>().join(","), h.results.iter().map(|v| val_str(&inst, v)).collect::<Vec<_>>().join(",")))
            .collect();
        let st = state_str(&inst);
        o.steps.push((s, trace, st));
    }
    o.instrs = inst.stats().instrs_executed;
    o
}

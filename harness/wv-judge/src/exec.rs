//! Execution equivalence (C01, C06, C18): both binaries are instantiated in
//! the reference interpreter against the same deterministic host and driven
//! through the same seeded call sequence; after every call the result, the
//! trap, the host-call trace and the exported state are compared.

use crate::report::Report;
use crate::Case;
use serde_json::json;
use wasmparser::ValType;
use wv_gen::rng::Rng;
use wv_interp::{DefaultHost, ExportKind, Host, Instance, InstantiateError, Limits, Outcome, Trap, Val};

/// Deterministic host: imported function results are a pure function of
/// (module, field, call count, args); imported integer globals get small
/// values half of the time so that offsets taken from them can be in bounds.
pub struct StdHost {
    inner: DefaultHost,
}

impl StdHost {
    pub fn new() -> StdHost {
        StdHost { inner: DefaultHost }
    }
}

impl Host for StdHost {
    fn call(&mut self, module: &str, field: &str, call_count: u64, args: &[Val], results: &[ValType]) -> Result<Vec<Val>, Trap> {
        self.inner.call(module, field, call_count, args, results)
    }
    fn global_import(&mut self, module: &str, field: &str, ty: ValType, _mutable: bool) -> Option<Val> {
        let h = wv_interp::host::import_hash(module, field);
        if h & 1 == 0 {
            return None;
        }
        match ty {
            ValType::I32 => Some(Val::I32(((h >> 8) % 32 * 8) as i32)),
            ValType::I64 => Some(Val::I64(((h >> 8) % 32 * 8) as i64)),
            _ => None,
        }
    }
}

pub fn limits() -> Limits {
    Limits { max_pages: 16, max_table: 10_000, max_call_depth: 500, fuel: 50_000 }
}

fn arg_for(t: ValType, rng: &mut Rng) -> Val {
    match t {
        ValType::I32 => Val::I32(rng.interesting_u64() as u32 as i32),
        ValType::I64 => Val::I64(rng.interesting_u64() as i64),
        ValType::F32 => Val::F32(match rng.below(4) {
            0 => 0x7fc0_0001,
            1 => 0x3f80_0000,
            2 => 0xc2c8_0000,
            _ => rng.next() as u32,
        }),
        ValType::F64 => Val::F64(match rng.below(4) {
            0 => 0x7ff8_0000_0000_0001,
            1 => 0x3ff0_0000_0000_0000,
            2 => 0xc059_0000_0000_0000,
            _ => rng.next(),
        }),
        ValType::V128 => Val::V128(((rng.next() as u128) << 64) | rng.interesting_u64() as u128),
        ValType::Ref(r) if r == wasmparser::RefType::EXTERNREF => {
            if rng.bool() {
                Val::ExternRef(None)
            } else {
                Val::ExternRef(Some(rng.below(5) as u32))
            }
        }
        ValType::Ref(_) => Val::FuncRef(None),
    }
}

#[derive(Clone, Debug)]
pub struct Call {
    pub export: String,
    pub args: Vec<Val>,
}

/// The call sequence is derived from the input module only (export names and
/// signatures), so both sides are driven identically.
pub fn plan_calls(input: &[u8], seed: u64, max_calls: usize) -> Result<Vec<Call>, String> {
    let inst = match Instance::instantiate(input, Box::new(StdHost::new()), limits()) {
        Ok(i) => i,
        Err(e) => return Err(format!("{:?}", e)),
    };
    let mut funcs: Vec<(String, Vec<ValType>)> = inst
        .exports()
        .into_iter()
        .filter_map(|e| match e.kind {
            ExportKind::Func { params, .. } => Some((e.name, params)),
            _ => None,
        })
        .collect();
    funcs.sort();
    let mut rng = Rng::derive(seed, &[0xC011]);
    let mut out = Vec::new();
    if funcs.is_empty() {
        return Ok(out);
    }
    // every export at least once (while the budget lasts), then random repeats: state carries over
    let mut order: Vec<usize> = (0..funcs.len()).collect();
    rng.shuffle(&mut order);
    for i in order.iter().take(max_calls) {
        let (n, p) = &funcs[*i];
        out.push(Call { export: n.clone(), args: p.iter().map(|t| arg_for(*t, &mut rng)).collect() });
    }
    while out.len() < max_calls.min(funcs.len() * 2 + 3) {
        let (n, p) = &funcs[rng.usize(funcs.len())];
        out.push(Call { export: n.clone(), args: p.iter().map(|t| arg_for(*t, &mut rng)).collect() });
    }
    Ok(out)
}

fn val_str(inst: &Instance, v: &Val) -> String {
    match v {
        Val::I32(x) => format!("i32:{}", x),
        Val::I64(x) => format!("i64:{}", x),
        Val::F32(x) => format!("f32:{:08x}", x),
        Val::F64(x) => format!("f64:{:016x}", x),
        Val::V128(x) => format!("v128:{:032x}", x),
        Val::FuncRef(None) => "funcref:null".into(),
        // function indices are renumbered by walrus: compare by class
        Val::FuncRef(Some(f)) => format!("funcref:{:?}", inst.func_class(*f)),
        Val::ExternRef(x) => format!("externref:{:?}", x),
    }
}

fn outcome_str(inst: &Instance, o: &Outcome) -> String {
    match o {
        Outcome::Returned(vs) => format!("returned[{}]", vs.iter().map(|v| val_str(inst, v)).collect::<Vec<_>>().join(",")),
        Outcome::Trap(t) => format!("trap:{:?}", t),
        Outcome::OutOfFuel => "out-of-fuel".into(),
        Outcome::Unsupported(s) => format!("unsupported:{}", s),
    }
}

/// Exported state, by export name.
fn state_str(inst: &Instance) -> Vec<String> {
    let mut ex = inst.exports();
    ex.sort_by(|a, b| a.name.cmp(&b.name));
    let mut out = Vec::new();
    for e in ex {
        match e.kind {
            ExportKind::Global { .. } => out.push(format!("global {:?} = {}", e.name, val_str(inst, &inst.global_value(e.index)))),
            ExportKind::Memory => out.push(format!("memory {:?} len={} hash={:016x}", e.name, inst.memory_len(e.index), inst.memory_hash(e.index))),
            ExportKind::Table => {
                let n = inst.table_len(e.index);
                let mut s = format!("table {:?} len={}", e.name, n);
                for i in 0..n.min(64) {
                    s.push_str(&format!(" {}", val_str(inst, &inst.table_get(e.index, i))));
                }
                out.push(s);
            }
            _ => {}
        }
    }
    out
}

#[derive(Clone, Debug, Default)]
pub struct Observation {
    pub instantiate: String,
    /// per call: outcome, host trace, state
    pub steps: Vec<(String, Vec<String>, Vec<String>)>,
    pub instrs: u64,
    pub host_calls: u64,
    pub normal_returns: u64,
    pub traps: Vec<String>,
    pub unsupported: Vec<String>,
    pub initial_state: Vec<String>,
}

pub fn inst_err_str(e: &InstantiateError) -> String {
    match e {
        InstantiateError::Trap { phase, trap } => format!("trap in {}: {:?}", phase, trap),
        other => format!("{:?}", other),
    }
}

pub fn observe(wasm: &[u8], calls: &[Call], host: Box<dyn Host>) -> Observation {
    let mut o = Observation::default();
    let mut inst = match Instance::instantiate(wasm, host, limits()) {
        Ok(i) => i,
        Err(e) => {
            o.instantiate = inst_err_str(&e);
            return o;
        }
    };
    o.instantiate = "ok".into();
    let tr = inst.take_host_trace();
    o.initial_state = state_str(&inst);
    o.initial_state.push(format!("start host calls: {}", tr.iter().map(|h| format!("{}.{}({:?})", h.module, h.field, h.args.len())).collect::<Vec<_>>().join(";")));
    for c in calls {
        let before = inst.stats().instrs_executed;
        let out = inst.call_export(&c.export, &c.args);
        let s = outcome_str(&inst, &out);
        match &out {
            Outcome::Returned(_) => {
                if inst.stats().instrs_executed - before >= 50 {
                    o.normal_returns += 1;
                }
            }
            Outcome::Trap(t) => o.traps.push(format!("{:?}", t).split('(').next().unwrap_or("").to_string()),
            Outcome::Unsupported(u) => o.unsupported.push(u.clone()),
            Outcome::OutOfFuel => o.traps.push("OutOfFuel".into()),
        }
        let trace: Vec<String> = inst
            .take_host_trace()
            .iter()
            .map(|h| {
                format!(
                    "{}.{}({}) -> [{}]",
                    h.module,
                    h.field,
                    h.args.iter().map(|v| val_str(&inst, v)).collect::<Vec<_>>().join(","),
                    h.results.iter().map(|v| val_str(&inst, v)).collect::<Vec<_>>().join(",")
                )
            })
            .collect();
        o.host_calls += trace.len() as u64;
        let st = state_str(&inst);
        o.steps.push((s, trace, st));
    }
    o.instrs = inst.stats().instrs_executed;
    o
}

/// First difference between two observations, if any: (signature, detail).
pub fn diff(a: &Observation, b: &Observation, calls: &[Call]) -> Option<(String, String)> {
    if a.instantiate != b.instantiate {
        return Some(("instantiation-outcome".into(), format!("input: {} / output: {}", a.instantiate, b.instantiate)));
    }
    if a.initial_state != b.initial_state {
        let k = a.initial_state.iter().zip(b.initial_state.iter()).position(|(x, y)| x != y).unwrap_or(0);
        return Some(("state-after-instantiation".into(), format!("input: {:?} / output: {:?}", a.initial_state.get(k), b.initial_state.get(k))));
    }
    for (i, (x, y)) in a.steps.iter().zip(b.steps.iter()).enumerate() {
        let c = &calls[i];
        if x.0 != y.0 {
            let kind = if x.0.starts_with("trap") != y.0.starts_with("trap") {
                "trap-vs-return"
            } else if x.0.starts_with("trap") {
                "trap-kind"
            } else {
                "result-value"
            };
            return Some((format!("call-result/{}", kind), format!("call #{} {}({:?}): input {} / output {}", i, c.export, c.args, x.0, y.0)));
        }
        if x.1 != y.1 {
            let k = x.1.iter().zip(y.1.iter()).position(|(p, q)| p != q).unwrap_or(x.1.len().min(y.1.len()));
            return Some(("host-call-trace".into(), format!("call #{} {}: host trace differs at entry {}: {:?} vs {:?} (lengths {} / {})", i, c.export, k, x.1.get(k), y.1.get(k), x.1.len(), y.1.len())));
        }
        if x.2 != y.2 {
            let k = x.2.iter().zip(y.2.iter()).position(|(p, q)| p != q).unwrap_or(0);
            let what = x.2.get(k).map(|s| s.split(' ').next().unwrap_or("")).unwrap_or("?");
            return Some((format!("exported-state/{}", what), format!("after call #{} {}: input {:?} / output {:?}", i, c.export, x.2.get(k), y.2.get(k))));
        }
    }
    if a.steps.len() != b.steps.len() {
        return Some(("call-count".into(), "different number of steps".into()));
    }
    None
}

pub fn c01(c: &Case, rep: &mut Report, seed: u64) {
    let end = c.end.unwrap();
    if end.str("parse") != Some("ok") {
        rep.count("not-accepted", 1);
        rep.held(c);
        return;
    }
    let input = c.input.unwrap_or(&[]);
    if wv_oracle::feat::validate(input, false).is_err() {
        rep.inconclusive(c, "input-rejected-by-reference-validator");
        return;
    }
    let out = match end.get("out.emit") {
        Some(o) => o,
        None => {
            rep.inconclusive(c, "no-output");
            return;
        }
    };
    if let Err(e) = wv_oracle::feat::validate(out, false) {
        rep.violation(c, "C01/output-invalid", &format!("the output does not validate, so it cannot be instantiated like the input: {}", e), &[("out.emit.wasm", out)]);
        return;
    }
    let case_seed = seed ^ wv_gen::rng::fnv64(c.spec.as_bytes());
    let calls = match plan_calls(input, case_seed, 12) {
        Ok(c) => c,
        Err(_) => vec![],
    };
    let a = observe(input, &calls, Box::new(StdHost::new()));
    let b = observe(out, &calls, Box::new(StdHost::new()));
    rep.count("calls", a.steps.len() as u64);
    rep.count("instructions-executed-on-input", a.instrs);
    rep.count("host-calls", a.host_calls);
    for t in &a.traps {
        rep.observe("trap-kinds", t);
    }
    for u in &a.unsupported {
        rep.observe("interpreter-unsupported", u);
    }
    rep.observe("instantiation-outcomes", a.instantiate.split(':').next().unwrap_or(""));
    if a.instantiate.contains("Unsupported") {
        rep.inconclusive(c, "interpreter-limit-at-instantiation");
        return;
    }
    if let Some((sig, detail)) = diff(&a, &b, &calls) {
        rep.violation(c, &format!("C01/{}", sig), &detail, &[("out.emit.wasm", out)]);
    }
    if a.normal_returns >= 1 {
        rep.nontrivial(c, "");
    }
    rep.sample(json!({"spec": c.spec, "instantiate": a.instantiate, "calls": calls.iter().take(3).map(|c| format!("{}({})", c.export, c.args.len())).collect::<Vec<_>>(), "first_outcomes": a.steps.iter().take(3).map(|s| s.0.chars().take(60).collect::<String>()).collect::<Vec<_>>(), "instrs": a.instrs}));
    rep.held(c);
}

fn main() {
    let a = std::fs::read(std::env::args().nth(1).unwrap()).unwrap();
    let b = std::fs::read(std::env::args().nth(2).unwrap()).unwrap();
    let markers = std::env::args().nth(3).is_some();
    let da = wv_oracle::decode::decode(&a).unwrap();
    let db = wv_oracle::decode::decode(&b).unwrap();
    let r = wv_oracle::iso::compare_opts(&da, &db, None, wv_oracle::iso::IsoOpts { skip_output_markers: markers });
    for p in &r.problems { println!("{} {} :: {}", p.cat, p.sig, p.detail); }
    println!("ops compared {}", r.ops_compared);
    if let Some(off) = std::env::args().nth(4).and_then(|s| s.parse::<usize>().ok()) {
        for (m, name) in [(&da, "in"), (&db, "out")] {
            for (fi, f) in m.funcs.iter().enumerate() { if let Some(body) = &f.body { for (i, o) in body.ops.iter().enumerate() {
                if o.offset + 16 > off && o.offset < off + 24 && name == "in" || (name == "out" && std::env::args().nth(5).and_then(|s| s.parse::<usize>().ok()).map(|x| o.offset + 30 > x && o.offset < x + 30).unwrap_or(false)) { println!("{} f{} #{} @{} {:?}", name, fi, i, o.offset, o.op); }
            } } }
        }
    }
}

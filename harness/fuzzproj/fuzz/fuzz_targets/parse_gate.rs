#![no_main]
//! C05, coverage-guided: walrus's parse verdict must equal the reference validator's under both
//! configurations; a panic inside parse aborts the process (libFuzzer records the input).
use libfuzzer_sys::fuzz_target;
use wasmparser::WasmFeatures as F;

fn feats(stable: bool) -> F {
    let mut f = F::empty();
    for x in [F::FLOATS, F::MUTABLE_GLOBAL, F::SATURATING_FLOAT_TO_INT, F::SIGN_EXTENSION, F::MULTI_VALUE, F::REFERENCE_TYPES, F::BULK_MEMORY, F::SIMD, F::RELAXED_SIMD, F::TAIL_CALL] {
        f.insert(x);
    }
    if !stable {
        for x in [F::MULTI_MEMORY, F::MEMORY64, F::THREADS] {
            f.insert(x);
        }
    }
    f
}

fuzz_target!(|data: &[u8]| {
    for stable in [false, true] {
        let mut cfg = walrus::ModuleConfig::new();
        cfg.only_stable_features(stable);
        let w = cfg.parse(data);
        let v = wasmparser::Validator::new_with_features(feats(stable)).validate_all(data);
        if w.is_ok() != v.is_ok() {
            panic!("verdicts differ (only_stable={}): walrus={:?} validator={:?}", stable, w.as_ref().err().map(|e| e.to_string()), v.as_ref().err().map(|e| e.to_string()));
        }
    }
});

//! Pre-decoding of function bodies into a flat op vector with resolved block structure.

use crate::numeric::{translate_binop, translate_unop, BinOp, UnOp};
use crate::simd::LaneKind;
use wasmparser::{BinaryReader, BlockType, FunctionBody, MemArg, Operator, WasmFeatures};

#[derive(Clone, Copy, Debug, PartialEq, Eq)]
pub enum LoadKind {
    /// zero-extending load of n bytes (covers i32/i64/f32/f64/v128 full loads and *_u loads)
    U(u8),
    /// sign-extending loads to 32 bits
    S8To32,
    S16To32,
    /// sign-extending loads to 64 bits
    S8To64,
    S16To64,
    S32To64,
    // SIMD
    V8x8S,
    V8x8U,
    V16x4S,
    V16x4U,
    V32x2S,
    V32x2U,
    Splat8,
    Splat16,
    Splat32,
    Splat64,
}

#[derive(Clone, Copy, Debug, PartialEq, Eq)]
pub enum RmwOp {
    Add,
    Sub,
    And,
    Or,
    Xor,
    Xchg,
}

pub const NO_ELSE: u32 = u32::MAX;

#[derive(Clone, Copy, Debug)]
pub enum Op {
    Unreachable,
    Nop,
    Block { end_pc: u32, np: u32, nr: u32 },
    Loop { np: u32 },
    /// `else_target` is the pc of the first op of the else branch, or NO_ELSE.
    If { else_target: u32, end_pc: u32, np: u32, nr: u32 },
    Else { end_pc: u32 },
    End,
    Br(u32),
    BrIf(u32),
    /// targets are `br_targets[start .. start+len]`, default at `start+len`
    BrTable { start: u32, len: u32 },
    Return,
    Call(u32),
    CallIndirect { ty: u32, table: u32 },
    ReturnCall(u32),
    ReturnCallIndirect { ty: u32, table: u32 },
    Drop,
    Select,
    LocalGet(u32),
    LocalSet(u32),
    LocalTee(u32),
    GlobalGet(u32),
    GlobalSet(u32),
    Load { kind: LoadKind, mem: u32, offset: u64 },
    Store { n: u8, mem: u32, offset: u64 },
    MemorySize(u32),
    MemoryGrow(u32),
    Const(u64),
    V128Const(u32),
    RefFunc(u32),
    Un(UnOp),
    Bin(BinOp),
    Bitselect,
    ExtractLane { kind: LaneKind, lane: u8 },
    ReplaceLane { bits: u8, lane: u8 },
    Shuffle(u32),
    LoadLane { n: u8, lane: u8, mem: u32, offset: u64 },
    StoreLane { n: u8, lane: u8, mem: u32, offset: u64 },
    MemoryInit { data: u32, mem: u32 },
    DataDrop(u32),
    MemoryCopy { dst: u32, src: u32 },
    MemoryFill(u32),
    TableInit { elem: u32, table: u32 },
    ElemDrop(u32),
    TableCopy { dst: u32, src: u32 },
    TableFill(u32),
    TableGet(u32),
    TableSet(u32),
    TableGrow(u32),
    TableSize(u32),
    AtomicNotify { mem: u32, offset: u64 },
    AtomicWait { n: u8, mem: u32, offset: u64 },
    AtomicFence,
    AtomicLoad { n: u8, mem: u32, offset: u64 },
    AtomicStore { n: u8, mem: u32, offset: u64 },
    AtomicRmw { op: RmwOp, n: u8, mem: u32, offset: u64 },
    AtomicCmpxchg { n: u8, mem: u32, offset: u64 },
    /// index into `Code::names`
    Unsupported(u32),
    /// end of the synthetic entry code
    Halt,
}

#[derive(Debug)]
pub struct Code {
    pub ops: Vec<Op>,
    pub br_targets: Vec<u32>,
    pub v128s: Vec<u128>,
    pub names: Vec<&'static str>,
    /// declared locals (excluding parameters)
    pub nlocals: u32,
    pub nparams: u32,
    pub nresults: u32,
}

/// Static name of every wasmparser operator (the enum variant name).
pub fn op_name(op: &Operator) -> &'static str {
    macro_rules! define_names {
        ($( @$proposal:ident $op:ident $({ $($arg:ident: $argty:ty),* })? => $visit:ident)*) => {
            match op {
                $( Operator::$op $({ $($arg: _),* })? => stringify!($op), )*
            }
        }
    }
    wasmparser::for_each_operator!(define_names)
}

enum CtlKind {
    Func,
    Block,
    Loop,
    If,
    /// `try` / `try_table` and other unsupported block-like constructs
    Other,
}

struct Ctl {
    kind: CtlKind,
    /// index of the opening op (Block/If) to patch
    open: usize,
    /// index of the Else op, if any
    else_at: Option<usize>,
}

/// Signature lookup for block types: returns (nparams, nresults).
pub trait BlockSigs {
    fn block_sig(&self, type_index: u32) -> Result<(u32, u32), String>;
}

pub fn compile(
    wasm: &[u8],
    body_range: std::ops::Range<usize>,
    nparams: u32,
    nresults: u32,
    sigs: &dyn BlockSigs,
) -> Result<Code, String> {
    let reader = BinaryReader::new(&wasm[body_range.clone()], body_range.start, WasmFeatures::all());
    let body = FunctionBody::new(reader);
    let e = |e: wasmparser::BinaryReaderError| e.to_string();

    let mut nlocals: u64 = 0;
    let mut lr = body.get_locals_reader().map_err(e)?;
    for _ in 0..lr.get_count() {
        let (count, _ty) = lr.read().map_err(e)?;
        nlocals += count as u64;
    }
    if nlocals > 50_000_000 {
        return Err("too many locals".to_string());
    }

    let mut code = Code {
        ops: Vec::new(),
        br_targets: Vec::new(),
        v128s: Vec::new(),
        names: Vec::new(),
        nlocals: nlocals as u32,
        nparams,
        nresults,
    };
    let mut ctl: Vec<Ctl> = vec![Ctl { kind: CtlKind::Func, open: 0, else_at: None }];

    let bsig = |bt: BlockType| -> Result<(u32, u32), String> {
        Ok(match bt {
            BlockType::Empty => (0, 0),
            BlockType::Type(_) => (0, 1),
            BlockType::FuncType(i) => sigs.block_sig(i)?,
        })
    };

    let mut ops = body.get_operators_reader().map_err(e)?;
    while !ops.eof() {
        let op = ops.read().map_err(e)?;
        if ctl.is_empty() {
            return Err("operators after function end".to_string());
        }
        let here = code.ops.len();
        if here >= u32::MAX as usize - 2 {
            return Err("function too large".to_string());
        }
        let out = match op {
            Operator::Unreachable => Op::Unreachable,
            Operator::Nop => Op::Nop,
            Operator::Block { blockty } => {
                let (np, nr) = bsig(blockty)?;
                ctl.push(Ctl { kind: CtlKind::Block, open: here, else_at: None });
                Op::Block { end_pc: 0, np, nr }
            }
            Operator::Loop { blockty } => {
                let (np, _nr) = bsig(blockty)?;
                ctl.push(Ctl { kind: CtlKind::Loop, open: here, else_at: None });
                Op::Loop { np }
            }
            Operator::If { blockty } => {
                let (np, nr) = bsig(blockty)?;
                ctl.push(Ctl { kind: CtlKind::If, open: here, else_at: None });
                Op::If { else_target: NO_ELSE, end_pc: 0, np, nr }
            }
            Operator::Else => {
                let top = ctl.last_mut().ok_or("else without if")?;
                if !matches!(top.kind, CtlKind::If) || top.else_at.is_some() {
                    return Err("else without matching if".to_string());
                }
                top.else_at = Some(here);
                Op::Else { end_pc: 0 }
            }
            Operator::End => {
                let top = ctl.pop().ok_or("unbalanced end")?;
                match top.kind {
                    CtlKind::Func => Op::Return,
                    CtlKind::Block => {
                        if let Op::Block { end_pc, .. } = &mut code.ops[top.open] {
                            *end_pc = here as u32;
                        }
                        Op::End
                    }
                    CtlKind::Loop => Op::End,
                    CtlKind::If => {
                        if let Op::If { else_target, end_pc, .. } = &mut code.ops[top.open] {
                            *end_pc = here as u32;
                            if let Some(e) = top.else_at {
                                *else_target = e as u32 + 1;
                            }
                        }
                        if let Some(e) = top.else_at {
                            if let Op::Else { end_pc } = &mut code.ops[e] {
                                *end_pc = here as u32;
                            }
                        }
                        Op::End
                    }
                    CtlKind::Other => Op::Nop,
                }
            }
            Operator::Try { .. } | Operator::TryTable { .. } => {
                ctl.push(Ctl { kind: CtlKind::Other, open: here, else_at: None });
                unsupported(&mut code, &op)
            }
            Operator::Delegate { .. } => {
                // legacy exceptions: `delegate` terminates a `try` block without an `end`
                if matches!(ctl.last(), Some(Ctl { kind: CtlKind::Other, .. })) {
                    ctl.pop();
                }
                unsupported(&mut code, &op)
            }
            Operator::Br { relative_depth } => Op::Br(relative_depth),
            Operator::BrIf { relative_depth } => Op::BrIf(relative_depth),
            Operator::BrTable { ref targets } => {
                let start = code.br_targets.len() as u32;
                for t in targets.targets() {
                    code.br_targets.push(t.map_err(e)?);
                }
                code.br_targets.push(targets.default());
                Op::BrTable { start, len: targets.len() }
            }
            Operator::Return => Op::Return,
            Operator::Call { function_index } => Op::Call(function_index),
            Operator::CallIndirect { type_index, table_index } => {
                Op::CallIndirect { ty: type_index, table: table_index }
            }
            Operator::ReturnCall { function_index } => Op::ReturnCall(function_index),
            Operator::ReturnCallIndirect { type_index, table_index } => {
                Op::ReturnCallIndirect { ty: type_index, table: table_index }
            }
            Operator::Drop => Op::Drop,
            Operator::Select | Operator::TypedSelect { .. } => Op::Select,
            Operator::LocalGet { local_index } => Op::LocalGet(local_index),
            Operator::LocalSet { local_index } => Op::LocalSet(local_index),
            Operator::LocalTee { local_index } => Op::LocalTee(local_index),
            Operator::GlobalGet { global_index } => Op::GlobalGet(global_index),
            Operator::GlobalSet { global_index } => Op::GlobalSet(global_index),

            Operator::I32Load { memarg } | Operator::F32Load { memarg } => load(LoadKind::U(4), memarg),
            Operator::I64Load { memarg } | Operator::F64Load { memarg } => load(LoadKind::U(8), memarg),
            Operator::I32Load8S { memarg } => load(LoadKind::S8To32, memarg),
            Operator::I32Load8U { memarg } | Operator::I64Load8U { memarg } => load(LoadKind::U(1), memarg),
            Operator::I32Load16S { memarg } => load(LoadKind::S16To32, memarg),
            Operator::I32Load16U { memarg } | Operator::I64Load16U { memarg } => load(LoadKind::U(2), memarg),
            Operator::I64Load8S { memarg } => load(LoadKind::S8To64, memarg),
            Operator::I64Load16S { memarg } => load(LoadKind::S16To64, memarg),
            Operator::I64Load32S { memarg } => load(LoadKind::S32To64, memarg),
            Operator::I64Load32U { memarg } => load(LoadKind::U(4), memarg),
            Operator::I32Store { memarg } | Operator::F32Store { memarg } | Operator::I64Store32 { memarg } => {
                store(4, memarg)
            }
            Operator::I64Store { memarg } | Operator::F64Store { memarg } => store(8, memarg),
            Operator::I32Store8 { memarg } | Operator::I64Store8 { memarg } => store(1, memarg),
            Operator::I32Store16 { memarg } | Operator::I64Store16 { memarg } => store(2, memarg),
            Operator::MemorySize { mem } => Op::MemorySize(mem),
            Operator::MemoryGrow { mem } => Op::MemoryGrow(mem),
            Operator::I32Const { value } => Op::Const(value as u32 as u64),
            Operator::I64Const { value } => Op::Const(value as u64),
            Operator::F32Const { value } => Op::Const(value.bits() as u64),
            Operator::F64Const { value } => Op::Const(value.bits()),
            Operator::RefNull { .. } => Op::Const(0),
            Operator::RefFunc { function_index } => Op::RefFunc(function_index),

            Operator::MemoryInit { data_index, mem } => Op::MemoryInit { data: data_index, mem },
            Operator::DataDrop { data_index } => Op::DataDrop(data_index),
            Operator::MemoryCopy { dst_mem, src_mem } => Op::MemoryCopy { dst: dst_mem, src: src_mem },
            Operator::MemoryFill { mem } => Op::MemoryFill(mem),
            Operator::TableInit { elem_index, table } => Op::TableInit { elem: elem_index, table },
            Operator::ElemDrop { elem_index } => Op::ElemDrop(elem_index),
            Operator::TableCopy { dst_table, src_table } => Op::TableCopy { dst: dst_table, src: src_table },
            Operator::TableFill { table } => Op::TableFill(table),
            Operator::TableGet { table } => Op::TableGet(table),
            Operator::TableSet { table } => Op::TableSet(table),
            Operator::TableGrow { table } => Op::TableGrow(table),
            Operator::TableSize { table } => Op::TableSize(table),

            // ---- threads ----
            Operator::MemoryAtomicNotify { memarg } => {
                Op::AtomicNotify { mem: memarg.memory, offset: memarg.offset }
            }
            Operator::MemoryAtomicWait32 { memarg } => {
                Op::AtomicWait { n: 4, mem: memarg.memory, offset: memarg.offset }
            }
            Operator::MemoryAtomicWait64 { memarg } => {
                Op::AtomicWait { n: 8, mem: memarg.memory, offset: memarg.offset }
            }
            Operator::AtomicFence => Op::AtomicFence,
            Operator::I32AtomicLoad { memarg } | Operator::I64AtomicLoad32U { memarg } => aload(4, memarg),
            Operator::I64AtomicLoad { memarg } => aload(8, memarg),
            Operator::I32AtomicLoad8U { memarg } | Operator::I64AtomicLoad8U { memarg } => aload(1, memarg),
            Operator::I32AtomicLoad16U { memarg } | Operator::I64AtomicLoad16U { memarg } => aload(2, memarg),
            Operator::I32AtomicStore { memarg } | Operator::I64AtomicStore32 { memarg } => astore(4, memarg),
            Operator::I64AtomicStore { memarg } => astore(8, memarg),
            Operator::I32AtomicStore8 { memarg } | Operator::I64AtomicStore8 { memarg } => astore(1, memarg),
            Operator::I32AtomicStore16 { memarg } | Operator::I64AtomicStore16 { memarg } => astore(2, memarg),

            Operator::I32AtomicRmwAdd { memarg } | Operator::I64AtomicRmw32AddU { memarg } => rmw(RmwOp::Add, 4, memarg),
            Operator::I64AtomicRmwAdd { memarg } => rmw(RmwOp::Add, 8, memarg),
            Operator::I32AtomicRmw8AddU { memarg } | Operator::I64AtomicRmw8AddU { memarg } => rmw(RmwOp::Add, 1, memarg),
            Operator::I32AtomicRmw16AddU { memarg } | Operator::I64AtomicRmw16AddU { memarg } => rmw(RmwOp::Add, 2, memarg),
            Operator::I32AtomicRmwSub { memarg } | Operator::I64AtomicRmw32SubU { memarg } => rmw(RmwOp::Sub, 4, memarg),
            Operator::I64AtomicRmwSub { memarg } => rmw(RmwOp::Sub, 8, memarg),
            Operator::I32AtomicRmw8SubU { memarg } | Operator::I64AtomicRmw8SubU { memarg } => rmw(RmwOp::Sub, 1, memarg),
            Operator::I32AtomicRmw16SubU { memarg } | Operator::I64AtomicRmw16SubU { memarg } => rmw(RmwOp::Sub, 2, memarg),
            Operator::I32AtomicRmwAnd { memarg } | Operator::I64AtomicRmw32AndU { memarg } => rmw(RmwOp::And, 4, memarg),
            Operator::I64AtomicRmwAnd { memarg } => rmw(RmwOp::And, 8, memarg),
            Operator::I32AtomicRmw8AndU { memarg } | Operator::I64AtomicRmw8AndU { memarg } => rmw(RmwOp::And, 1, memarg),
            Operator::I32AtomicRmw16AndU { memarg } | Operator::I64AtomicRmw16AndU { memarg } => rmw(RmwOp::And, 2, memarg),
            Operator::I32AtomicRmwOr { memarg } | Operator::I64AtomicRmw32OrU { memarg } => rmw(RmwOp::Or, 4, memarg),
            Operator::I64AtomicRmwOr { memarg } => rmw(RmwOp::Or, 8, memarg),
            Operator::I32AtomicRmw8OrU { memarg } | Operator::I64AtomicRmw8OrU { memarg } => rmw(RmwOp::Or, 1, memarg),
            Operator::I32AtomicRmw16OrU { memarg } | Operator::I64AtomicRmw16OrU { memarg } => rmw(RmwOp::Or, 2, memarg),
            Operator::I32AtomicRmwXor { memarg } | Operator::I64AtomicRmw32XorU { memarg } => rmw(RmwOp::Xor, 4, memarg),
            Operator::I64AtomicRmwXor { memarg } => rmw(RmwOp::Xor, 8, memarg),
            Operator::I32AtomicRmw8XorU { memarg } | Operator::I64AtomicRmw8XorU { memarg } => rmw(RmwOp::Xor, 1, memarg),
            Operator::I32AtomicRmw16XorU { memarg } | Operator::I64AtomicRmw16XorU { memarg } => rmw(RmwOp::Xor, 2, memarg),
            Operator::I32AtomicRmwXchg { memarg } | Operator::I64AtomicRmw32XchgU { memarg } => rmw(RmwOp::Xchg, 4, memarg),
            Operator::I64AtomicRmwXchg { memarg } => rmw(RmwOp::Xchg, 8, memarg),
            Operator::I32AtomicRmw8XchgU { memarg } | Operator::I64AtomicRmw8XchgU { memarg } => rmw(RmwOp::Xchg, 1, memarg),
            Operator::I32AtomicRmw16XchgU { memarg } | Operator::I64AtomicRmw16XchgU { memarg } => rmw(RmwOp::Xchg, 2, memarg),
            Operator::I32AtomicRmwCmpxchg { memarg } | Operator::I64AtomicRmw32CmpxchgU { memarg } => cmpxchg(4, memarg),
            Operator::I64AtomicRmwCmpxchg { memarg } => cmpxchg(8, memarg),
            Operator::I32AtomicRmw8CmpxchgU { memarg } | Operator::I64AtomicRmw8CmpxchgU { memarg } => cmpxchg(1, memarg),
            Operator::I32AtomicRmw16CmpxchgU { memarg } | Operator::I64AtomicRmw16CmpxchgU { memarg } => cmpxchg(2, memarg),

            // ---- SIMD with immediates ----
            Operator::V128Load { memarg } => load(LoadKind::U(16), memarg),
            Operator::V128Load8x8S { memarg } => load(LoadKind::V8x8S, memarg),
            Operator::V128Load8x8U { memarg } => load(LoadKind::V8x8U, memarg),
            Operator::V128Load16x4S { memarg } => load(LoadKind::V16x4S, memarg),
            Operator::V128Load16x4U { memarg } => load(LoadKind::V16x4U, memarg),
            Operator::V128Load32x2S { memarg } => load(LoadKind::V32x2S, memarg),
            Operator::V128Load32x2U { memarg } => load(LoadKind::V32x2U, memarg),
            Operator::V128Load8Splat { memarg } => load(LoadKind::Splat8, memarg),
            Operator::V128Load16Splat { memarg } => load(LoadKind::Splat16, memarg),
            Operator::V128Load32Splat { memarg } => load(LoadKind::Splat32, memarg),
            Operator::V128Load64Splat { memarg } => load(LoadKind::Splat64, memarg),
            Operator::V128Load32Zero { memarg } => load(LoadKind::U(4), memarg),
            Operator::V128Load64Zero { memarg } => load(LoadKind::U(8), memarg),
            Operator::V128Store { memarg } => store(16, memarg),
            Operator::V128Load8Lane { memarg, lane } => load_lane(1, lane, memarg),
            Operator::V128Load16Lane { memarg, lane } => load_lane(2, lane, memarg),
            Operator::V128Load32Lane { memarg, lane } => load_lane(4, lane, memarg),
            Operator::V128Load64Lane { memarg, lane } => load_lane(8, lane, memarg),
            Operator::V128Store8Lane { memarg, lane } => store_lane(1, lane, memarg),
            Operator::V128Store16Lane { memarg, lane } => store_lane(2, lane, memarg),
            Operator::V128Store32Lane { memarg, lane } => store_lane(4, lane, memarg),
            Operator::V128Store64Lane { memarg, lane } => store_lane(8, lane, memarg),
            Operator::V128Const { value } => {
                code.v128s.push(value.i128() as u128);
                Op::V128Const(code.v128s.len() as u32 - 1)
            }
            Operator::I8x16Shuffle { lanes } => {
                code.v128s.push(u128::from_le_bytes(lanes));
                Op::Shuffle(code.v128s.len() as u32 - 1)
            }
            Operator::I8x16ExtractLaneS { lane } => Op::ExtractLane { kind: LaneKind::I8S, lane },
            Operator::I8x16ExtractLaneU { lane } => Op::ExtractLane { kind: LaneKind::I8U, lane },
            Operator::I16x8ExtractLaneS { lane } => Op::ExtractLane { kind: LaneKind::I16S, lane },
            Operator::I16x8ExtractLaneU { lane } => Op::ExtractLane { kind: LaneKind::I16U, lane },
            Operator::I32x4ExtractLane { lane } | Operator::F32x4ExtractLane { lane } => {
                Op::ExtractLane { kind: LaneKind::L32, lane }
            }
            Operator::I64x2ExtractLane { lane } | Operator::F64x2ExtractLane { lane } => {
                Op::ExtractLane { kind: LaneKind::L64, lane }
            }
            Operator::I8x16ReplaceLane { lane } => Op::ReplaceLane { bits: 8, lane },
            Operator::I16x8ReplaceLane { lane } => Op::ReplaceLane { bits: 16, lane },
            Operator::I32x4ReplaceLane { lane } | Operator::F32x4ReplaceLane { lane } => {
                Op::ReplaceLane { bits: 32, lane }
            }
            Operator::I64x2ReplaceLane { lane } | Operator::F64x2ReplaceLane { lane } => {
                Op::ReplaceLane { bits: 64, lane }
            }
            Operator::V128Bitselect => Op::Bitselect,

            ref other => {
                if let Some(u) = translate_unop(other) {
                    Op::Un(u)
                } else if let Some(b) = translate_binop(other) {
                    Op::Bin(b)
                } else {
                    unsupported(&mut code, other)
                }
            }
        };
        code.ops.push(out);
    }
    if !ctl.is_empty() {
        return Err("function body not terminated".to_string());
    }
    if !matches!(code.ops.last(), Some(Op::Return)) {
        return Err("function body does not end with `end`".to_string());
    }
    Ok(code)
}

fn unsupported(code: &mut Code, op: &Operator) -> Op {
    code.names.push(op_name(op));
    Op::Unsupported(code.names.len() as u32 - 1)
}
fn load(kind: LoadKind, m: MemArg) -> Op {
    Op::Load { kind, mem: m.memory, offset: m.offset }
}
fn store(n: u8, m: MemArg) -> Op {
    Op::Store { n, mem: m.memory, offset: m.offset }
}
fn aload(n: u8, m: MemArg) -> Op {
    Op::AtomicLoad { n, mem: m.memory, offset: m.offset }
}
fn astore(n: u8, m: MemArg) -> Op {
    Op::AtomicStore { n, mem: m.memory, offset: m.offset }
}
fn rmw(op: RmwOp, n: u8, m: MemArg) -> Op {
    Op::AtomicRmw { op, n, mem: m.memory, offset: m.offset }
}
fn cmpxchg(n: u8, m: MemArg) -> Op {
    Op::AtomicCmpxchg { n, mem: m.memory, offset: m.offset }
}
fn load_lane(n: u8, lane: u8, m: MemArg) -> Op {
    Op::LoadLane { n, lane, mem: m.memory, offset: m.offset }
}
fn store_lane(n: u8, lane: u8, m: MemArg) -> Op {
    Op::StoreLane { n, lane, mem: m.memory, offset: m.offset }
}

//! `wv-interp`: a deterministic reference WebAssembly interpreter intended as a test oracle
//! (differential execution of two wasm binaries). Decoding is done with `wasmparser` only.
//!
//! Design notes
//! * Values live in untyped 128-bit slots (see `numeric.rs` for the encoding); all float handling is
//!   done on raw bits, arithmetic NaN results are canonicalised, sign/move operations preserve payloads.
//! * Function bodies are pre-decoded lazily into a flat op vector (`compile.rs`); structured control
//!   flow uses a runtime label stack (height + arity + continuation), calls use an explicit frame
//!   stack. Nothing recurses over wasm nesting or wasm calls.
//! * Fuel counts only function invocations (every kind, including the top-level one) and taken
//!   branches that target a `loop`.
//! * Inputs are assumed to be valid modules (validate them first); malformed input yields errors or
//!   `Unsupported`, but type-incorrect code may panic on internal stack underflow.

mod compile;
mod exec;
pub mod host;
mod numeric;
mod simd;

use std::collections::HashMap;
use std::ops::Range;
use std::rc::Rc;

use wasmparser::{
    AbstractHeapType, CompositeInnerType, ConstExpr, DataKind, ElementItems, ElementKind, Encoding,
    ExternalKind, HeapType, Operator, Parser, Payload, RefType, TableInit, TypeRef, ValType,
    WasmFeatures,
};

pub use host::DefaultHost;

pub(crate) const PAGE: u64 = 65536;

// ---------------------------------------------------------------------------------------------
// public types
// ---------------------------------------------------------------------------------------------

#[derive(Clone, Debug, PartialEq, Eq, Hash)]
pub enum FuncClass {
    Host { module: String, field: String },
    Local { params: Vec<ValType>, results: Vec<ValType> },
}

/// A WebAssembly value. Floats are stored as raw bits so comparison is bit-exact.
#[derive(Clone, Debug, PartialEq)]
pub enum Val {
    I32(i32),
    I64(i64),
    F32(u32),
    F64(u64),
    V128(u128),
    /// function index in this instance's index space, None = null
    FuncRef(Option<u32>),
    /// opaque host id, None = null
    ExternRef(Option<u32>),
}

#[derive(Clone, Debug, PartialEq, Eq)]
pub enum Trap {
    Unreachable,
    MemOutOfBounds,
    TableOutOfBounds,
    IndirectCallNull,
    IndirectCallTypeMismatch,
    IntegerOverflow,
    IntegerDivByZero,
    InvalidConversion,
    StackExhausted,
    UnalignedAtomic,
    WouldBlock,
    HostTrap(String),
}

#[derive(Clone, Debug, PartialEq)]
pub enum Outcome {
    Returned(Vec<Val>),
    Trap(Trap),
    OutOfFuel,
    /// operator or feature this interpreter does not implement (also used for API misuse such as
    /// calling a non-existent export or passing ill-typed arguments)
    Unsupported(String),
}

#[derive(Clone, Debug, PartialEq)]
pub struct HostCall {
    pub module: String,
    pub field: String,
    pub args: Vec<Val>,
    /// empty if the host trapped
    pub results: Vec<Val>,
}

pub trait Host {
    /// Called for every call to an imported function. `results` is the import's declared result
    /// type list, `call_count` the number of earlier calls to the same (module, field) pair in this
    /// instance. Return Err(Trap::HostTrap(..)) to trap. The interpreter appends a HostCall to the
    /// instance's trace itself.
    fn call(
        &mut self,
        module: &str,
        field: &str,
        call_count: u64,
        args: &[Val],
        results: &[ValType],
    ) -> Result<Vec<Val>, Trap>;

    /// Optional override for the initial value of an imported global. Returning None (the default)
    /// selects the deterministic hash-derived value.
    fn global_import(&mut self, _module: &str, _field: &str, _ty: ValType, _mutable: bool) -> Option<Val> {
        None
    }
}

#[derive(Clone, Debug, PartialEq, Eq)]
pub struct Limits {
    /// memory.grow beyond this returns -1; default 64
    pub max_pages: u64,
    /// table.grow beyond this returns -1; default 100_000
    pub max_table: u64,
    /// default 2000
    pub max_call_depth: usize,
    /// per instantiate/call; counts only function invocations (direct, indirect, tail, host, and the
    /// top-level invocation itself) and taken branches that target a `loop`, each costing 1
    pub fuel: u64,
}

impl Default for Limits {
    fn default() -> Self {
        Limits { max_pages: 64, max_table: 100_000, max_call_depth: 2000, fuel: 10_000_000 }
    }
}

#[derive(Clone, Debug, PartialEq)]
pub enum InstantiateError {
    /// decode problem
    Invalid(String),
    Link(String),
    /// phase: "elem:<i>" | "data:<i>" | "start"
    Trap { phase: String, trap: Trap },
    OutOfFuel,
    Unsupported(String),
}

#[derive(Clone, Debug, PartialEq, Eq)]
pub enum ExportKind {
    Func { params: Vec<ValType>, results: Vec<ValType> },
    Global { ty: ValType, mutable: bool },
    Memory,
    Table,
    Tag,
}

#[derive(Clone, Debug, PartialEq, Eq)]
pub struct ExportDesc {
    pub name: String,
    pub kind: ExportKind,
    pub index: u32,
}

#[derive(Clone, Copy, Debug, Default, PartialEq, Eq)]
pub struct Stats {
    pub instrs_executed: u64,
    pub calls: u64,
    pub host_calls: u64,
    pub loop_backedges: u64,
}

// ---------------------------------------------------------------------------------------------
// internal store types
// ---------------------------------------------------------------------------------------------

#[derive(Debug, PartialEq, Eq, Hash)]
pub(crate) struct FuncSig {
    pub params: Vec<ValType>,
    pub results: Vec<ValType>,
}

pub(crate) enum FuncKind {
    Host { module: String, field: String, counter: usize },
    Local { body: Range<usize> },
}

pub(crate) struct FuncInst {
    pub sig: Rc<FuncSig>,
    /// canonical (structural) signature id
    pub canon: u32,
    pub kind: FuncKind,
    pub code: Option<Rc<compile::Code>>,
}

pub(crate) struct MemInst {
    pub data: Vec<u8>,
    pub max: Option<u64>,
    pub shared: bool,
    pub mem64: bool,
}

pub(crate) struct TableInst {
    pub elems: Vec<u64>,
    pub max: Option<u64>,
    pub is_func: bool,
}

pub(crate) struct GlobalInst {
    pub ty: ValType,
    pub mutable: bool,
    pub value: u128,
}

pub(crate) fn is_funcref_type(r: RefType) -> bool {
    match r.heap_type() {
        HeapType::Abstract { ty, .. } => matches!(ty, AbstractHeapType::Func | AbstractHeapType::NoFunc),
        HeapType::Concrete(_) => true,
    }
}

pub(crate) fn val_to_slot(v: &Val) -> u128 {
    match *v {
        Val::I32(x) => x as u32 as u128,
        Val::I64(x) => x as u64 as u128,
        Val::F32(x) => x as u128,
        Val::F64(x) => x as u128,
        Val::V128(x) => x,
        Val::FuncRef(None) | Val::ExternRef(None) => 0,
        Val::FuncRef(Some(i)) | Val::ExternRef(Some(i)) => i as u128 + 1,
    }
}

pub(crate) fn slot_to_val(ty: ValType, s: u128) -> Val {
    match ty {
        ValType::I32 => Val::I32(s as u32 as i32),
        ValType::I64 => Val::I64(s as u64 as i64),
        ValType::F32 => Val::F32(s as u32),
        ValType::F64 => Val::F64(s as u64),
        ValType::V128 => Val::V128(s),
        ValType::Ref(r) => {
            let x = s as u64;
            let v = if x == 0 { None } else { Some((x - 1) as u32) };
            if is_funcref_type(r) {
                Val::FuncRef(v)
            } else {
                Val::ExternRef(v)
            }
        }
    }
}

pub(crate) fn val_matches(ty: ValType, v: &Val) -> bool {
    match (ty, v) {
        (ValType::I32, Val::I32(_))
        | (ValType::I64, Val::I64(_))
        | (ValType::F32, Val::F32(_))
        | (ValType::F64, Val::F64(_))
        | (ValType::V128, Val::V128(_)) => true,
        (ValType::Ref(r), Val::FuncRef(_)) => is_funcref_type(r),
        (ValType::Ref(r), Val::ExternRef(_)) => !is_funcref_type(r),
        _ => false,
    }
}

struct TypeTable<'a>(&'a [Option<Rc<FuncSig>>]);
impl compile::BlockSigs for TypeTable<'_> {
    fn block_sig(&self, type_index: u32) -> Result<(u32, u32), String> {
        match self.0.get(type_index as usize) {
            Some(Some(s)) => Ok((s.params.len() as u32, s.results.len() as u32)),
            _ => Err(format!("block type index {type_index} is not a function type")),
        }
    }
}

// ---------------------------------------------------------------------------------------------
// Instance
// ---------------------------------------------------------------------------------------------

pub struct Instance {
    pub(crate) wasm: Vec<u8>,
    pub(crate) types: Vec<Option<Rc<FuncSig>>>,
    /// canonical signature id per type index (u32::MAX for non-function types)
    pub(crate) canon: Vec<u32>,
    pub(crate) funcs: Vec<FuncInst>,
    pub(crate) tables: Vec<TableInst>,
    pub(crate) mems: Vec<MemInst>,
    pub(crate) globals: Vec<GlobalInst>,
    pub(crate) elems: Vec<Vec<u64>>,
    pub(crate) datas: Vec<Vec<u8>>,
    pub(crate) exports: Vec<ExportDesc>,
    pub(crate) host: Box<dyn Host>,
    pub(crate) host_counts: Vec<u64>,
    pub(crate) trace: Vec<HostCall>,
    pub(crate) stats: Stats,
    pub(crate) limits: Limits,
    pub(crate) last_fuel_used: u64,
    // reusable machine buffers
    pub(crate) stack: Vec<u128>,
    pub(crate) labels: Vec<exec::Label>,
    pub(crate) frames: Vec<exec::Frame>,
}

fn inv<E: std::fmt::Display>(e: E) -> InstantiateError {
    InstantiateError::Invalid(e.to_string())
}

fn eval_const(expr: &ConstExpr, globals: &[GlobalInst]) -> Result<u128, InstantiateError> {
    let mut st: Vec<u128> = Vec::new();
    let mut r = expr.get_operators_reader();
    loop {
        let op = r.read().map_err(inv)?;
        macro_rules! bin {
            ($f:expr) => {{
                let b = st.pop().ok_or_else(|| inv("const expr stack underflow"))?;
                let a = st.pop().ok_or_else(|| inv("const expr stack underflow"))?;
                st.push($f(a, b));
            }};
        }
        match op {
            Operator::I32Const { value } => st.push(value as u32 as u128),
            Operator::I64Const { value } => st.push(value as u64 as u128),
            Operator::F32Const { value } => st.push(value.bits() as u128),
            Operator::F64Const { value } => st.push(value.bits() as u128),
            Operator::V128Const { value } => st.push(value.i128() as u128),
            Operator::RefNull { .. } => st.push(0),
            Operator::RefFunc { function_index } => st.push(function_index as u128 + 1),
            Operator::GlobalGet { global_index } => {
                let g = globals
                    .get(global_index as usize)
                    .ok_or_else(|| inv(format!("const expr: unknown global {global_index}")))?;
                st.push(g.value);
            }
            Operator::I32Add => bin!(|a: u128, b: u128| (a as u32).wrapping_add(b as u32) as u128),
            Operator::I32Sub => bin!(|a: u128, b: u128| (a as u32).wrapping_sub(b as u32) as u128),
            Operator::I32Mul => bin!(|a: u128, b: u128| (a as u32).wrapping_mul(b as u32) as u128),
            Operator::I64Add => bin!(|a: u128, b: u128| (a as u64).wrapping_add(b as u64) as u128),
            Operator::I64Sub => bin!(|a: u128, b: u128| (a as u64).wrapping_sub(b as u64) as u128),
            Operator::I64Mul => bin!(|a: u128, b: u128| (a as u64).wrapping_mul(b as u64) as u128),
            Operator::End => break,
            ref other => {
                return Err(InstantiateError::Unsupported(format!(
                    "const expr operator {}",
                    compile::op_name(other)
                )))
            }
        }
    }
    st.pop().ok_or_else(|| inv("empty const expr"))
}

impl Instance {
    /// Instantiate `wasm`; see the crate documentation / task description for how imports are
    /// satisfied. Segments are applied with bulk-memory semantics, then the start function runs.
    pub fn instantiate(wasm: &[u8], mut host: Box<dyn Host>, limits: Limits) -> Result<Instance, InstantiateError> {
        let mut parser = Parser::new(0);
        parser.set_features(WasmFeatures::all());

        let mut types: Vec<Option<Rc<FuncSig>>> = Vec::new();
        let mut funcs: Vec<FuncInst> = Vec::new();
        let mut tables: Vec<TableInst> = Vec::new();
        let mut mems: Vec<MemInst> = Vec::new();
        let mut globals: Vec<GlobalInst> = Vec::new();
        let mut local_func_types: Vec<u32> = Vec::new();
        let mut local_tables = Vec::new();
        let mut local_globals = Vec::new();
        let mut bodies: Vec<Range<usize>> = Vec::new();
        let mut raw_exports: Vec<(String, ExternalKind, u32)> = Vec::new();
        let mut raw_elems = Vec::new();
        let mut raw_datas = Vec::new();
        let mut start: Option<u32> = None;
        let mut ntags: u32 = 0;
        // (module, field) -> counter slot; lookups only, never iterated
        let mut counters: HashMap<(String, String), usize> = HashMap::new();
        let mut canon_map: HashMap<Rc<FuncSig>, u32> = HashMap::new();
        let mut canon: Vec<u32> = Vec::new();

        let mk_table = |tt: &wasmparser::TableType, limits: &Limits| -> Result<TableInst, InstantiateError> {
            if tt.initial > limits.max_table {
                return Err(InstantiateError::Unsupported(format!(
                    "table minimum {} exceeds max_table {}",
                    tt.initial, limits.max_table
                )));
            }
            Ok(TableInst {
                elems: vec![0; tt.initial as usize],
                max: tt.maximum,
                is_func: is_funcref_type(tt.element_type),
            })
        };
        let mk_mem = |mt: &wasmparser::MemoryType, limits: &Limits| -> Result<MemInst, InstantiateError> {
            if mt.page_size_log2.is_some() {
                return Err(InstantiateError::Unsupported("custom page sizes".to_string()));
            }
            if mt.initial > limits.max_pages {
                return Err(InstantiateError::Unsupported(format!(
                    "memory minimum {} pages exceeds max_pages {}",
                    mt.initial, limits.max_pages
                )));
            }
            Ok(MemInst {
                data: vec![0; (mt.initial * PAGE) as usize],
                max: mt.maximum,
                shared: mt.shared,
                mem64: mt.memory64,
            })
        };

        for payload in parser.parse_all(wasm) {
            match payload.map_err(inv)? {
                Payload::Version { encoding, .. } => {
                    if encoding != Encoding::Module {
                        return Err(InstantiateError::Invalid("not a core wasm module".to_string()));
                    }
                }
                Payload::TypeSection(r) => {
                    for rg in r {
                        let rg = rg.map_err(inv)?;
                        for st in rg.types() {
                            match &st.composite_type.inner {
                                CompositeInnerType::Func(f) => {
                                    let sig = Rc::new(FuncSig {
                                        params: f.params().to_vec(),
                                        results: f.results().to_vec(),
                                    });
                                    let next = canon_map.len() as u32;
                                    let id = *canon_map.entry(sig.clone()).or_insert(next);
                                    canon.push(id);
                                    types.push(Some(sig));
                                }
                                _ => {
                                    canon.push(u32::MAX);
                                    types.push(None);
                                }
                            }
                        }
                    }
                }
                Payload::ImportSection(r) => {
                    for imp in r {
                        let imp = imp.map_err(inv)?;
                        match imp.ty {
                            TypeRef::Func(ti) => {
                                let sig = types
                                    .get(ti as usize)
                                    .and_then(|t| t.clone())
                                    .ok_or_else(|| inv(format!("import: bad function type {ti}")))?;
                                let next = counters.len();
                                let counter = *counters
                                    .entry((imp.module.to_string(), imp.name.to_string()))
                                    .or_insert(next);
                                funcs.push(FuncInst {
                                    sig,
                                    canon: canon[ti as usize],
                                    kind: FuncKind::Host {
                                        module: imp.module.to_string(),
                                        field: imp.name.to_string(),
                                        counter,
                                    },
                                    code: None,
                                });
                            }
                            TypeRef::Table(tt) => tables.push(mk_table(&tt, &limits)?),
                            TypeRef::Memory(mt) => {
                                let mut m = mk_mem(&mt, &limits)?;
                                let h = host::import_hash(imp.module, imp.name);
                                let n = m.data.len().min(256);
                                for k in 0..n {
                                    let w = host::derive(h, (k / 8) as u64);
                                    m.data[k] = w.to_le_bytes()[k % 8];
                                }
                                mems.push(m);
                            }
                            TypeRef::Global(gt) => {
                                let v = match host.global_import(imp.module, imp.name, gt.content_type, gt.mutable) {
                                    Some(v) => {
                                        if !val_matches(gt.content_type, &v) {
                                            return Err(InstantiateError::Link(format!(
                                                "host supplied ill-typed value for global {}.{}",
                                                imp.module, imp.name
                                            )));
                                        }
                                        v
                                    }
                                    None => host::val_from_hash(
                                        gt.content_type,
                                        host::import_hash(imp.module, imp.name),
                                        0,
                                    ),
                                };
                                globals.push(GlobalInst {
                                    ty: gt.content_type,
                                    mutable: gt.mutable,
                                    value: val_to_slot(&v),
                                });
                            }
                            TypeRef::Tag(_) => ntags += 1,
                        }
                    }
                }
                Payload::FunctionSection(r) => {
                    for t in r {
                        local_func_types.push(t.map_err(inv)?);
                    }
                }
                Payload::TableSection(r) => {
                    for t in r {
                        local_tables.push(t.map_err(inv)?);
                    }
                }
                Payload::MemorySection(r) => {
                    for m in r {
                        let mt = m.map_err(inv)?;
                        mems.push(mk_mem(&mt, &limits)?);
                    }
                }
                Payload::TagSection(r) => ntags += r.count(),
                Payload::GlobalSection(r) => {
                    for g in r {
                        local_globals.push(g.map_err(inv)?);
                    }
                }
                Payload::ExportSection(r) => {
                    for e in r {
                        let e = e.map_err(inv)?;
                        raw_exports.push((e.name.to_string(), e.kind, e.index));
                    }
                }
                Payload::StartSection { func, .. } => start = Some(func),
                Payload::ElementSection(r) => {
                    for e in r {
                        raw_elems.push(e.map_err(inv)?);
                    }
                }
                Payload::DataCountSection { .. } => {}
                Payload::DataSection(r) => {
                    for d in r {
                        raw_datas.push(d.map_err(inv)?);
                    }
                }
                Payload::CodeSectionStart { .. } => {}
                Payload::CodeSectionEntry(body) => bodies.push(body.range()),
                Payload::CustomSection(_) => {}
                Payload::End(_) => {}
                Payload::UnknownSection { id, .. } => {
                    return Err(InstantiateError::Invalid(format!("unknown section {id}")));
                }
                _ => {
                    return Err(InstantiateError::Invalid(
                        "component-model sections are not supported".to_string(),
                    ))
                }
            }
        }
        let _ = ntags;

        // function index space: imports first, then local functions
        if local_func_types.len() != bodies.len() {
            return Err(InstantiateError::Invalid(
                "function and code section have inconsistent lengths".to_string(),
            ));
        }
        for (ti, body) in local_func_types.iter().zip(bodies) {
            let sig = types
                .get(*ti as usize)
                .and_then(|t| t.clone())
                .ok_or_else(|| inv(format!("bad function type {ti}")))?;
            funcs.push(FuncInst { sig, canon: canon[*ti as usize], kind: FuncKind::Local { body }, code: None });
        }

        // globals (in order; initialisers may refer to earlier globals)
        for g in &local_globals {
            let value = eval_const(&g.init_expr, &globals)?;
            globals.push(GlobalInst { ty: g.ty.content_type, mutable: g.ty.mutable, value });
        }

        // tables
        for t in &local_tables {
            let mut ti = mk_table(&t.ty, &limits)?;
            if let TableInit::Expr(e) = &t.init {
                let v = eval_const(e, &globals)? as u64;
                for x in ti.elems.iter_mut() {
                    *x = v;
                }
            }
            tables.push(ti);
        }

        // element segments: evaluate items
        let mut elems: Vec<Vec<u64>> = Vec::with_capacity(raw_elems.len());
        for e in &raw_elems {
            let mut items = Vec::new();
            match &e.items {
                ElementItems::Functions(r) => {
                    for f in r.clone() {
                        items.push(f.map_err(inv)? as u64 + 1);
                    }
                }
                ElementItems::Expressions(_ty, r) => {
                    for ex in r.clone() {
                        items.push(eval_const(&ex.map_err(inv)?, &globals)? as u64);
                    }
                }
            }
            elems.push(items);
        }
        let datas: Vec<Vec<u8>> = raw_datas
            .iter()
            .map(|d| match d.kind {
                DataKind::Passive => d.data.to_vec(),
                DataKind::Active { .. } => Vec::new(), // dropped after instantiation
            })
            .collect();

        // exports
        let mut exports = Vec::with_capacity(raw_exports.len());
        for (name, kind, index) in raw_exports {
            let kind = match kind {
                ExternalKind::Func => {
                    let f = funcs
                        .get(index as usize)
                        .ok_or_else(|| inv(format!("export {name}: unknown function {index}")))?;
                    ExportKind::Func { params: f.sig.params.clone(), results: f.sig.results.clone() }
                }
                ExternalKind::Global => {
                    let g = globals
                        .get(index as usize)
                        .ok_or_else(|| inv(format!("export {name}: unknown global {index}")))?;
                    ExportKind::Global { ty: g.ty, mutable: g.mutable }
                }
                ExternalKind::Memory => ExportKind::Memory,
                ExternalKind::Table => ExportKind::Table,
                ExternalKind::Tag => ExportKind::Tag,
            };
            exports.push(ExportDesc { name, kind, index });
        }

        let host_counts = vec![0u64; counters.len()];
        let mut inst = Instance {
            wasm: wasm.to_vec(),
            types,
            canon,
            funcs,
            tables,
            mems,
            globals,
            elems,
            datas,
            exports,
            host,
            host_counts,
            trace: Vec::new(),
            stats: Stats::default(),
            limits,
            last_fuel_used: 0,
            stack: Vec::new(),
            labels: Vec::new(),
            frames: Vec::new(),
        };

        // active element segments, in order
        for (i, e) in raw_elems.iter().enumerate() {
            match &e.kind {
                ElementKind::Active { table_index, offset_expr } => {
                    let t = table_index.unwrap_or(0) as usize;
                    let off = eval_const(offset_expr, &inst.globals)? as u64;
                    let items = std::mem::take(&mut inst.elems[i]); // dropped afterwards
                    let table = inst
                        .tables
                        .get_mut(t)
                        .ok_or_else(|| inv(format!("elem segment {i}: unknown table {t}")))?;
                    let end = off.checked_add(items.len() as u64);
                    match end {
                        Some(end) if end <= table.elems.len() as u64 => {
                            table.elems[off as usize..end as usize].copy_from_slice(&items);
                        }
                        _ => {
                            return Err(InstantiateError::Trap {
                                phase: format!("elem:{i}"),
                                trap: Trap::TableOutOfBounds,
                            })
                        }
                    }
                }
                ElementKind::Declared => inst.elems[i] = Vec::new(),
                ElementKind::Passive => {}
            }
        }
        // active data segments, in order
        for (i, d) in raw_datas.iter().enumerate() {
            if let DataKind::Active { memory_index, offset_expr } = &d.kind {
                let off = eval_const(offset_expr, &inst.globals)? as u64;
                let mem = inst
                    .mems
                    .get_mut(*memory_index as usize)
                    .ok_or_else(|| inv(format!("data segment {i}: unknown memory {memory_index}")))?;
                let end = off.checked_add(d.data.len() as u64);
                match end {
                    Some(end) if end <= mem.data.len() as u64 => {
                        mem.data[off as usize..end as usize].copy_from_slice(d.data);
                    }
                    _ => {
                        return Err(InstantiateError::Trap {
                            phase: format!("data:{i}"),
                            trap: Trap::MemOutOfBounds,
                        })
                    }
                }
            }
        }
        drop(raw_elems);
        drop(raw_datas);
        drop(local_tables);
        drop(local_globals);

        // start function
        if let Some(f) = start {
            match inst.execute(f, &[]) {
                Outcome::Returned(_) => {}
                Outcome::Trap(trap) => {
                    return Err(InstantiateError::Trap { phase: "start".to_string(), trap })
                }
                Outcome::OutOfFuel => return Err(InstantiateError::OutOfFuel),
                Outcome::Unsupported(s) => return Err(InstantiateError::Unsupported(s)),
            }
        }
        Ok(inst)
    }

    pub fn exports(&self) -> Vec<ExportDesc> {
        self.exports.clone()
    }

    /// Call an exported function. Fuel is reset to `limits.fuel`; state persists across calls (also
    /// after traps).
    pub fn call_export(&mut self, name: &str, args: &[Val]) -> Outcome {
        let idx = self
            .exports
            .iter()
            .find(|e| e.name == name && matches!(e.kind, ExportKind::Func { .. }))
            .map(|e| e.index);
        match idx {
            Some(i) => self.execute(i, args),
            None => Outcome::Unsupported(format!("no exported function named {name:?}")),
        }
    }

    pub fn call_func(&mut self, func_index: u32, args: &[Val]) -> Outcome {
        self.execute(func_index, args)
    }

    /// Host calls since the last take, in order.
    pub fn take_host_trace(&mut self) -> Vec<HostCall> {
        std::mem::take(&mut self.trace)
    }

    pub fn func_class(&self, func_index: u32) -> FuncClass {
        let f = &self.funcs[func_index as usize];
        match &f.kind {
            FuncKind::Host { module, field, .. } => {
                FuncClass::Host { module: module.clone(), field: field.clone() }
            }
            FuncKind::Local { .. } => {
                FuncClass::Local { params: f.sig.params.clone(), results: f.sig.results.clone() }
            }
        }
    }

    /// Signature (params, results) of any function, host or local.
    pub fn func_sig(&self, func_index: u32) -> (Vec<ValType>, Vec<ValType>) {
        let f = &self.funcs[func_index as usize];
        (f.sig.params.clone(), f.sig.results.clone())
    }

    pub fn stats(&self) -> Stats {
        self.stats
    }

    /// Fuel consumed by the most recent invocation (start function, call_export or call_func).
    pub fn last_fuel_used(&self) -> u64 {
        self.last_fuel_used
    }

    pub fn global_value(&self, global_index: u32) -> Val {
        let g = &self.globals[global_index as usize];
        slot_to_val(g.ty, g.value)
    }

    pub fn global_type(&self, global_index: u32) -> (ValType, bool) {
        let g = &self.globals[global_index as usize];
        (g.ty, g.mutable)
    }

    /// memory length in bytes
    pub fn memory_len(&self, mem_index: u32) -> u64 {
        self.mems[mem_index as usize].data.len() as u64
    }

    /// FNV-1a 64 over all bytes
    pub fn memory_hash(&self, mem_index: u32) -> u64 {
        host::fnv1a(host::FNV_OFFSET, &self.mems[mem_index as usize].data)
    }

    pub fn memory_bytes(&self, mem_index: u32) -> &[u8] {
        &self.mems[mem_index as usize].data
    }

    pub fn table_len(&self, table_index: u32) -> u64 {
        self.tables[table_index as usize].elems.len() as u64
    }

    pub fn table_get(&self, table_index: u32, i: u64) -> Val {
        let t = &self.tables[table_index as usize];
        let x = t.elems[i as usize];
        let v = if x == 0 { None } else { Some((x - 1) as u32) };
        if t.is_func {
            Val::FuncRef(v)
        } else {
            Val::ExternRef(v)
        }
    }

    pub fn num_funcs(&self) -> u32 {
        self.funcs.len() as u32
    }
    pub fn num_globals(&self) -> u32 {
        self.globals.len() as u32
    }
    pub fn num_memories(&self) -> u32 {
        self.mems.len() as u32
    }
    pub fn num_tables(&self) -> u32 {
        self.tables.len() as u32
    }

    pub(crate) fn compile_func(&self, f: usize) -> Result<compile::Code, String> {
        let fi = &self.funcs[f];
        match &fi.kind {
            FuncKind::Local { body } => compile::compile(
                &self.wasm,
                body.clone(),
                fi.sig.params.len() as u32,
                fi.sig.results.len() as u32,
                &TypeTable(&self.types),
            ),
            FuncKind::Host { .. } => Err("host function has no body".to_string()),
        }
    }
}

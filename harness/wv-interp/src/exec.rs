//! The interpreter loop.

use std::rc::Rc;

use crate::compile::{Code, LoadKind, Op, RmwOp, NO_ELSE};
use crate::numeric::{bin_op, un_op};
use crate::simd;
use crate::{slot_to_val, val_matches, val_to_slot, FuncKind, HostCall, Instance, Outcome, Trap, Val, PAGE};

#[derive(Clone, Copy, Debug)]
pub(crate) struct Label {
    /// pc to continue at when branching to this label
    cont: u32,
    /// absolute operand stack height below the label's parameters
    height: u32,
    /// number of values a branch carries
    arity: u32,
    is_loop: bool,
}

pub(crate) struct Frame {
    code: Rc<Code>,
    pc: usize,
    fp: usize,
    label_base: usize,
}

/// Hard cap on the value stack (slots); exceeding it is reported as StackExhausted.
const MAX_STACK: usize = 1 << 24;

#[inline(always)]
fn ea(len: usize, addr: u128, offset: u64, n: usize) -> Result<usize, Trap> {
    let a = (addr as u64).checked_add(offset).ok_or(Trap::MemOutOfBounds)?;
    let end = a.checked_add(n as u64).ok_or(Trap::MemOutOfBounds)?;
    if end > len as u64 {
        return Err(Trap::MemOutOfBounds);
    }
    Ok(a as usize)
}

/// Effective address for atomics: alignment is checked before bounds.
#[inline(always)]
fn ea_atomic(len: usize, addr: u128, offset: u64, n: usize) -> Result<usize, Trap> {
    let a = (addr as u64).checked_add(offset).ok_or(Trap::MemOutOfBounds)?;
    if a % n as u64 != 0 {
        return Err(Trap::UnalignedAtomic);
    }
    let end = a.checked_add(n as u64).ok_or(Trap::MemOutOfBounds)?;
    if end > len as u64 {
        return Err(Trap::MemOutOfBounds);
    }
    Ok(a as usize)
}

#[inline(always)]
fn read_le(s: &[u8]) -> u128 {
    match s.len() {
        1 => s[0] as u128,
        2 => u16::from_le_bytes([s[0], s[1]]) as u128,
        4 => u32::from_le_bytes([s[0], s[1], s[2], s[3]]) as u128,
        8 => {
            let mut b = [0u8; 8];
            b.copy_from_slice(s);
            u64::from_le_bytes(b) as u128
        }
        n => {
            let mut b = [0u8; 16];
            b[..n].copy_from_slice(s);
            u128::from_le_bytes(b)
        }
    }
}

#[inline(always)]
fn write_le(s: &mut [u8], v: u128) {
    let n = s.len();
    s.copy_from_slice(&v.to_le_bytes()[..n]);
}

#[inline(always)]
fn width_mask(n: u8) -> u64 {
    if n >= 8 {
        u64::MAX
    } else {
        (1u64 << (8 * n as u32)) - 1
    }
}

/// Bounds check for bulk operations: [start, start+n) within len.
#[inline]
fn in_bounds(start: u64, n: u64, len: usize) -> bool {
    match start.checked_add(n) {
        Some(end) => end <= len as u64,
        None => false,
    }
}

impl Instance {
    pub(crate) fn execute(&mut self, func_index: u32, args: &[Val]) -> Outcome {
        let Some(f) = self.funcs.get(func_index as usize) else {
            return Outcome::Unsupported(format!("no function with index {func_index}"));
        };
        let sig = f.sig.clone();
        if args.len() != sig.params.len()
            || !sig.params.iter().zip(args).all(|(t, v)| val_matches(*t, v))
        {
            return Outcome::Unsupported(format!(
                "argument mismatch calling function {func_index}: expected {:?}, got {:?}",
                sig.params, args
            ));
        }
        let mut stack = std::mem::take(&mut self.stack);
        let mut labels = std::mem::take(&mut self.labels);
        let mut frames = std::mem::take(&mut self.frames);
        stack.clear();
        labels.clear();
        frames.clear();
        stack.extend(args.iter().map(val_to_slot));

        let entry = Rc::new(Code {
            ops: vec![Op::Call(func_index), Op::Halt],
            br_targets: Vec::new(),
            v128s: Vec::new(),
            names: Vec::new(),
            nlocals: 0,
            nparams: 0,
            nresults: sig.results.len() as u32,
        });
        let out = self.run(entry, &mut stack, &mut labels, &mut frames, &sig.results);

        stack.clear();
        labels.clear();
        frames.clear();
        if stack.capacity() > (1 << 20) {
            stack = Vec::new();
        }
        if labels.capacity() > (1 << 20) {
            labels = Vec::new();
        }
        self.stack = stack;
        self.labels = labels;
        self.frames = frames;
        out
    }

    fn run(
        &mut self,
        entry: Rc<Code>,
        stack: &mut Vec<u128>,
        labels: &mut Vec<Label>,
        frames: &mut Vec<Frame>,
        result_types: &[wasmparser::ValType],
    ) -> Outcome {
        let mut cur: Rc<Code> = entry;
        let mut pc: usize = 0;
        let mut fp: usize = 0;
        let mut label_base: usize = 0;
        let mut fuel: u64 = self.limits.fuel;
        let max_depth = self.limits.max_call_depth;

        let mut instrs: u64 = 0;
        let mut calls: u64 = 0;
        let mut host_calls: u64 = 0;
        let mut backedges: u64 = 0;
        let mut halted = false;

        let outcome = 'run: loop {
            let op = cur.ops[pc];
            pc += 1;
            instrs += 1;

            macro_rules! pop {
                () => {
                    stack.pop().expect("operand stack underflow (invalid module?)")
                };
            }
            macro_rules! push {
                ($v:expr) => {
                    stack.push($v)
                };
            }
            macro_rules! trap {
                ($t:expr) => {
                    break 'run Outcome::Trap($t)
                };
            }
            macro_rules! tri {
                ($e:expr) => {
                    match $e {
                        Ok(v) => v,
                        Err(t) => break 'run Outcome::Trap(t),
                    }
                };
            }
            macro_rules! consume_fuel {
                () => {
                    if fuel == 0 {
                        break 'run Outcome::OutOfFuel;
                    }
                    fuel -= 1;
                };
            }
            macro_rules! do_br {
                ($depth:expr) => {{
                    let idx = labels.len() - 1 - $depth as usize;
                    let l = labels[idx];
                    let ar = l.arity as usize;
                    let h = l.height as usize;
                    let src = stack.len() - ar;
                    if src != h {
                        stack.copy_within(src.., h);
                        stack.truncate(h + ar);
                    }
                    if l.is_loop {
                        labels.truncate(idx + 1);
                        consume_fuel!();
                        backedges += 1;
                    } else {
                        labels.truncate(idx);
                    }
                    pc = l.cont as usize;
                }};
            }
            macro_rules! do_return {
                () => {{
                    let nr = cur.nresults as usize;
                    let src = stack.len() - nr;
                    if src != fp {
                        stack.copy_within(src.., fp);
                        stack.truncate(fp + nr);
                    }
                    labels.truncate(label_base);
                    let fr = frames.pop().expect("frame stack underflow");
                    cur = fr.code;
                    pc = fr.pc;
                    fp = fr.fp;
                    label_base = fr.label_base;
                }};
            }

            // Every op either completes in its arm (then we `continue`), or requests a call by
            // breaking out of this block with (callee, is_tail_call).
            let (callee, tail): (u32, bool) = 'op: {
                match op {
                    Op::Unreachable => trap!(Trap::Unreachable),
                    Op::Nop => {}
                    Op::Block { end_pc, np, nr } => {
                        labels.push(Label {
                            cont: end_pc + 1,
                            height: (stack.len() - np as usize) as u32,
                            arity: nr,
                            is_loop: false,
                        });
                    }
                    Op::Loop { np } => {
                        labels.push(Label {
                            cont: pc as u32,
                            height: (stack.len() - np as usize) as u32,
                            arity: np,
                            is_loop: true,
                        });
                    }
                    Op::If { else_target, end_pc, np, nr } => {
                        let c = pop!() as u32;
                        if c != 0 || else_target != NO_ELSE {
                            labels.push(Label {
                                cont: end_pc + 1,
                                height: (stack.len() - np as usize) as u32,
                                arity: nr,
                                is_loop: false,
                            });
                            if c == 0 {
                                pc = else_target as usize;
                            }
                        } else {
                            pc = end_pc as usize + 1;
                        }
                    }
                    Op::Else { end_pc } => {
                        // reached by falling out of the then-branch
                        labels.pop();
                        pc = end_pc as usize + 1;
                    }
                    Op::End => {
                        labels.pop();
                    }
                    Op::Br(d) => do_br!(d),
                    Op::BrIf(d) => {
                        if pop!() as u32 != 0 {
                            do_br!(d);
                        }
                    }
                    Op::BrTable { start, len } => {
                        let i = pop!() as u32;
                        let k = if i < len { i } else { len };
                        let d = cur.br_targets[(start + k) as usize];
                        do_br!(d);
                    }
                    Op::Return => do_return!(),
                    Op::Call(f) => break 'op (f, false),
                    Op::ReturnCall(f) => break 'op (f, true),
                    Op::CallIndirect { ty, table } | Op::ReturnCallIndirect { ty, table } => {
                        let i = pop!() as u64;
                        let t = &self.tables[table as usize];
                        let r = match usize::try_from(i).ok().and_then(|i| t.elems.get(i)) {
                            Some(r) => *r,
                            None => trap!(Trap::TableOutOfBounds),
                        };
                        if r == 0 {
                            trap!(Trap::IndirectCallNull);
                        }
                        let f = (r - 1) as u32;
                        let expected = self.canon[ty as usize];
                        match self.funcs.get(f as usize) {
                            Some(fi) if fi.canon == expected => {}
                            _ => trap!(Trap::IndirectCallTypeMismatch),
                        }
                        break 'op (f, matches!(op, Op::ReturnCallIndirect { .. }));
                    }
                    Op::Drop => {
                        pop!();
                    }
                    Op::Select => {
                        let c = pop!() as u32;
                        let b = pop!();
                        let a = pop!();
                        push!(if c != 0 { a } else { b });
                    }
                    Op::LocalGet(i) => {
                        let v = stack[fp + i as usize];
                        push!(v);
                    }
                    Op::LocalSet(i) => {
                        let v = pop!();
                        stack[fp + i as usize] = v;
                    }
                    Op::LocalTee(i) => {
                        let v = *stack.last().expect("operand stack underflow");
                        stack[fp + i as usize] = v;
                    }
                    Op::GlobalGet(i) => push!(self.globals[i as usize].value),
                    Op::GlobalSet(i) => {
                        let v = pop!();
                        self.globals[i as usize].value = v;
                    }
                    Op::Load { kind, mem, offset } => {
                        let addr = pop!();
                        let m = &self.mems[mem as usize].data;
                        let v: u128 = match kind {
                            LoadKind::U(n) => {
                                let n = n as usize;
                                let a = tri!(ea(m.len(), addr, offset, n));
                                read_le(&m[a..a + n])
                            }
                            LoadKind::S8To32 => {
                                let a = tri!(ea(m.len(), addr, offset, 1));
                                m[a] as i8 as i32 as u32 as u128
                            }
                            LoadKind::S16To32 => {
                                let a = tri!(ea(m.len(), addr, offset, 2));
                                read_le(&m[a..a + 2]) as u16 as i16 as i32 as u32 as u128
                            }
                            LoadKind::S8To64 => {
                                let a = tri!(ea(m.len(), addr, offset, 1));
                                m[a] as i8 as i64 as u64 as u128
                            }
                            LoadKind::S16To64 => {
                                let a = tri!(ea(m.len(), addr, offset, 2));
                                read_le(&m[a..a + 2]) as u16 as i16 as i64 as u64 as u128
                            }
                            LoadKind::S32To64 => {
                                let a = tri!(ea(m.len(), addr, offset, 4));
                                read_le(&m[a..a + 4]) as u32 as i32 as i64 as u64 as u128
                            }
                            LoadKind::V8x8S => {
                                let a = tri!(ea(m.len(), addr, offset, 8));
                                let mut o = [0i16; 8];
                                for k in 0..8 {
                                    o[k] = m[a + k] as i8 as i16;
                                }
                                simd::from_i16(o)
                            }
                            LoadKind::V8x8U => {
                                let a = tri!(ea(m.len(), addr, offset, 8));
                                let mut o = [0u16; 8];
                                for k in 0..8 {
                                    o[k] = m[a + k] as u16;
                                }
                                simd::from_u16(o)
                            }
                            LoadKind::V16x4S => {
                                let a = tri!(ea(m.len(), addr, offset, 8));
                                let mut o = [0i32; 4];
                                for k in 0..4 {
                                    o[k] = read_le(&m[a + 2 * k..a + 2 * k + 2]) as u16 as i16 as i32;
                                }
                                simd::from_i32(o)
                            }
                            LoadKind::V16x4U => {
                                let a = tri!(ea(m.len(), addr, offset, 8));
                                let mut o = [0u32; 4];
                                for k in 0..4 {
                                    o[k] = read_le(&m[a + 2 * k..a + 2 * k + 2]) as u32;
                                }
                                simd::from_u32(o)
                            }
                            LoadKind::V32x2S => {
                                let a = tri!(ea(m.len(), addr, offset, 8));
                                let mut o = [0i64; 2];
                                for k in 0..2 {
                                    o[k] = read_le(&m[a + 4 * k..a + 4 * k + 4]) as u32 as i32 as i64;
                                }
                                simd::from_i64(o)
                            }
                            LoadKind::V32x2U => {
                                let a = tri!(ea(m.len(), addr, offset, 8));
                                let mut o = [0u64; 2];
                                for k in 0..2 {
                                    o[k] = read_le(&m[a + 4 * k..a + 4 * k + 4]) as u64;
                                }
                                simd::from_u64(o)
                            }
                            LoadKind::Splat8 => {
                                let a = tri!(ea(m.len(), addr, offset, 1));
                                simd::from_u8([m[a]; 16])
                            }
                            LoadKind::Splat16 => {
                                let a = tri!(ea(m.len(), addr, offset, 2));
                                simd::from_u16([read_le(&m[a..a + 2]) as u16; 8])
                            }
                            LoadKind::Splat32 => {
                                let a = tri!(ea(m.len(), addr, offset, 4));
                                simd::from_u32([read_le(&m[a..a + 4]) as u32; 4])
                            }
                            LoadKind::Splat64 => {
                                let a = tri!(ea(m.len(), addr, offset, 8));
                                simd::from_u64([read_le(&m[a..a + 8]) as u64; 2])
                            }
                        };
                        push!(v);
                    }
                    Op::Store { n, mem, offset } => {
                        let v = pop!();
                        let addr = pop!();
                        let m = &mut self.mems[mem as usize].data;
                        let n = n as usize;
                        let a = tri!(ea(m.len(), addr, offset, n));
                        write_le(&mut m[a..a + n], v);
                    }
                    Op::MemorySize(mem) => {
                        let m = &self.mems[mem as usize];
                        push!((m.data.len() as u64 / PAGE) as u128);
                    }
                    Op::MemoryGrow(mem) => {
                        let delta = pop!() as u64;
                        let max_pages = self.limits.max_pages;
                        let m = &mut self.mems[mem as usize];
                        let cur_pages = m.data.len() as u64 / PAGE;
                        let spec_max: u64 = if m.mem64 { 1 << 48 } else { 65536 };
                        let limit = m.max.unwrap_or(spec_max).min(spec_max).min(max_pages);
                        let res = match cur_pages.checked_add(delta) {
                            Some(n) if n <= limit => {
                                m.data.resize((n * PAGE) as usize, 0);
                                cur_pages
                            }
                            _ => u64::MAX,
                        };
                        push!(if m.mem64 { res as u128 } else { res as u32 as u128 });
                    }
                    Op::Const(v) => push!(v as u128),
                    Op::V128Const(i) => push!(cur.v128s[i as usize]),
                    Op::RefFunc(f) => push!(f as u128 + 1),
                    Op::Un(u) => {
                        let a = pop!();
                        push!(tri!(un_op(u, a)));
                    }
                    Op::Bin(b) => {
                        let y = pop!();
                        let x = pop!();
                        push!(tri!(bin_op(b, x, y)));
                    }
                    Op::Bitselect => {
                        let c = pop!();
                        let b = pop!();
                        let a = pop!();
                        push!((a & c) | (b & !c));
                    }
                    Op::ExtractLane { kind, lane } => {
                        let v = pop!();
                        push!(simd::extract_lane(kind, lane, v));
                    }
                    Op::ReplaceLane { bits, lane } => {
                        let x = pop!();
                        let v = pop!();
                        push!(simd::replace_lane(bits as u32, lane, v, x));
                    }
                    Op::Shuffle(i) => {
                        let b = pop!();
                        let a = pop!();
                        push!(simd::shuffle(a, b, cur.v128s[i as usize]));
                    }
                    Op::LoadLane { n, lane, mem, offset } => {
                        let v = pop!();
                        let addr = pop!();
                        let m = &self.mems[mem as usize].data;
                        let n = n as usize;
                        let a = tri!(ea(m.len(), addr, offset, n));
                        let x = read_le(&m[a..a + n]);
                        push!(simd::replace_lane(8 * n as u32, lane, v, x));
                    }
                    Op::StoreLane { n, lane, mem, offset } => {
                        let v = pop!();
                        let addr = pop!();
                        let m = &mut self.mems[mem as usize].data;
                        let n = n as usize;
                        let a = tri!(ea(m.len(), addr, offset, n));
                        let x = v >> (8 * n as u32 * lane as u32);
                        write_le(&mut m[a..a + n], x);
                    }
                    Op::MemoryInit { data, mem } => {
                        let n = pop!() as u32 as u64;
                        let s = pop!() as u32 as u64;
                        let d = pop!() as u64;
                        let seg = &self.datas[data as usize];
                        let m = &mut self.mems[mem as usize].data;
                        if !in_bounds(s, n, seg.len()) || !in_bounds(d, n, m.len()) {
                            trap!(Trap::MemOutOfBounds);
                        }
                        m[d as usize..(d + n) as usize].copy_from_slice(&seg[s as usize..(s + n) as usize]);
                    }
                    Op::DataDrop(i) => self.datas[i as usize] = Vec::new(),
                    Op::MemoryCopy { dst, src } => {
                        let n = pop!() as u64;
                        let s = pop!() as u64;
                        let d = pop!() as u64;
                        if !in_bounds(s, n, self.mems[src as usize].data.len())
                            || !in_bounds(d, n, self.mems[dst as usize].data.len())
                        {
                            trap!(Trap::MemOutOfBounds);
                        }
                        let (s, d, n) = (s as usize, d as usize, n as usize);
                        if dst == src {
                            self.mems[dst as usize].data.copy_within(s..s + n, d);
                        } else {
                            let tmp = self.mems[src as usize].data[s..s + n].to_vec();
                            self.mems[dst as usize].data[d..d + n].copy_from_slice(&tmp);
                        }
                    }
                    Op::MemoryFill(mem) => {
                        let n = pop!() as u64;
                        let v = pop!() as u8;
                        let d = pop!() as u64;
                        let m = &mut self.mems[mem as usize].data;
                        if !in_bounds(d, n, m.len()) {
                            trap!(Trap::MemOutOfBounds);
                        }
                        m[d as usize..(d + n) as usize].fill(v);
                    }
                    Op::TableInit { elem, table } => {
                        let n = pop!() as u32 as u64;
                        let s = pop!() as u32 as u64;
                        let d = pop!() as u64;
                        let seg = &self.elems[elem as usize];
                        let t = &mut self.tables[table as usize].elems;
                        if !in_bounds(s, n, seg.len()) || !in_bounds(d, n, t.len()) {
                            trap!(Trap::TableOutOfBounds);
                        }
                        t[d as usize..(d + n) as usize].copy_from_slice(&seg[s as usize..(s + n) as usize]);
                    }
                    Op::ElemDrop(i) => self.elems[i as usize] = Vec::new(),
                    Op::TableCopy { dst, src } => {
                        let n = pop!() as u64;
                        let s = pop!() as u64;
                        let d = pop!() as u64;
                        if !in_bounds(s, n, self.tables[src as usize].elems.len())
                            || !in_bounds(d, n, self.tables[dst as usize].elems.len())
                        {
                            trap!(Trap::TableOutOfBounds);
                        }
                        let (s, d, n) = (s as usize, d as usize, n as usize);
                        if dst == src {
                            self.tables[dst as usize].elems.copy_within(s..s + n, d);
                        } else {
                            let tmp = self.tables[src as usize].elems[s..s + n].to_vec();
                            self.tables[dst as usize].elems[d..d + n].copy_from_slice(&tmp);
                        }
                    }
                    Op::TableFill(table) => {
                        let n = pop!() as u64;
                        let v = pop!() as u64;
                        let d = pop!() as u64;
                        let t = &mut self.tables[table as usize].elems;
                        if !in_bounds(d, n, t.len()) {
                            trap!(Trap::TableOutOfBounds);
                        }
                        t[d as usize..(d + n) as usize].fill(v);
                    }
                    Op::TableGet(table) => {
                        let i = pop!() as u64;
                        let t = &self.tables[table as usize].elems;
                        match usize::try_from(i).ok().and_then(|i| t.get(i)) {
                            Some(v) => push!(*v as u128),
                            None => trap!(Trap::TableOutOfBounds),
                        }
                    }
                    Op::TableSet(table) => {
                        let v = pop!() as u64;
                        let i = pop!() as u64;
                        let t = &mut self.tables[table as usize].elems;
                        match usize::try_from(i).ok().and_then(|i| t.get_mut(i)) {
                            Some(slot) => *slot = v,
                            None => trap!(Trap::TableOutOfBounds),
                        }
                    }
                    Op::TableGrow(table) => {
                        let n = pop!() as u32 as u64;
                        let v = pop!() as u64;
                        let max_table = self.limits.max_table;
                        let t = &mut self.tables[table as usize];
                        let old = t.elems.len() as u64;
                        let limit = t.max.unwrap_or(u32::MAX as u64).min(u32::MAX as u64).min(max_table);
                        let res = match old.checked_add(n) {
                            Some(new) if new <= limit => {
                                t.elems.resize(new as usize, v);
                                old as u32
                            }
                            _ => u32::MAX,
                        };
                        push!(res as u128);
                    }
                    Op::TableSize(table) => {
                        push!(self.tables[table as usize].elems.len() as u32 as u128);
                    }
                    Op::AtomicFence => {}
                    Op::AtomicNotify { mem, offset } => {
                        let _count = pop!();
                        let addr = pop!();
                        let m = &self.mems[mem as usize].data;
                        tri!(ea_atomic(m.len(), addr, offset, 4));
                        push!(0);
                    }
                    Op::AtomicWait { n, mem, offset } => {
                        let timeout = pop!() as u64 as i64;
                        let expected = pop!() as u64 & width_mask(n);
                        let addr = pop!();
                        let m = &self.mems[mem as usize];
                        // alignment, then sharedness, then bounds
                        let a = match (addr as u64).checked_add(offset) {
                            Some(a) => a,
                            None => trap!(Trap::MemOutOfBounds),
                        };
                        if a % n as u64 != 0 {
                            trap!(Trap::UnalignedAtomic);
                        }
                        if !m.shared {
                            trap!(Trap::HostTrap("wait on unshared".to_string()));
                        }
                        let a = tri!(ea(m.data.len(), addr, offset, n as usize));
                        let v = read_le(&m.data[a..a + n as usize]) as u64;
                        if v != expected {
                            push!(1);
                        } else if timeout >= 0 {
                            push!(2);
                        } else {
                            trap!(Trap::WouldBlock);
                        }
                    }
                    Op::AtomicLoad { n, mem, offset } => {
                        let addr = pop!();
                        let m = &self.mems[mem as usize].data;
                        let n = n as usize;
                        let a = tri!(ea_atomic(m.len(), addr, offset, n));
                        push!(read_le(&m[a..a + n]));
                    }
                    Op::AtomicStore { n, mem, offset } => {
                        let v = pop!();
                        let addr = pop!();
                        let m = &mut self.mems[mem as usize].data;
                        let n = n as usize;
                        let a = tri!(ea_atomic(m.len(), addr, offset, n));
                        write_le(&mut m[a..a + n], v);
                    }
                    Op::AtomicRmw { op: rop, n, mem, offset } => {
                        let mask = width_mask(n);
                        let v = pop!() as u64 & mask;
                        let addr = pop!();
                        let m = &mut self.mems[mem as usize].data;
                        let nn = n as usize;
                        let a = tri!(ea_atomic(m.len(), addr, offset, nn));
                        let old = read_le(&m[a..a + nn]) as u64;
                        let new = match rop {
                            RmwOp::Add => old.wrapping_add(v),
                            RmwOp::Sub => old.wrapping_sub(v),
                            RmwOp::And => old & v,
                            RmwOp::Or => old | v,
                            RmwOp::Xor => old ^ v,
                            RmwOp::Xchg => v,
                        } & mask;
                        write_le(&mut m[a..a + nn], new as u128);
                        push!(old as u128);
                    }
                    Op::AtomicCmpxchg { n, mem, offset } => {
                        let mask = width_mask(n);
                        let replacement = pop!() as u64 & mask;
                        let expected = pop!() as u64 & mask;
                        let addr = pop!();
                        let m = &mut self.mems[mem as usize].data;
                        let nn = n as usize;
                        let a = tri!(ea_atomic(m.len(), addr, offset, nn));
                        let old = read_le(&m[a..a + nn]) as u64;
                        if old == expected {
                            write_le(&mut m[a..a + nn], replacement as u128);
                        }
                        push!(old as u128);
                    }
                    Op::Unsupported(i) => {
                        break 'run Outcome::Unsupported(cur.names[i as usize].to_string());
                    }
                    Op::Halt => {
                        halted = true;
                        let nr = result_types.len();
                        let base = stack.len() - nr;
                        let vals = result_types
                            .iter()
                            .zip(&stack[base..])
                            .map(|(t, s)| slot_to_val(*t, *s))
                            .collect();
                        break 'run Outcome::Returned(vals);
                    }
                }
                continue 'run;
            };

            // ------------------------------------------------------------------ call sequence
            consume_fuel!();
            calls += 1;
            let fidx = callee as usize;
            let is_host = matches!(self.funcs[fidx].kind, FuncKind::Host { .. });
            if is_host {
                host_calls += 1;
                let sig = self.funcs[fidx].sig.clone();
                let np = sig.params.len();
                let base = stack.len() - np;
                let args: Vec<Val> = sig
                    .params
                    .iter()
                    .zip(&stack[base..])
                    .map(|(t, s)| slot_to_val(*t, *s))
                    .collect();
                stack.truncate(base);
                let (module, field, counter) = match &self.funcs[fidx].kind {
                    FuncKind::Host { module, field, counter } => (module.clone(), field.clone(), *counter),
                    FuncKind::Local { .. } => unreachable!(),
                };
                let count = self.host_counts[counter];
                self.host_counts[counter] += 1;
                let res = self.host.call(&module, &field, count, &args, &sig.results);
                let res = match res {
                    Ok(r) => {
                        if r.len() != sig.results.len()
                            || !sig.results.iter().zip(&r).all(|(t, v)| val_matches(*t, v))
                        {
                            Err(Trap::HostTrap(format!(
                                "host function {module}.{field} returned ill-typed results"
                            )))
                        } else {
                            Ok(r)
                        }
                    }
                    Err(t) => Err(t),
                };
                match res {
                    Ok(r) => {
                        stack.extend(r.iter().map(val_to_slot));
                        self.trace.push(HostCall { module, field, args, results: r });
                    }
                    Err(t) => {
                        self.trace.push(HostCall { module, field, args, results: Vec::new() });
                        trap!(t);
                    }
                }
                if tail {
                    // results of the callee are the results of the current function
                    do_return!();
                }
                continue 'run;
            }

            // local function
            let code = match &self.funcs[fidx].code {
                Some(c) => c.clone(),
                None => match self.compile_func(fidx) {
                    Ok(c) => {
                        let c = Rc::new(c);
                        self.funcs[fidx].code = Some(c.clone());
                        c
                    }
                    Err(e) => {
                        break 'run Outcome::Unsupported(format!("cannot decode function {fidx}: {e}"));
                    }
                },
            };
            let np = code.nparams as usize;
            if tail {
                // replace the current frame: move the arguments down to fp
                let src = stack.len() - np;
                if src != fp {
                    stack.copy_within(src.., fp);
                    stack.truncate(fp + np);
                }
                labels.truncate(label_base);
            } else {
                if frames.len() >= max_depth {
                    trap!(Trap::StackExhausted);
                }
                frames.push(Frame { code: cur.clone(), pc, fp, label_base });
            }
            fp = stack.len() - np;
            let new_len = stack.len() + code.nlocals as usize;
            if new_len > MAX_STACK {
                trap!(Trap::StackExhausted);
            }
            stack.resize(new_len, 0);
            label_base = labels.len();
            labels.push(Label {
                cont: (code.ops.len() - 1) as u32,
                height: new_len as u32,
                arity: code.nresults,
                is_loop: false,
            });
            cur = code;
            pc = 0;
        };

        // the synthetic entry Call (+ Halt) are not wasm instructions
        let synthetic = if halted { 2 } else { 1 };
        self.stats.instrs_executed += instrs.saturating_sub(synthetic);
        self.stats.calls += calls;
        self.stats.host_calls += host_calls;
        self.stats.loop_backedges += backedges;
        self.last_fuel_used = self.limits.fuel - fuel;
        outcome
    }
}

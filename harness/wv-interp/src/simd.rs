//! SIMD (v128) semantics. A v128 is a u128 with lane 0 in the least significant bits.

use crate::numeric::*;

macro_rules! lanes {
    ($to:ident, $from:ident, $t:ty, $n:expr) => {
        #[inline]
        pub fn $to(v: u128) -> [$t; $n] {
            const S: usize = 16 / $n;
            let bytes = v.to_le_bytes();
            let mut out = [0 as $t; $n];
            for i in 0..$n {
                let mut x = [0u8; S];
                x.copy_from_slice(&bytes[i * S..(i + 1) * S]);
                out[i] = <$t>::from_le_bytes(x);
            }
            out
        }
        #[inline]
        pub fn $from(a: [$t; $n]) -> u128 {
            const S: usize = 16 / $n;
            let mut bytes = [0u8; 16];
            for i in 0..$n {
                bytes[i * S..(i + 1) * S].copy_from_slice(&a[i].to_le_bytes());
            }
            u128::from_le_bytes(bytes)
        }
    };
}

lanes!(to_i8, from_i8, i8, 16);
lanes!(to_u8, from_u8, u8, 16);
lanes!(to_i16, from_i16, i16, 8);
lanes!(to_u16, from_u16, u16, 8);
lanes!(to_i32, from_i32, i32, 4);
lanes!(to_u32, from_u32, u32, 4);
lanes!(to_i64, from_i64, i64, 2);
lanes!(to_u64, from_u64, u64, 2);

#[inline]
fn map1<T: Copy, const N: usize>(a: [T; N], f: impl Fn(T) -> T) -> [T; N] {
    let mut o = a;
    for i in 0..N {
        o[i] = f(a[i]);
    }
    o
}
#[inline]
fn map2<T: Copy, const N: usize>(a: [T; N], b: [T; N], f: impl Fn(T, T) -> T) -> [T; N] {
    let mut o = a;
    for i in 0..N {
        o[i] = f(a[i], b[i]);
    }
    o
}

// lane-wise helpers by shape
macro_rules! shape_fns {
    ($un:ident, $bin:ident, $to:ident, $from:ident, $t:ty) => {
        #[inline]
        fn $un(a: u128, f: impl Fn($t) -> $t) -> u128 {
            $from(map1($to(a), f))
        }
        #[inline]
        fn $bin(a: u128, b: u128, f: impl Fn($t, $t) -> $t) -> u128 {
            $from(map2($to(a), $to(b), f))
        }
    };
}
shape_fns!(un_i8, bin_i8, to_i8, from_i8, i8);
shape_fns!(un_u8, bin_u8, to_u8, from_u8, u8);
shape_fns!(un_i16, bin_i16, to_i16, from_i16, i16);
shape_fns!(un_u16, bin_u16, to_u16, from_u16, u16);
shape_fns!(un_i32, bin_i32, to_i32, from_i32, i32);
shape_fns!(un_u32, bin_u32, to_u32, from_u32, u32);
shape_fns!(un_i64, bin_i64, to_i64, from_i64, i64);
shape_fns!(un_u64, bin_u64, to_u64, from_u64, u64);

#[inline]
fn m8(c: bool) -> i8 {
    if c { -1 } else { 0 }
}
#[inline]
fn m16(c: bool) -> i16 {
    if c { -1 } else { 0 }
}
#[inline]
fn m32(c: bool) -> i32 {
    if c { -1 } else { 0 }
}
#[inline]
fn m64(c: bool) -> i64 {
    if c { -1 } else { 0 }
}
#[inline]
fn mu8(c: bool) -> u8 {
    if c { u8::MAX } else { 0 }
}
#[inline]
fn mu16(c: bool) -> u16 {
    if c { u16::MAX } else { 0 }
}
#[inline]
fn mu32(c: bool) -> u32 {
    if c { u32::MAX } else { 0 }
}
#[inline]
fn mu64(c: bool) -> u64 {
    if c { u64::MAX } else { 0 }
}
#[inline]
fn ff(a: u32) -> f32 {
    f32::from_bits(a)
}
#[inline]
fn dd(a: u64) -> f64 {
    f64::from_bits(a)
}

#[inline]
fn sat_i8(x: i32) -> i8 {
    x.clamp(i8::MIN as i32, i8::MAX as i32) as i8
}
#[inline]
fn sat_u8(x: i32) -> u8 {
    x.clamp(0, u8::MAX as i32) as u8
}
#[inline]
fn sat_i16(x: i32) -> i16 {
    x.clamp(i16::MIN as i32, i16::MAX as i32) as i16
}
#[inline]
fn sat_u16(x: i32) -> u16 {
    x.clamp(0, u16::MAX as i32) as u16
}

pub fn un_op(op: UnOp, a: u128) -> u128 {
    use UnOp::*;
    match op {
        I8x16Splat => from_u8([a as u8; 16]),
        I16x8Splat => from_u16([a as u16; 8]),
        I32x4Splat | F32x4Splat => from_u32([a as u32; 4]),
        I64x2Splat | F64x2Splat => from_u64([a as u64; 2]),
        V128Not => !a,
        V128AnyTrue => (a != 0) as u128,
        I8x16Abs => un_i8(a, i8::wrapping_abs),
        I8x16Neg => un_i8(a, i8::wrapping_neg),
        I8x16Popcnt => un_u8(a, |x| x.count_ones() as u8),
        I8x16AllTrue => to_u8(a).iter().all(|&x| x != 0) as u128,
        I8x16Bitmask => {
            let mut r = 0u32;
            for (i, x) in to_i8(a).iter().enumerate() {
                if *x < 0 {
                    r |= 1 << i;
                }
            }
            r as u128
        }
        I16x8ExtAddPairwiseI8x16S => {
            let v = to_i8(a);
            let mut o = [0i16; 8];
            for i in 0..8 {
                o[i] = v[2 * i] as i16 + v[2 * i + 1] as i16;
            }
            from_i16(o)
        }
        I16x8ExtAddPairwiseI8x16U => {
            let v = to_u8(a);
            let mut o = [0u16; 8];
            for i in 0..8 {
                o[i] = v[2 * i] as u16 + v[2 * i + 1] as u16;
            }
            from_u16(o)
        }
        I16x8Abs => un_i16(a, i16::wrapping_abs),
        I16x8Neg => un_i16(a, i16::wrapping_neg),
        I16x8AllTrue => to_u16(a).iter().all(|&x| x != 0) as u128,
        I16x8Bitmask => {
            let mut r = 0u32;
            for (i, x) in to_i16(a).iter().enumerate() {
                if *x < 0 {
                    r |= 1 << i;
                }
            }
            r as u128
        }
        I16x8ExtendLowI8x16S => {
            let v = to_i8(a);
            let mut o = [0i16; 8];
            for i in 0..8 {
                o[i] = v[i] as i16;
            }
            from_i16(o)
        }
        I16x8ExtendHighI8x16S => {
            let v = to_i8(a);
            let mut o = [0i16; 8];
            for i in 0..8 {
                o[i] = v[i + 8] as i16;
            }
            from_i16(o)
        }
        I16x8ExtendLowI8x16U => {
            let v = to_u8(a);
            let mut o = [0u16; 8];
            for i in 0..8 {
                o[i] = v[i] as u16;
            }
            from_u16(o)
        }
        I16x8ExtendHighI8x16U => {
            let v = to_u8(a);
            let mut o = [0u16; 8];
            for i in 0..8 {
                o[i] = v[i + 8] as u16;
            }
            from_u16(o)
        }
        I32x4ExtAddPairwiseI16x8S => {
            let v = to_i16(a);
            let mut o = [0i32; 4];
            for i in 0..4 {
                o[i] = v[2 * i] as i32 + v[2 * i + 1] as i32;
            }
            from_i32(o)
        }
        I32x4ExtAddPairwiseI16x8U => {
            let v = to_u16(a);
            let mut o = [0u32; 4];
            for i in 0..4 {
                o[i] = v[2 * i] as u32 + v[2 * i + 1] as u32;
            }
            from_u32(o)
        }
        I32x4Abs => un_i32(a, i32::wrapping_abs),
        I32x4Neg => un_i32(a, i32::wrapping_neg),
        I32x4AllTrue => to_u32(a).iter().all(|&x| x != 0) as u128,
        I32x4Bitmask => {
            let mut r = 0u32;
            for (i, x) in to_i32(a).iter().enumerate() {
                if *x < 0 {
                    r |= 1 << i;
                }
            }
            r as u128
        }
        I32x4ExtendLowI16x8S => {
            let v = to_i16(a);
            from_i32([v[0] as i32, v[1] as i32, v[2] as i32, v[3] as i32])
        }
        I32x4ExtendHighI16x8S => {
            let v = to_i16(a);
            from_i32([v[4] as i32, v[5] as i32, v[6] as i32, v[7] as i32])
        }
        I32x4ExtendLowI16x8U => {
            let v = to_u16(a);
            from_u32([v[0] as u32, v[1] as u32, v[2] as u32, v[3] as u32])
        }
        I32x4ExtendHighI16x8U => {
            let v = to_u16(a);
            from_u32([v[4] as u32, v[5] as u32, v[6] as u32, v[7] as u32])
        }
        I64x2Abs => un_i64(a, i64::wrapping_abs),
        I64x2Neg => un_i64(a, i64::wrapping_neg),
        I64x2AllTrue => to_u64(a).iter().all(|&x| x != 0) as u128,
        I64x2Bitmask => {
            let mut r = 0u32;
            for (i, x) in to_i64(a).iter().enumerate() {
                if *x < 0 {
                    r |= 1 << i;
                }
            }
            r as u128
        }
        I64x2ExtendLowI32x4S => {
            let v = to_i32(a);
            from_i64([v[0] as i64, v[1] as i64])
        }
        I64x2ExtendHighI32x4S => {
            let v = to_i32(a);
            from_i64([v[2] as i64, v[3] as i64])
        }
        I64x2ExtendLowI32x4U => {
            let v = to_u32(a);
            from_u64([v[0] as u64, v[1] as u64])
        }
        I64x2ExtendHighI32x4U => {
            let v = to_u32(a);
            from_u64([v[2] as u64, v[3] as u64])
        }
        F32x4Ceil => un_u32(a, f32_ceil),
        F32x4Floor => un_u32(a, f32_floor),
        F32x4Trunc => un_u32(a, f32_trunc),
        F32x4Nearest => un_u32(a, f32_nearest),
        F32x4Abs => un_u32(a, f32_abs),
        F32x4Neg => un_u32(a, f32_neg),
        F32x4Sqrt => un_u32(a, f32_sqrt),
        F64x2Ceil => un_u64(a, f64_ceil),
        F64x2Floor => un_u64(a, f64_floor),
        F64x2Trunc => un_u64(a, f64_trunc),
        F64x2Nearest => un_u64(a, f64_nearest),
        F64x2Abs => un_u64(a, f64_abs),
        F64x2Neg => un_u64(a, f64_neg),
        F64x2Sqrt => un_u64(a, f64_sqrt),
        I32x4TruncSatF32x4S => un_u32(a, |x| ff(x) as i32 as u32),
        I32x4TruncSatF32x4U => un_u32(a, |x| ff(x) as u32),
        F32x4ConvertI32x4S => un_u32(a, |x| (x as i32 as f32).to_bits()),
        F32x4ConvertI32x4U => un_u32(a, |x| (x as f32).to_bits()),
        I32x4TruncSatF64x2SZero => {
            let v = to_u64(a);
            from_i32([dd(v[0]) as i32, dd(v[1]) as i32, 0, 0])
        }
        I32x4TruncSatF64x2UZero => {
            let v = to_u64(a);
            from_u32([dd(v[0]) as u32, dd(v[1]) as u32, 0, 0])
        }
        F64x2ConvertLowI32x4S => {
            let v = to_i32(a);
            from_u64([(v[0] as f64).to_bits(), (v[1] as f64).to_bits()])
        }
        F64x2ConvertLowI32x4U => {
            let v = to_u32(a);
            from_u64([(v[0] as f64).to_bits(), (v[1] as f64).to_bits()])
        }
        F32x4DemoteF64x2Zero => {
            let v = to_u64(a);
            from_u32([f32_demote(v[0]), f32_demote(v[1]), 0, 0])
        }
        F64x2PromoteLowF32x4 => {
            let v = to_u32(a);
            from_u64([f64_promote(v[0]), f64_promote(v[1])])
        }
        // scalar operators are handled by numeric::un_op
        _ => unreachable!("scalar unop {:?} reached simd::un_op", op),
    }
}

pub fn bin_op(op: BinOp, a: u128, b: u128) -> u128 {
    use BinOp::*;
    // shift count (second operand is an i32)
    let sh = b as u32;
    match op {
        I8x16Swizzle => {
            let (v, s) = (to_u8(a), to_u8(b));
            let mut o = [0u8; 16];
            for i in 0..16 {
                o[i] = if (s[i] as usize) < 16 { v[s[i] as usize] } else { 0 };
            }
            from_u8(o)
        }
        I8x16Eq => bin_i8(a, b, |x, y| m8(x == y)),
        I8x16Ne => bin_i8(a, b, |x, y| m8(x != y)),
        I8x16LtS => bin_i8(a, b, |x, y| m8(x < y)),
        I8x16LtU => bin_u8(a, b, |x, y| mu8(x < y)),
        I8x16GtS => bin_i8(a, b, |x, y| m8(x > y)),
        I8x16GtU => bin_u8(a, b, |x, y| mu8(x > y)),
        I8x16LeS => bin_i8(a, b, |x, y| m8(x <= y)),
        I8x16LeU => bin_u8(a, b, |x, y| mu8(x <= y)),
        I8x16GeS => bin_i8(a, b, |x, y| m8(x >= y)),
        I8x16GeU => bin_u8(a, b, |x, y| mu8(x >= y)),
        I16x8Eq => bin_i16(a, b, |x, y| m16(x == y)),
        I16x8Ne => bin_i16(a, b, |x, y| m16(x != y)),
        I16x8LtS => bin_i16(a, b, |x, y| m16(x < y)),
        I16x8LtU => bin_u16(a, b, |x, y| mu16(x < y)),
        I16x8GtS => bin_i16(a, b, |x, y| m16(x > y)),
        I16x8GtU => bin_u16(a, b, |x, y| mu16(x > y)),
        I16x8LeS => bin_i16(a, b, |x, y| m16(x <= y)),
        I16x8LeU => bin_u16(a, b, |x, y| mu16(x <= y)),
        I16x8GeS => bin_i16(a, b, |x, y| m16(x >= y)),
        I16x8GeU => bin_u16(a, b, |x, y| mu16(x >= y)),
        I32x4Eq => bin_i32(a, b, |x, y| m32(x == y)),
        I32x4Ne => bin_i32(a, b, |x, y| m32(x != y)),
        I32x4LtS => bin_i32(a, b, |x, y| m32(x < y)),
        I32x4LtU => bin_u32(a, b, |x, y| mu32(x < y)),
        I32x4GtS => bin_i32(a, b, |x, y| m32(x > y)),
        I32x4GtU => bin_u32(a, b, |x, y| mu32(x > y)),
        I32x4LeS => bin_i32(a, b, |x, y| m32(x <= y)),
        I32x4LeU => bin_u32(a, b, |x, y| mu32(x <= y)),
        I32x4GeS => bin_i32(a, b, |x, y| m32(x >= y)),
        I32x4GeU => bin_u32(a, b, |x, y| mu32(x >= y)),
        I64x2Eq => bin_i64(a, b, |x, y| m64(x == y)),
        I64x2Ne => bin_i64(a, b, |x, y| m64(x != y)),
        I64x2LtS => bin_i64(a, b, |x, y| m64(x < y)),
        I64x2GtS => bin_i64(a, b, |x, y| m64(x > y)),
        I64x2LeS => bin_i64(a, b, |x, y| m64(x <= y)),
        I64x2GeS => bin_i64(a, b, |x, y| m64(x >= y)),
        F32x4Eq => bin_u32(a, b, |x, y| mu32(ff(x) == ff(y))),
        F32x4Ne => bin_u32(a, b, |x, y| mu32(ff(x) != ff(y))),
        F32x4Lt => bin_u32(a, b, |x, y| mu32(ff(x) < ff(y))),
        F32x4Gt => bin_u32(a, b, |x, y| mu32(ff(x) > ff(y))),
        F32x4Le => bin_u32(a, b, |x, y| mu32(ff(x) <= ff(y))),
        F32x4Ge => bin_u32(a, b, |x, y| mu32(ff(x) >= ff(y))),
        F64x2Eq => bin_u64(a, b, |x, y| mu64(dd(x) == dd(y))),
        F64x2Ne => bin_u64(a, b, |x, y| mu64(dd(x) != dd(y))),
        F64x2Lt => bin_u64(a, b, |x, y| mu64(dd(x) < dd(y))),
        F64x2Gt => bin_u64(a, b, |x, y| mu64(dd(x) > dd(y))),
        F64x2Le => bin_u64(a, b, |x, y| mu64(dd(x) <= dd(y))),
        F64x2Ge => bin_u64(a, b, |x, y| mu64(dd(x) >= dd(y))),
        V128And => a & b,
        V128AndNot => a & !b,
        V128Or => a | b,
        V128Xor => a ^ b,
        I8x16NarrowI16x8S => {
            let (x, y) = (to_i16(a), to_i16(b));
            let mut o = [0i8; 16];
            for i in 0..8 {
                o[i] = sat_i8(x[i] as i32);
                o[i + 8] = sat_i8(y[i] as i32);
            }
            from_i8(o)
        }
        I8x16NarrowI16x8U => {
            let (x, y) = (to_i16(a), to_i16(b));
            let mut o = [0u8; 16];
            for i in 0..8 {
                o[i] = sat_u8(x[i] as i32);
                o[i + 8] = sat_u8(y[i] as i32);
            }
            from_u8(o)
        }
        I8x16Shl => un_u8(a, |x| x << (sh & 7)),
        I8x16ShrS => un_i8(a, |x| x >> (sh & 7)),
        I8x16ShrU => un_u8(a, |x| x >> (sh & 7)),
        I8x16Add => bin_u8(a, b, u8::wrapping_add),
        I8x16AddSatS => bin_i8(a, b, i8::saturating_add),
        I8x16AddSatU => bin_u8(a, b, u8::saturating_add),
        I8x16Sub => bin_u8(a, b, u8::wrapping_sub),
        I8x16SubSatS => bin_i8(a, b, i8::saturating_sub),
        I8x16SubSatU => bin_u8(a, b, u8::saturating_sub),
        I8x16MinS => bin_i8(a, b, i8::min),
        I8x16MinU => bin_u8(a, b, u8::min),
        I8x16MaxS => bin_i8(a, b, i8::max),
        I8x16MaxU => bin_u8(a, b, u8::max),
        I8x16AvgrU => bin_u8(a, b, |x, y| ((x as u32 + y as u32 + 1) / 2) as u8),
        I16x8Q15MulrSatS => bin_i16(a, b, |x, y| sat_i16((x as i32 * y as i32 + 0x4000) >> 15)),
        I16x8NarrowI32x4S => {
            let (x, y) = (to_i32(a), to_i32(b));
            let mut o = [0i16; 8];
            for i in 0..4 {
                o[i] = sat_i16(x[i]);
                o[i + 4] = sat_i16(y[i]);
            }
            from_i16(o)
        }
        I16x8NarrowI32x4U => {
            let (x, y) = (to_i32(a), to_i32(b));
            let mut o = [0u16; 8];
            for i in 0..4 {
                o[i] = sat_u16(x[i]);
                o[i + 4] = sat_u16(y[i]);
            }
            from_u16(o)
        }
        I16x8Shl => un_u16(a, |x| x << (sh & 15)),
        I16x8ShrS => un_i16(a, |x| x >> (sh & 15)),
        I16x8ShrU => un_u16(a, |x| x >> (sh & 15)),
        I16x8Add => bin_u16(a, b, u16::wrapping_add),
        I16x8AddSatS => bin_i16(a, b, i16::saturating_add),
        I16x8AddSatU => bin_u16(a, b, u16::saturating_add),
        I16x8Sub => bin_u16(a, b, u16::wrapping_sub),
        I16x8SubSatS => bin_i16(a, b, i16::saturating_sub),
        I16x8SubSatU => bin_u16(a, b, u16::saturating_sub),
        I16x8Mul => bin_u16(a, b, u16::wrapping_mul),
        I16x8MinS => bin_i16(a, b, i16::min),
        I16x8MinU => bin_u16(a, b, u16::min),
        I16x8MaxS => bin_i16(a, b, i16::max),
        I16x8MaxU => bin_u16(a, b, u16::max),
        I16x8AvgrU => bin_u16(a, b, |x, y| ((x as u32 + y as u32 + 1) / 2) as u16),
        I16x8ExtMulLowI8x16S => extmul_i8(a, b, 0),
        I16x8ExtMulHighI8x16S => extmul_i8(a, b, 8),
        I16x8ExtMulLowI8x16U => extmul_u8(a, b, 0),
        I16x8ExtMulHighI8x16U => extmul_u8(a, b, 8),
        I32x4Shl => un_u32(a, |x| x << (sh & 31)),
        I32x4ShrS => un_i32(a, |x| x >> (sh & 31)),
        I32x4ShrU => un_u32(a, |x| x >> (sh & 31)),
        I32x4Add => bin_u32(a, b, u32::wrapping_add),
        I32x4Sub => bin_u32(a, b, u32::wrapping_sub),
        I32x4Mul => bin_u32(a, b, u32::wrapping_mul),
        I32x4MinS => bin_i32(a, b, i32::min),
        I32x4MinU => bin_u32(a, b, u32::min),
        I32x4MaxS => bin_i32(a, b, i32::max),
        I32x4MaxU => bin_u32(a, b, u32::max),
        I32x4DotI16x8S => {
            let (x, y) = (to_i16(a), to_i16(b));
            let mut o = [0i32; 4];
            for i in 0..4 {
                let p = (x[2 * i] as i32).wrapping_mul(y[2 * i] as i32);
                let q = (x[2 * i + 1] as i32).wrapping_mul(y[2 * i + 1] as i32);
                o[i] = p.wrapping_add(q);
            }
            from_i32(o)
        }
        I32x4ExtMulLowI16x8S => extmul_i16(a, b, 0),
        I32x4ExtMulHighI16x8S => extmul_i16(a, b, 4),
        I32x4ExtMulLowI16x8U => extmul_u16(a, b, 0),
        I32x4ExtMulHighI16x8U => extmul_u16(a, b, 4),
        I64x2Shl => un_u64(a, |x| x << (sh & 63)),
        I64x2ShrS => un_i64(a, |x| x >> (sh & 63)),
        I64x2ShrU => un_u64(a, |x| x >> (sh & 63)),
        I64x2Add => bin_u64(a, b, u64::wrapping_add),
        I64x2Sub => bin_u64(a, b, u64::wrapping_sub),
        I64x2Mul => bin_u64(a, b, u64::wrapping_mul),
        I64x2ExtMulLowI32x4S => {
            let (x, y) = (to_i32(a), to_i32(b));
            from_i64([x[0] as i64 * y[0] as i64, x[1] as i64 * y[1] as i64])
        }
        I64x2ExtMulHighI32x4S => {
            let (x, y) = (to_i32(a), to_i32(b));
            from_i64([x[2] as i64 * y[2] as i64, x[3] as i64 * y[3] as i64])
        }
        I64x2ExtMulLowI32x4U => {
            let (x, y) = (to_u32(a), to_u32(b));
            from_u64([x[0] as u64 * y[0] as u64, x[1] as u64 * y[1] as u64])
        }
        I64x2ExtMulHighI32x4U => {
            let (x, y) = (to_u32(a), to_u32(b));
            from_u64([x[2] as u64 * y[2] as u64, x[3] as u64 * y[3] as u64])
        }
        F32x4Add => bin_u32(a, b, f32_add),
        F32x4Sub => bin_u32(a, b, f32_sub),
        F32x4Mul => bin_u32(a, b, f32_mul),
        F32x4Div => bin_u32(a, b, f32_div),
        F32x4Min => bin_u32(a, b, f32_min),
        F32x4Max => bin_u32(a, b, f32_max),
        F32x4PMin => bin_u32(a, b, f32_pmin),
        F32x4PMax => bin_u32(a, b, f32_pmax),
        F64x2Add => bin_u64(a, b, f64_add),
        F64x2Sub => bin_u64(a, b, f64_sub),
        F64x2Mul => bin_u64(a, b, f64_mul),
        F64x2Div => bin_u64(a, b, f64_div),
        F64x2Min => bin_u64(a, b, f64_min),
        F64x2Max => bin_u64(a, b, f64_max),
        F64x2PMin => bin_u64(a, b, f64_pmin),
        F64x2PMax => bin_u64(a, b, f64_pmax),
        // scalar operators are handled by numeric::bin_op
        _ => unreachable!("scalar binop {:?} reached simd::bin_op", op),
    }
}

fn extmul_i8(a: u128, b: u128, base: usize) -> u128 {
    let (x, y) = (to_i8(a), to_i8(b));
    let mut o = [0i16; 8];
    for i in 0..8 {
        o[i] = x[base + i] as i16 * y[base + i] as i16;
    }
    from_i16(o)
}
fn extmul_u8(a: u128, b: u128, base: usize) -> u128 {
    let (x, y) = (to_u8(a), to_u8(b));
    let mut o = [0u16; 8];
    for i in 0..8 {
        o[i] = x[base + i] as u16 * y[base + i] as u16;
    }
    from_u16(o)
}
fn extmul_i16(a: u128, b: u128, base: usize) -> u128 {
    let (x, y) = (to_i16(a), to_i16(b));
    let mut o = [0i32; 4];
    for i in 0..4 {
        o[i] = x[base + i] as i32 * y[base + i] as i32;
    }
    from_i32(o)
}
fn extmul_u16(a: u128, b: u128, base: usize) -> u128 {
    let (x, y) = (to_u16(a), to_u16(b));
    let mut o = [0u32; 4];
    for i in 0..4 {
        o[i] = x[base + i] as u32 * y[base + i] as u32;
    }
    from_u32(o)
}

/// i8x16.shuffle: `lanes` select from the 32 bytes of a ++ b.
pub fn shuffle(a: u128, b: u128, lanes: u128) -> u128 {
    let (x, y, l) = (to_u8(a), to_u8(b), to_u8(lanes));
    let mut o = [0u8; 16];
    for i in 0..16 {
        let k = (l[i] & 31) as usize;
        o[i] = if k < 16 { x[k] } else { y[k - 16] };
    }
    from_u8(o)
}

/// Lane access kinds for extract/replace.
#[derive(Clone, Copy, Debug, PartialEq, Eq)]
pub enum LaneKind {
    I8S,
    I8U,
    I16S,
    I16U,
    L32,
    L64,
}

#[inline]
pub fn extract_lane(kind: LaneKind, lane: u8, v: u128) -> u128 {
    let l = lane as u32;
    match kind {
        LaneKind::I8S => (v >> (8 * l)) as u8 as i8 as i32 as u32 as u128,
        LaneKind::I8U => (v >> (8 * l)) as u8 as u128,
        LaneKind::I16S => (v >> (16 * l)) as u16 as i16 as i32 as u32 as u128,
        LaneKind::I16U => (v >> (16 * l)) as u16 as u128,
        LaneKind::L32 => (v >> (32 * l)) as u32 as u128,
        LaneKind::L64 => (v >> (64 * l)) as u64 as u128,
    }
}

/// Replace lane of `bits` width (8/16/32/64) at index `lane` with the low bits of `x`.
#[inline]
pub fn replace_lane(bits: u32, lane: u8, v: u128, x: u128) -> u128 {
    let shift = bits * lane as u32;
    let mask: u128 = ((1u128 << bits) - 1) << shift;
    (v & !mask) | ((x << shift) & mask)
}

//! Deterministic hashing helpers and the default host implementation.

use crate::{Host, Trap, Val};
use wasmparser::ValType;

pub const FNV_OFFSET: u64 = 0xcbf2_9ce4_8422_2325;
pub const FNV_PRIME: u64 = 0x0000_0100_0000_01b3;

/// FNV-1a 64 continuation: feed `bytes` into state `h`.
#[inline]
pub fn fnv1a(mut h: u64, bytes: &[u8]) -> u64 {
    for &b in bytes {
        h ^= b as u64;
        h = h.wrapping_mul(FNV_PRIME);
    }
    h
}

/// splitmix64 finaliser, used to spread FNV's weak high/low bits.
#[inline]
pub fn mix64(mut z: u64) -> u64 {
    z = (z ^ (z >> 30)).wrapping_mul(0xbf58_476d_1ce4_e5b9);
    z = (z ^ (z >> 27)).wrapping_mul(0x94d0_49bb_1331_11eb);
    z ^ (z >> 31)
}

/// Hash identifying an import: fnv1a(module ++ 0xff ++ field ++ 0xff).
pub fn import_hash(module: &str, field: &str) -> u64 {
    let mut h = FNV_OFFSET;
    h = fnv1a(h, module.as_bytes());
    h = fnv1a(h, &[0xff]);
    h = fnv1a(h, field.as_bytes());
    h = fnv1a(h, &[0xff]);
    h
}

/// The i-th derived 64-bit value of hash state `h`.
#[inline]
pub fn derive(h: u64, i: u64) -> u64 {
    mix64(fnv1a(h, &i.to_le_bytes()))
}

/// Make f32 bits finite (clear the top exponent bit if the exponent is all ones).
#[inline]
pub fn finite_f32(bits: u32) -> u32 {
    if bits & 0x7f80_0000 == 0x7f80_0000 {
        bits & !0x4000_0000
    } else {
        bits
    }
}

/// Make f64 bits finite (clear the top exponent bit if the exponent is all ones).
#[inline]
pub fn finite_f64(bits: u64) -> u64 {
    if bits & 0x7ff0_0000_0000_0000 == 0x7ff0_0000_0000_0000 {
        bits & !0x4000_0000_0000_0000
    } else {
        bits
    }
}

/// Deterministic value of type `ty` derived from hash state `h` and index `i`.
pub fn val_from_hash(ty: ValType, h: u64, i: u64) -> Val {
    let x = derive(h, i);
    match ty {
        ValType::I32 => Val::I32(x as u32 as i32),
        ValType::I64 => Val::I64(x as i64),
        ValType::F32 => Val::F32(finite_f32(x as u32)),
        ValType::F64 => Val::F64(finite_f64(x)),
        ValType::V128 => {
            let hi = derive(h, i.wrapping_add(1 << 32));
            Val::V128(((hi as u128) << 64) | x as u128)
        }
        ValType::Ref(r) => {
            if crate::is_funcref_type(r) {
                Val::FuncRef(None)
            } else {
                Val::ExternRef(None)
            }
        }
    }
}

/// Feed a value (tag byte + little-endian payload) into an FNV state.
pub fn hash_val(h: u64, v: &Val) -> u64 {
    match v {
        Val::I32(x) => fnv1a(fnv1a(h, &[0x7f]), &x.to_le_bytes()),
        Val::I64(x) => fnv1a(fnv1a(h, &[0x7e]), &x.to_le_bytes()),
        Val::F32(x) => fnv1a(fnv1a(h, &[0x7d]), &x.to_le_bytes()),
        Val::F64(x) => fnv1a(fnv1a(h, &[0x7c]), &x.to_le_bytes()),
        Val::V128(x) => fnv1a(fnv1a(h, &[0x7b]), &x.to_le_bytes()),
        // only null-ness is hashed for funcrefs: function indices are not stable across
        // semantics-preserving rewrites of a module (the oracle's main use case)
        Val::FuncRef(x) => fnv1a(fnv1a(h, &[0x70]), &[x.is_some() as u8]),
        Val::ExternRef(x) => fnv1a(fnv1a(h, &[0x6f]), &x.unwrap_or(u32::MAX).to_le_bytes()),
    }
}

/// Hash state for a host call: import_hash ++ call_count (u64 LE) ++ each arg (tag + LE bytes).
pub fn host_call_hash(module: &str, field: &str, call_count: u64, args: &[Val]) -> u64 {
    let mut h = import_hash(module, field);
    h = fnv1a(h, &call_count.to_le_bytes());
    for a in args {
        h = hash_val(h, a);
    }
    h
}

/// Default host: every result is a pure function of (module, field, per-import call count, args).
///
/// result[i] = val_from_hash(type[i], host_call_hash(..), i)
///
/// i32/i64 take hash bits directly, f32/f64 are masked to finite values, v128 uses two derived
/// hashes, references are null. Funcref arguments contribute only their null-ness to the hash.
pub struct DefaultHost;

impl Host for DefaultHost {
    fn call(
        &mut self,
        module: &str,
        field: &str,
        call_count: u64,
        args: &[Val],
        results: &[ValType],
    ) -> Result<Vec<Val>, Trap> {
        let h = host_call_hash(module, field, call_count, args);
        Ok(results
            .iter()
            .enumerate()
            .map(|(i, ty)| val_from_hash(*ty, h, i as u64))
            .collect())
    }
}

//! Scalar numeric semantics plus the UnOp/BinOp operator tables (scalar and SIMD).
//!
//! Slot representation (u128): i32 -> zero-extended u32, i64 -> zero-extended u64, f32/f64 -> raw bits
//! zero-extended, v128 -> little-endian lanes (lane 0 in the low bits), refs -> 0 = null, n+1 = index/id n.

use crate::simd;
use crate::Trap;
use wasmparser::Operator;

pub const CANON32: u32 = 0x7fc0_0000;
pub const CANON64: u64 = 0x7ff8_0000_0000_0000;

macro_rules! def_ops {
    ($(#[$m:meta])* $enum:ident, $translate:ident : $($name:ident),* $(,)?) => {
        $(#[$m])*
        #[derive(Clone, Copy, Debug, PartialEq, Eq)]
        #[allow(clippy::enum_variant_names)]
        pub enum $enum { $($name),* }
        pub fn $translate(op: &Operator) -> Option<$enum> {
            match op {
                $(Operator::$name => Some($enum::$name),)*
                _ => None,
            }
        }
    };
}

def_ops!(
    /// Operators popping one value and pushing one value.
    UnOp, translate_unop:
    I32Eqz, I64Eqz, I32Clz, I32Ctz, I32Popcnt, I64Clz, I64Ctz, I64Popcnt,
    F32Abs, F32Neg, F32Ceil, F32Floor, F32Trunc, F32Nearest, F32Sqrt,
    F64Abs, F64Neg, F64Ceil, F64Floor, F64Trunc, F64Nearest, F64Sqrt,
    I32WrapI64, I32TruncF32S, I32TruncF32U, I32TruncF64S, I32TruncF64U,
    I64ExtendI32S, I64ExtendI32U, I64TruncF32S, I64TruncF32U, I64TruncF64S, I64TruncF64U,
    F32ConvertI32S, F32ConvertI32U, F32ConvertI64S, F32ConvertI64U, F32DemoteF64,
    F64ConvertI32S, F64ConvertI32U, F64ConvertI64S, F64ConvertI64U, F64PromoteF32,
    I32ReinterpretF32, I64ReinterpretF64, F32ReinterpretI32, F64ReinterpretI64,
    I32Extend8S, I32Extend16S, I64Extend8S, I64Extend16S, I64Extend32S,
    I32TruncSatF32S, I32TruncSatF32U, I32TruncSatF64S, I32TruncSatF64U,
    I64TruncSatF32S, I64TruncSatF32U, I64TruncSatF64S, I64TruncSatF64U,
    RefIsNull,
    // SIMD
    I8x16Splat, I16x8Splat, I32x4Splat, I64x2Splat, F32x4Splat, F64x2Splat,
    V128Not, V128AnyTrue,
    I8x16Abs, I8x16Neg, I8x16Popcnt, I8x16AllTrue, I8x16Bitmask,
    I16x8ExtAddPairwiseI8x16S, I16x8ExtAddPairwiseI8x16U,
    I16x8Abs, I16x8Neg, I16x8AllTrue, I16x8Bitmask,
    I16x8ExtendLowI8x16S, I16x8ExtendHighI8x16S, I16x8ExtendLowI8x16U, I16x8ExtendHighI8x16U,
    I32x4ExtAddPairwiseI16x8S, I32x4ExtAddPairwiseI16x8U,
    I32x4Abs, I32x4Neg, I32x4AllTrue, I32x4Bitmask,
    I32x4ExtendLowI16x8S, I32x4ExtendHighI16x8S, I32x4ExtendLowI16x8U, I32x4ExtendHighI16x8U,
    I64x2Abs, I64x2Neg, I64x2AllTrue, I64x2Bitmask,
    I64x2ExtendLowI32x4S, I64x2ExtendHighI32x4S, I64x2ExtendLowI32x4U, I64x2ExtendHighI32x4U,
    F32x4Ceil, F32x4Floor, F32x4Trunc, F32x4Nearest, F32x4Abs, F32x4Neg, F32x4Sqrt,
    F64x2Ceil, F64x2Floor, F64x2Trunc, F64x2Nearest, F64x2Abs, F64x2Neg, F64x2Sqrt,
    I32x4TruncSatF32x4S, I32x4TruncSatF32x4U, F32x4ConvertI32x4S, F32x4ConvertI32x4U,
    I32x4TruncSatF64x2SZero, I32x4TruncSatF64x2UZero, F64x2ConvertLowI32x4S, F64x2ConvertLowI32x4U,
    F32x4DemoteF64x2Zero, F64x2PromoteLowF32x4,
);

def_ops!(
    /// Operators popping two values and pushing one value.
    BinOp, translate_binop:
    I32Eq, I32Ne, I32LtS, I32LtU, I32GtS, I32GtU, I32LeS, I32LeU, I32GeS, I32GeU,
    I64Eq, I64Ne, I64LtS, I64LtU, I64GtS, I64GtU, I64LeS, I64LeU, I64GeS, I64GeU,
    F32Eq, F32Ne, F32Lt, F32Gt, F32Le, F32Ge,
    F64Eq, F64Ne, F64Lt, F64Gt, F64Le, F64Ge,
    I32Add, I32Sub, I32Mul, I32DivS, I32DivU, I32RemS, I32RemU, I32And, I32Or, I32Xor,
    I32Shl, I32ShrS, I32ShrU, I32Rotl, I32Rotr,
    I64Add, I64Sub, I64Mul, I64DivS, I64DivU, I64RemS, I64RemU, I64And, I64Or, I64Xor,
    I64Shl, I64ShrS, I64ShrU, I64Rotl, I64Rotr,
    F32Add, F32Sub, F32Mul, F32Div, F32Min, F32Max, F32Copysign,
    F64Add, F64Sub, F64Mul, F64Div, F64Min, F64Max, F64Copysign,
    // SIMD
    I8x16Swizzle,
    I8x16Eq, I8x16Ne, I8x16LtS, I8x16LtU, I8x16GtS, I8x16GtU, I8x16LeS, I8x16LeU, I8x16GeS, I8x16GeU,
    I16x8Eq, I16x8Ne, I16x8LtS, I16x8LtU, I16x8GtS, I16x8GtU, I16x8LeS, I16x8LeU, I16x8GeS, I16x8GeU,
    I32x4Eq, I32x4Ne, I32x4LtS, I32x4LtU, I32x4GtS, I32x4GtU, I32x4LeS, I32x4LeU, I32x4GeS, I32x4GeU,
    I64x2Eq, I64x2Ne, I64x2LtS, I64x2GtS, I64x2LeS, I64x2GeS,
    F32x4Eq, F32x4Ne, F32x4Lt, F32x4Gt, F32x4Le, F32x4Ge,
    F64x2Eq, F64x2Ne, F64x2Lt, F64x2Gt, F64x2Le, F64x2Ge,
    V128And, V128AndNot, V128Or, V128Xor,
    I8x16NarrowI16x8S, I8x16NarrowI16x8U, I8x16Shl, I8x16ShrS, I8x16ShrU,
    I8x16Add, I8x16AddSatS, I8x16AddSatU, I8x16Sub, I8x16SubSatS, I8x16SubSatU,
    I8x16MinS, I8x16MinU, I8x16MaxS, I8x16MaxU, I8x16AvgrU,
    I16x8Q15MulrSatS, I16x8NarrowI32x4S, I16x8NarrowI32x4U, I16x8Shl, I16x8ShrS, I16x8ShrU,
    I16x8Add, I16x8AddSatS, I16x8AddSatU, I16x8Sub, I16x8SubSatS, I16x8SubSatU, I16x8Mul,
    I16x8MinS, I16x8MinU, I16x8MaxS, I16x8MaxU, I16x8AvgrU,
    I16x8ExtMulLowI8x16S, I16x8ExtMulHighI8x16S, I16x8ExtMulLowI8x16U, I16x8ExtMulHighI8x16U,
    I32x4Shl, I32x4ShrS, I32x4ShrU, I32x4Add, I32x4Sub, I32x4Mul,
    I32x4MinS, I32x4MinU, I32x4MaxS, I32x4MaxU, I32x4DotI16x8S,
    I32x4ExtMulLowI16x8S, I32x4ExtMulHighI16x8S, I32x4ExtMulLowI16x8U, I32x4ExtMulHighI16x8U,
    I64x2Shl, I64x2ShrS, I64x2ShrU, I64x2Add, I64x2Sub, I64x2Mul,
    I64x2ExtMulLowI32x4S, I64x2ExtMulHighI32x4S, I64x2ExtMulLowI32x4U, I64x2ExtMulHighI32x4U,
    F32x4Add, F32x4Sub, F32x4Mul, F32x4Div, F32x4Min, F32x4Max, F32x4PMin, F32x4PMax,
    F64x2Add, F64x2Sub, F64x2Mul, F64x2Div, F64x2Min, F64x2Max, F64x2PMin, F64x2PMax,
);

// ---------------------------------------------------------------------------------------------
// float helpers (all operate on raw bits)
// ---------------------------------------------------------------------------------------------

#[inline]
pub fn canon32(x: f32) -> u32 {
    if x.is_nan() {
        CANON32
    } else {
        x.to_bits()
    }
}
#[inline]
pub fn canon64(x: f64) -> u64 {
    if x.is_nan() {
        CANON64
    } else {
        x.to_bits()
    }
}
#[inline]
fn f32b(a: u32) -> f32 {
    f32::from_bits(a)
}
#[inline]
fn f64b(a: u64) -> f64 {
    f64::from_bits(a)
}

macro_rules! float_fns {
    ($bits:ty, $fl:ty, $canon:ident, $sign:expr,
     $add:ident, $sub:ident, $mul:ident, $div:ident, $min:ident, $max:ident, $pmin:ident, $pmax:ident,
     $copysign:ident, $abs:ident, $neg:ident, $ceil:ident, $floor:ident, $trunc:ident, $nearest:ident, $sqrt:ident) => {
        #[inline] pub fn $add(a: $bits, b: $bits) -> $bits { $canon(<$fl>::from_bits(a) + <$fl>::from_bits(b)) }
        #[inline] pub fn $sub(a: $bits, b: $bits) -> $bits { $canon(<$fl>::from_bits(a) - <$fl>::from_bits(b)) }
        #[inline] pub fn $mul(a: $bits, b: $bits) -> $bits { $canon(<$fl>::from_bits(a) * <$fl>::from_bits(b)) }
        #[inline] pub fn $div(a: $bits, b: $bits) -> $bits { $canon(<$fl>::from_bits(a) / <$fl>::from_bits(b)) }
        #[inline] pub fn $min(a: $bits, b: $bits) -> $bits {
            let (x, y) = (<$fl>::from_bits(a), <$fl>::from_bits(b));
            if x.is_nan() || y.is_nan() { $canon(<$fl>::NAN) }
            else if x == y { a | b }      // equal: identical bits, or +0/-0 -> -0
            else if x < y { a } else { b }
        }
        #[inline] pub fn $max(a: $bits, b: $bits) -> $bits {
            let (x, y) = (<$fl>::from_bits(a), <$fl>::from_bits(b));
            if x.is_nan() || y.is_nan() { $canon(<$fl>::NAN) }
            else if x == y { a & b }      // equal: identical bits, or +0/-0 -> +0
            else if x > y { a } else { b }
        }
        /// pmin(a, b) = b < a ? b : a   (payload preserving)
        #[inline] pub fn $pmin(a: $bits, b: $bits) -> $bits {
            if <$fl>::from_bits(b) < <$fl>::from_bits(a) { b } else { a }
        }
        /// pmax(a, b) = a < b ? b : a   (payload preserving)
        #[inline] pub fn $pmax(a: $bits, b: $bits) -> $bits {
            if <$fl>::from_bits(a) < <$fl>::from_bits(b) { b } else { a }
        }
        #[inline] pub fn $copysign(a: $bits, b: $bits) -> $bits { (a & !$sign) | (b & $sign) }
        #[inline] pub fn $abs(a: $bits) -> $bits { a & !$sign }
        #[inline] pub fn $neg(a: $bits) -> $bits { a ^ $sign }
        #[inline] pub fn $ceil(a: $bits) -> $bits { $canon(<$fl>::from_bits(a).ceil()) }
        #[inline] pub fn $floor(a: $bits) -> $bits { $canon(<$fl>::from_bits(a).floor()) }
        #[inline] pub fn $trunc(a: $bits) -> $bits { $canon(<$fl>::from_bits(a).trunc()) }
        #[inline] pub fn $nearest(a: $bits) -> $bits { $canon(<$fl>::from_bits(a).round_ties_even()) }
        #[inline] pub fn $sqrt(a: $bits) -> $bits { $canon(<$fl>::from_bits(a).sqrt()) }
    };
}

float_fns!(u32, f32, canon32, 0x8000_0000u32,
    f32_add, f32_sub, f32_mul, f32_div, f32_min, f32_max, f32_pmin, f32_pmax,
    f32_copysign, f32_abs, f32_neg, f32_ceil, f32_floor, f32_trunc, f32_nearest, f32_sqrt);
float_fns!(u64, f64, canon64, 0x8000_0000_0000_0000u64,
    f64_add, f64_sub, f64_mul, f64_div, f64_min, f64_max, f64_pmin, f64_pmax,
    f64_copysign, f64_abs, f64_neg, f64_ceil, f64_floor, f64_trunc, f64_nearest, f64_sqrt);

#[inline]
pub fn f32_demote(a: u64) -> u32 {
    canon32(f64b(a) as f32)
}
#[inline]
pub fn f64_promote(a: u32) -> u64 {
    canon64(f32b(a) as f64)
}

// Trapping truncations. `d` is the (exactly converted) f64 value of the operand.
#[inline]
fn trunc_i32_s(d: f64) -> Result<u128, Trap> {
    if d.is_nan() {
        Err(Trap::InvalidConversion)
    } else if d > -2147483649.0 && d < 2147483648.0 {
        Ok(d as i32 as u32 as u128)
    } else {
        Err(Trap::IntegerOverflow)
    }
}
#[inline]
fn trunc_i32_u(d: f64) -> Result<u128, Trap> {
    if d.is_nan() {
        Err(Trap::InvalidConversion)
    } else if d > -1.0 && d < 4294967296.0 {
        Ok(d as u32 as u128)
    } else {
        Err(Trap::IntegerOverflow)
    }
}
#[inline]
fn trunc_i64_s(d: f64) -> Result<u128, Trap> {
    if d.is_nan() {
        Err(Trap::InvalidConversion)
    } else if d >= -9223372036854775808.0 && d < 9223372036854775808.0 {
        Ok(d as i64 as u64 as u128)
    } else {
        Err(Trap::IntegerOverflow)
    }
}
#[inline]
fn trunc_i64_u(d: f64) -> Result<u128, Trap> {
    if d.is_nan() {
        Err(Trap::InvalidConversion)
    } else if d > -1.0 && d < 18446744073709551616.0 {
        Ok(d as u64 as u128)
    } else {
        Err(Trap::IntegerOverflow)
    }
}

#[inline]
fn b(x: bool) -> u128 {
    x as u128
}

/// Evaluate a unary operator on a slot.
#[inline]
pub fn un_op(op: UnOp, a: u128) -> Result<u128, Trap> {
    use UnOp::*;
    let a32 = a as u32;
    let a64 = a as u64;
    Ok(match op {
        I32Eqz => b(a32 == 0),
        I64Eqz => b(a64 == 0),
        I32Clz => a32.leading_zeros() as u128,
        I32Ctz => a32.trailing_zeros() as u128,
        I32Popcnt => a32.count_ones() as u128,
        I64Clz => a64.leading_zeros() as u128,
        I64Ctz => a64.trailing_zeros() as u128,
        I64Popcnt => a64.count_ones() as u128,
        F32Abs => f32_abs(a32) as u128,
        F32Neg => f32_neg(a32) as u128,
        F32Ceil => f32_ceil(a32) as u128,
        F32Floor => f32_floor(a32) as u128,
        F32Trunc => f32_trunc(a32) as u128,
        F32Nearest => f32_nearest(a32) as u128,
        F32Sqrt => f32_sqrt(a32) as u128,
        F64Abs => f64_abs(a64) as u128,
        F64Neg => f64_neg(a64) as u128,
        F64Ceil => f64_ceil(a64) as u128,
        F64Floor => f64_floor(a64) as u128,
        F64Trunc => f64_trunc(a64) as u128,
        F64Nearest => f64_nearest(a64) as u128,
        F64Sqrt => f64_sqrt(a64) as u128,
        I32WrapI64 => a32 as u128,
        I32TruncF32S => trunc_i32_s(f32b(a32) as f64)?,
        I32TruncF32U => trunc_i32_u(f32b(a32) as f64)?,
        I32TruncF64S => trunc_i32_s(f64b(a64))?,
        I32TruncF64U => trunc_i32_u(f64b(a64))?,
        I64ExtendI32S => a32 as i32 as i64 as u64 as u128,
        I64ExtendI32U => a32 as u128,
        I64TruncF32S => trunc_i64_s(f32b(a32) as f64)?,
        I64TruncF32U => trunc_i64_u(f32b(a32) as f64)?,
        I64TruncF64S => trunc_i64_s(f64b(a64))?,
        I64TruncF64U => trunc_i64_u(f64b(a64))?,
        F32ConvertI32S => (a32 as i32 as f32).to_bits() as u128,
        F32ConvertI32U => (a32 as f32).to_bits() as u128,
        F32ConvertI64S => (a64 as i64 as f32).to_bits() as u128,
        F32ConvertI64U => (a64 as f32).to_bits() as u128,
        F32DemoteF64 => f32_demote(a64) as u128,
        F64ConvertI32S => (a32 as i32 as f64).to_bits() as u128,
        F64ConvertI32U => (a32 as f64).to_bits() as u128,
        F64ConvertI64S => (a64 as i64 as f64).to_bits() as u128,
        F64ConvertI64U => (a64 as f64).to_bits() as u128,
        F64PromoteF32 => f64_promote(a32) as u128,
        I32ReinterpretF32 | F32ReinterpretI32 => a32 as u128,
        I64ReinterpretF64 | F64ReinterpretI64 => a64 as u128,
        I32Extend8S => a32 as i8 as i32 as u32 as u128,
        I32Extend16S => a32 as i16 as i32 as u32 as u128,
        I64Extend8S => a64 as i8 as i64 as u64 as u128,
        I64Extend16S => a64 as i16 as i64 as u64 as u128,
        I64Extend32S => a64 as i32 as i64 as u64 as u128,
        // Rust float->int `as` casts saturate and map NaN to 0: exactly trunc_sat.
        I32TruncSatF32S => f32b(a32) as i32 as u32 as u128,
        I32TruncSatF32U => f32b(a32) as u32 as u128,
        I32TruncSatF64S => f64b(a64) as i32 as u32 as u128,
        I32TruncSatF64U => f64b(a64) as u32 as u128,
        I64TruncSatF32S => f32b(a32) as i64 as u64 as u128,
        I64TruncSatF32U => f32b(a32) as u64 as u128,
        I64TruncSatF64S => f64b(a64) as i64 as u64 as u128,
        I64TruncSatF64U => f64b(a64) as u64 as u128,
        RefIsNull => b(a64 == 0),
        _ => simd::un_op(op, a),
    })
}

/// Evaluate a binary operator on two slots (`x` was pushed first).
#[inline]
pub fn bin_op(op: BinOp, x: u128, y: u128) -> Result<u128, Trap> {
    use BinOp::*;
    let (a, c) = (x as u32, y as u32);
    let (sa, sc) = (a as i32, c as i32);
    let (l, m) = (x as u64, y as u64);
    let (sl, sm) = (l as i64, m as i64);
    Ok(match op {
        I32Eq => b(a == c),
        I32Ne => b(a != c),
        I32LtS => b(sa < sc),
        I32LtU => b(a < c),
        I32GtS => b(sa > sc),
        I32GtU => b(a > c),
        I32LeS => b(sa <= sc),
        I32LeU => b(a <= c),
        I32GeS => b(sa >= sc),
        I32GeU => b(a >= c),
        I64Eq => b(l == m),
        I64Ne => b(l != m),
        I64LtS => b(sl < sm),
        I64LtU => b(l < m),
        I64GtS => b(sl > sm),
        I64GtU => b(l > m),
        I64LeS => b(sl <= sm),
        I64LeU => b(l <= m),
        I64GeS => b(sl >= sm),
        I64GeU => b(l >= m),
        F32Eq => b(f32b(a) == f32b(c)),
        F32Ne => b(f32b(a) != f32b(c)),
        F32Lt => b(f32b(a) < f32b(c)),
        F32Gt => b(f32b(a) > f32b(c)),
        F32Le => b(f32b(a) <= f32b(c)),
        F32Ge => b(f32b(a) >= f32b(c)),
        F64Eq => b(f64b(l) == f64b(m)),
        F64Ne => b(f64b(l) != f64b(m)),
        F64Lt => b(f64b(l) < f64b(m)),
        F64Gt => b(f64b(l) > f64b(m)),
        F64Le => b(f64b(l) <= f64b(m)),
        F64Ge => b(f64b(l) >= f64b(m)),
        I32Add => a.wrapping_add(c) as u128,
        I32Sub => a.wrapping_sub(c) as u128,
        I32Mul => a.wrapping_mul(c) as u128,
        I32DivS => {
            if c == 0 {
                return Err(Trap::IntegerDivByZero);
            }
            if sa == i32::MIN && sc == -1 {
                return Err(Trap::IntegerOverflow);
            }
            (sa / sc) as u32 as u128
        }
        I32DivU => {
            if c == 0 {
                return Err(Trap::IntegerDivByZero);
            }
            (a / c) as u128
        }
        I32RemS => {
            if c == 0 {
                return Err(Trap::IntegerDivByZero);
            }
            sa.wrapping_rem(sc) as u32 as u128
        }
        I32RemU => {
            if c == 0 {
                return Err(Trap::IntegerDivByZero);
            }
            (a % c) as u128
        }
        I32And => (a & c) as u128,
        I32Or => (a | c) as u128,
        I32Xor => (a ^ c) as u128,
        I32Shl => a.wrapping_shl(c) as u128,
        I32ShrS => sa.wrapping_shr(c) as u32 as u128,
        I32ShrU => a.wrapping_shr(c) as u128,
        I32Rotl => a.rotate_left(c & 31) as u128,
        I32Rotr => a.rotate_right(c & 31) as u128,
        I64Add => l.wrapping_add(m) as u128,
        I64Sub => l.wrapping_sub(m) as u128,
        I64Mul => l.wrapping_mul(m) as u128,
        I64DivS => {
            if m == 0 {
                return Err(Trap::IntegerDivByZero);
            }
            if sl == i64::MIN && sm == -1 {
                return Err(Trap::IntegerOverflow);
            }
            (sl / sm) as u64 as u128
        }
        I64DivU => {
            if m == 0 {
                return Err(Trap::IntegerDivByZero);
            }
            (l / m) as u128
        }
        I64RemS => {
            if m == 0 {
                return Err(Trap::IntegerDivByZero);
            }
            sl.wrapping_rem(sm) as u64 as u128
        }
        I64RemU => {
            if m == 0 {
                return Err(Trap::IntegerDivByZero);
            }
            (l % m) as u128
        }
        I64And => (l & m) as u128,
        I64Or => (l | m) as u128,
        I64Xor => (l ^ m) as u128,
        I64Shl => l.wrapping_shl(m as u32) as u128,
        I64ShrS => sl.wrapping_shr(m as u32) as u64 as u128,
        I64ShrU => l.wrapping_shr(m as u32) as u128,
        I64Rotl => l.rotate_left((m & 63) as u32) as u128,
        I64Rotr => l.rotate_right((m & 63) as u32) as u128,
        F32Add => f32_add(a, c) as u128,
        F32Sub => f32_sub(a, c) as u128,
        F32Mul => f32_mul(a, c) as u128,
        F32Div => f32_div(a, c) as u128,
        F32Min => f32_min(a, c) as u128,
        F32Max => f32_max(a, c) as u128,
        F32Copysign => f32_copysign(a, c) as u128,
        F64Add => f64_add(l, m) as u128,
        F64Sub => f64_sub(l, m) as u128,
        F64Mul => f64_mul(l, m) as u128,
        F64Div => f64_div(l, m) as u128,
        F64Min => f64_min(l, m) as u128,
        F64Max => f64_max(l, m) as u128,
        F64Copysign => f64_copysign(l, m) as u128,
        _ => simd::bin_op(op, x, y),
    })
}

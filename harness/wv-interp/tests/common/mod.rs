#![allow(dead_code)]
use wv_interp::*;

pub fn wasm(wat: &str) -> Vec<u8> {
    wat::parse_str(wat).expect("wat parse")
}

pub fn mk(wat: &str) -> Instance {
    mk_lim(wat, Limits::default())
}

pub fn mk_lim(wat: &str, limits: Limits) -> Instance {
    Instance::instantiate(&wasm(wat), Box::new(DefaultHost), limits).expect("instantiate")
}

pub fn try_mk(wat: &str) -> Result<Instance, InstantiateError> {
    Instance::instantiate(&wasm(wat), Box::new(DefaultHost), Limits::default())
}

pub fn i32v(x: i32) -> Val {
    Val::I32(x)
}
pub fn i64v(x: i64) -> Val {
    Val::I64(x)
}
pub fn f32v(x: f32) -> Val {
    Val::F32(x.to_bits())
}
pub fn f64v(x: f64) -> Val {
    Val::F64(x.to_bits())
}

pub fn ret(v: Vec<Val>) -> Outcome {
    Outcome::Returned(v)
}
pub fn trap(t: Trap) -> Outcome {
    Outcome::Trap(t)
}

/// call export with args, expect a single i32 result
pub fn call_i32(inst: &mut Instance, name: &str, args: &[Val]) -> i32 {
    match inst.call_export(name, args) {
        Outcome::Returned(v) if v.len() == 1 => match v[0] {
            Val::I32(x) => x,
            ref o => panic!("{name}: expected i32, got {o:?}"),
        },
        o => panic!("{name}: unexpected outcome {o:?}"),
    }
}
pub fn call_i64(inst: &mut Instance, name: &str, args: &[Val]) -> i64 {
    match inst.call_export(name, args) {
        Outcome::Returned(v) if v.len() == 1 => match v[0] {
            Val::I64(x) => x,
            ref o => panic!("{name}: expected i64, got {o:?}"),
        },
        o => panic!("{name}: unexpected outcome {o:?}"),
    }
}
pub fn call_f32(inst: &mut Instance, name: &str, args: &[Val]) -> u32 {
    match inst.call_export(name, args) {
        Outcome::Returned(v) if v.len() == 1 => match v[0] {
            Val::F32(x) => x,
            ref o => panic!("{name}: expected f32, got {o:?}"),
        },
        o => panic!("{name}: unexpected outcome {o:?}"),
    }
}
pub fn call_f64(inst: &mut Instance, name: &str, args: &[Val]) -> u64 {
    match inst.call_export(name, args) {
        Outcome::Returned(v) if v.len() == 1 => match v[0] {
            Val::F64(x) => x,
            ref o => panic!("{name}: expected f64, got {o:?}"),
        },
        o => panic!("{name}: unexpected outcome {o:?}"),
    }
}
pub fn call_v128(inst: &mut Instance, name: &str, args: &[Val]) -> u128 {
    match inst.call_export(name, args) {
        Outcome::Returned(v) if v.len() == 1 => match v[0] {
            Val::V128(x) => x,
            ref o => panic!("{name}: expected v128, got {o:?}"),
        },
        o => panic!("{name}: unexpected outcome {o:?}"),
    }
}

pub const WAT_BR_TABLE: &str = r#"(module
      (func (export "sw") (param i32) (result i32)
        (block $d (block $c (block $b (block $a
          (br_table $a $b $c $d (local.get 0)))
          (return (i32.const 100)))
          (return (i32.const 101)))
          (return (i32.const 102)))
        (i32.const 103))
      ;; br_table carrying a value, loops with switch
      (func (export "sum_sw") (param i32) (result i32) (local $acc i32) (local $k i32)
        (loop $l
          (local.set $acc (i32.add (local.get $acc)
            (block $out (result i32)
              (block $two (result i32)
                (block $one (result i32)
                  (block $zero (result i32)
                    (i32.const 7)
                    (br_table $zero $one $two $out (i32.rem_u (local.get $k) (i32.const 5))))
                  (drop) (br $out (i32.const 1)))
                (drop) (br $out (i32.const 10)))
              (drop) (i32.const 100))))
          (local.set $k (i32.add (local.get $k) (i32.const 1)))
          (br_if $l (i32.lt_u (local.get $k) (local.get 0))))
        (local.get $acc))
    )"#;

pub const WAT_MULTI_VALUE: &str = r#"(module
      (type $pair (func (param i32 i64) (result i64 i32)))
      (type $ii_i (func (param i32 i32) (result i32)))
      (func $swap (export "swap") (type $pair) (local.get 1) (local.get 0))
      (func (export "swap_twice") (param i32 i64) (result i32 i64)
        (call $swap (local.get 0) (local.get 1))
        (local.set 0) (local.set 1) (local.get 0) (local.get 1))
      ;; block with params via type index
      (func (export "blockparams") (param i32 i32) (result i32)
        (local.get 0) (local.get 1)
        (block (type $ii_i) (i32.sub)))
      ;; loop with params: branch arity = params
      (func (export "loopparams") (param i32) (result i32)
        (i32.const 0) (local.get 0)
        (loop (param i32 i32) (result i32)
          ;; stack: acc n
          (local.set 0)              ;; n
          (local.get 0) (i32.add)    ;; acc += n
          (local.get 0) (i32.const 1) (i32.sub) (local.tee 0)
          (if (param i32) (result i32) (then (local.get 0) (br 1)))))
      ;; if without else with block params (params pass through)
      (func (export "if_noelse") (param i32 i32) (result i32)
        (local.get 0)
        (local.get 1)
        (if (param i32) (result i32) (then (i32.const 1) (i32.add))))
      ;; branch out of nested blocks with extra values on the stack
      (func (export "br_extra") (result i32)
        (block (result i32)
          (i32.const 1) (i32.const 2) (i32.const 3)
          (block (result i32) (i32.const 4) (i32.const 5) (i32.const 42) (br 1))
          (drop) (drop) (drop)))
      (func (export "ret_nested") (param i32) (result i32 i32)
        (i32.const 9)
        (block (loop (block
          (if (local.get 0) (then (i32.const 1) (i32.const 2) (i32.const 3) (return))))))
        (i32.const 8))
    )"#;

pub const WAT_TABLES: &str = r#"(module
      (type $i_i (func (param i32) (result i32)))
      (type $i_i_dup (func (param i32) (result i32)))
      (type $v_i (func (result i32)))
      (table $t (export "t") 8 funcref)
      (table $t2 (export "t2") 4 10 funcref)
      (func $inc (type $i_i) (i32.add (local.get 0) (i32.const 1)))
      (func $dbl (type $i_i) (i32.mul (local.get 0) (i32.const 2)))
      (func $seven (type $v_i) (i32.const 7))
      (elem (table $t) (i32.const 1) func $inc $dbl $seven)
      (elem $passive func $dbl $inc $seven $dbl)
      (elem declare func $seven)
      (func (export "ci") (param i32 i32) (result i32)
        (call_indirect $t (type $i_i) (local.get 0) (local.get 1)))
      (func (export "ci_dup") (param i32 i32) (result i32)
        (call_indirect $t (type $i_i_dup) (local.get 0) (local.get 1)))
      (func (export "ci2") (param i32 i32) (result i32)
        (call_indirect $t2 (type $i_i) (local.get 0) (local.get 1)))
      (func (export "init2") (param i32 i32 i32) (table.init $t2 $passive (local.get 0) (local.get 1) (local.get 2)))
      (func (export "drop_passive") (elem.drop $passive))
      (func (export "copy") (param i32 i32 i32) (table.copy $t $t (local.get 0) (local.get 1) (local.get 2)))
      (func (export "copy_2_to_1") (param i32 i32 i32) (table.copy $t $t2 (local.get 0) (local.get 1) (local.get 2)))
      (func (export "size2") (result i32) (table.size $t2))
      (func (export "grow2") (param i32) (result i32) (table.grow $t2 (ref.func $seven) (local.get 0)))
      (func (export "fill") (param i32 i32) (table.fill $t (local.get 0) (ref.null func) (local.get 1)))
      (func (export "get_is_null") (param i32) (result i32) (ref.is_null (table.get $t (local.get 0))))
      (func (export "set_seven") (param i32) (table.set $t (local.get 0) (ref.func $seven)))
      (func (export "getref") (param i32) (result funcref) (table.get $t (local.get 0)))
    )"#;

pub const WAT_BULK: &str = r#"(module
      (memory (export "m") 1)
      (data $act (i32.const 16) "active")
      (data $p "0123456789")
      (func (export "init") (param i32 i32 i32) (memory.init $p (local.get 0) (local.get 1) (local.get 2)))
      (func (export "init_act") (param i32 i32 i32) (memory.init $act (local.get 0) (local.get 1) (local.get 2)))
      (func (export "drop") (data.drop $p))
      (func (export "copy") (param i32 i32 i32) (memory.copy (local.get 0) (local.get 1) (local.get 2)))
      (func (export "fill") (param i32 i32 i32) (memory.fill (local.get 0) (local.get 1) (local.get 2)))
      (func (export "l8") (param i32) (result i32) (i32.load8_u (local.get 0)))
    )"#;

pub const WAT_FUNC_LABEL: &str = r#"(module
      (func (export "br_top") (param i32) (result i32)
        (i32.const 1) (i32.const 2)
        (block (result i32)
          (i32.const 3)
          (if (local.get 0) (then (i32.const 40) (br 2)))   ;; branch to function label carrying 40
          (i32.const 4) (i32.add))
        (i32.add) (i32.add))
      (func (export "br_table_top") (param i32) (result i32 i32)
        (i32.const 7)
        (block $b (result i32 i32)
          (i32.const 10) (i32.const 20) (i32.const 30)
          (br_table $b 1 $b (local.get 0)))
        (drop))
      (func (export "br_if_top") (param i32) (result i32)
        (i32.const 5) (local.get 0) (br_if 0) (drop) (i32.const 6))
      (func (export "loop_result") (param i32) (result i32)
        (loop (result i32)
          (local.set 0 (i32.sub (local.get 0) (i32.const 1)))
          (br_if 0 (local.get 0))
          (i32.const 77)))
      (func (export "unreachable_in_dead_code") (result i32)
        (block (result i32) (i32.const 1) (br 0) (unreachable) (i32.add) (f32.const 0) (drop)))
      (func (export "select_dead") (result i32) (return (i32.const 3)) (select) (drop))
    )"#;

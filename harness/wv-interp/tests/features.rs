mod common;
use common::*;
use wv_interp::*;

#[test]
fn tables_and_call_indirect() {
    let mut i = mk(WAT_TABLES);
    // active segment: t[1]=inc t[2]=dbl t[3]=seven
    assert_eq!(i.table_len(0), 8);
    assert_eq!(i.table_get(0, 0), Val::FuncRef(None));
    assert_eq!(i.table_get(0, 1), Val::FuncRef(Some(0)));
    assert_eq!(i.table_get(0, 3), Val::FuncRef(Some(2)));
    assert_eq!(call_i32(&mut i, "ci", &[i32v(10), i32v(1)]), 11);
    assert_eq!(call_i32(&mut i, "ci", &[i32v(10), i32v(2)]), 20);
    // structural type equality
    assert_eq!(call_i32(&mut i, "ci_dup", &[i32v(10), i32v(2)]), 20);
    assert_eq!(i.call_export("ci", &[i32v(10), i32v(3)]), trap(Trap::IndirectCallTypeMismatch));
    assert_eq!(i.call_export("ci", &[i32v(10), i32v(0)]), trap(Trap::IndirectCallNull));
    assert_eq!(i.call_export("ci", &[i32v(10), i32v(8)]), trap(Trap::TableOutOfBounds));
    assert_eq!(i.call_export("ci", &[i32v(10), i32v(-1)]), trap(Trap::TableOutOfBounds));
    // table.init from passive into t2
    assert_eq!(i.call_export("ci2", &[i32v(10), i32v(0)]), trap(Trap::IndirectCallNull));
    assert_eq!(i.call_export("init2", &[i32v(1), i32v(0), i32v(3)]), ret(vec![]));
    assert_eq!(call_i32(&mut i, "ci2", &[i32v(10), i32v(1)]), 20);
    assert_eq!(call_i32(&mut i, "ci2", &[i32v(10), i32v(2)]), 11);
    assert_eq!(i.call_export("init2", &[i32v(2), i32v(2), i32v(3)]), trap(Trap::TableOutOfBounds)); // src oob
    assert_eq!(i.call_export("init2", &[i32v(3), i32v(0), i32v(2)]), trap(Trap::TableOutOfBounds)); // dst oob
    assert_eq!(i.table_get(1, 3), Val::FuncRef(Some(2))); // untouched by failed init
    assert_eq!(i.call_export("init2", &[i32v(4), i32v(4), i32v(0)]), ret(vec![])); // zero length at the end ok
    assert_eq!(i.call_export("init2", &[i32v(5), i32v(0), i32v(0)]), trap(Trap::TableOutOfBounds));
    assert_eq!(i.call_export("drop_passive", &[]), ret(vec![]));
    assert_eq!(i.call_export("drop_passive", &[]), ret(vec![]));
    assert_eq!(i.call_export("init2", &[i32v(0), i32v(0), i32v(1)]), trap(Trap::TableOutOfBounds));
    assert_eq!(i.call_export("init2", &[i32v(0), i32v(0), i32v(0)]), ret(vec![]));
    assert_eq!(i.call_export("init2", &[i32v(0), i32v(1), i32v(0)]), trap(Trap::TableOutOfBounds));
    // table.copy overlapping within t: [_, inc, dbl, seven, ...] copy 1..4 -> 2..5
    assert_eq!(i.call_export("copy", &[i32v(2), i32v(1), i32v(3)]), ret(vec![]));
    assert_eq!(i.table_get(0, 1), Val::FuncRef(Some(0)));
    assert_eq!(i.table_get(0, 2), Val::FuncRef(Some(0)));
    assert_eq!(i.table_get(0, 3), Val::FuncRef(Some(1)));
    assert_eq!(i.table_get(0, 4), Val::FuncRef(Some(2)));
    assert_eq!(i.call_export("copy", &[i32v(6), i32v(0), i32v(3)]), trap(Trap::TableOutOfBounds));
    assert_eq!(i.call_export("copy", &[i32v(8), i32v(0), i32v(0)]), ret(vec![]));
    assert_eq!(i.call_export("copy", &[i32v(9), i32v(0), i32v(0)]), trap(Trap::TableOutOfBounds));
    // cross-table copy t2 -> t
    assert_eq!(i.call_export("copy_2_to_1", &[i32v(6), i32v(1), i32v(2)]), ret(vec![]));
    assert_eq!(i.table_get(0, 6), Val::FuncRef(Some(1)));
    assert_eq!(i.table_get(0, 7), Val::FuncRef(Some(0)));
    // size / grow with declared maximum 10
    assert_eq!(call_i32(&mut i, "size2", &[]), 4);
    assert_eq!(call_i32(&mut i, "grow2", &[i32v(7)]), -1);
    assert_eq!(call_i32(&mut i, "grow2", &[i32v(6)]), 4);
    assert_eq!(call_i32(&mut i, "size2", &[]), 10);
    assert_eq!(i.table_get(1, 9), Val::FuncRef(Some(2)));
    assert_eq!(call_i32(&mut i, "grow2", &[i32v(1)]), -1);
    assert_eq!(call_i32(&mut i, "grow2", &[i32v(0)]), 10);
    // fill / get / set
    assert_eq!(call_i32(&mut i, "get_is_null", &[i32v(1)]), 0);
    assert_eq!(i.call_export("fill", &[i32v(1), i32v(2)]), ret(vec![]));
    assert_eq!(call_i32(&mut i, "get_is_null", &[i32v(1)]), 1);
    assert_eq!(call_i32(&mut i, "get_is_null", &[i32v(2)]), 1);
    assert_eq!(call_i32(&mut i, "get_is_null", &[i32v(3)]), 0);
    assert_eq!(i.call_export("fill", &[i32v(7), i32v(2)]), trap(Trap::TableOutOfBounds));
    assert_eq!(i.call_export("get_is_null", &[i32v(8)]), trap(Trap::TableOutOfBounds));
    assert_eq!(i.call_export("set_seven", &[i32v(8)]), trap(Trap::TableOutOfBounds));
    assert_eq!(i.call_export("set_seven", &[i32v(0)]), ret(vec![]));
    assert_eq!(i.call_export("getref", &[i32v(0)]), ret(vec![Val::FuncRef(Some(2))]));
    assert_eq!(i.call_export("getref", &[i32v(1)]), ret(vec![Val::FuncRef(None)]));
}

#[test]
fn table_grow_limited_by_max_table() {
    let mut i = mk_lim(
        r#"(module (table 2 funcref)
           (func (export "grow") (param i32) (result i32) (table.grow (ref.null func) (local.get 0))))"#,
        Limits { max_table: 5, ..Limits::default() },
    );
    assert_eq!(call_i32(&mut i, "grow", &[i32v(4)]), -1);
    assert_eq!(call_i32(&mut i, "grow", &[i32v(3)]), 2);
    assert_eq!(call_i32(&mut i, "grow", &[i32v(1)]), -1);
}

#[test]
fn reference_types_and_elem_exprs() {
    let mut i = mk(r#"(module
      (import "env" "gref" (global $gref externref))
      (import "env" "gfun" (global $gfun funcref))
      (func $a (result i32) (i32.const 1))
      (func $b (result i32) (i32.const 2))
      (global $fa funcref (ref.func $a))
      (global $fb (mut funcref) (ref.func $b))
      (global $fn (mut funcref) (ref.null func))
      (table $tf (export "tf") 6 funcref)
      (table $te (export "te") 4 externref)
      (elem (table $tf) (i32.const 0) funcref (ref.func $b) (ref.null func) (global.get $fa) (global.get $gfun))
      (elem (table $te) (i32.const 1) externref (ref.null extern) (global.get $gref))
      (elem $p externref (ref.null extern))
      (func (export "call_tf") (param i32) (result i32) (call_indirect $tf (result i32) (local.get 0)))
      (func (export "eset") (param i32 externref) (table.set $te (local.get 0) (local.get 1)))
      (func (export "eget") (param i32) (result externref) (table.get $te (local.get 0)))
      (func (export "enull") (param externref) (result i32) (ref.is_null (local.get 0)))
      (func (export "esel") (param externref externref i32) (result externref)
        (select (result externref) (local.get 0) (local.get 1) (local.get 2)))
      (func (export "glob_fb") (result funcref) (global.get $fb))
      (func (export "swap_globals") (global.set $fn (global.get $fb)) (global.set $fb (ref.null func)))
      (func (export "local_ref_default") (result i32) (local funcref) (ref.is_null (local.get 0)))
      (func (export "egrow") (param externref i32) (result i32) (table.grow $te (local.get 0) (local.get 1)))
    )"#);
    assert_eq!(i.global_value(0), Val::ExternRef(None));
    assert_eq!(i.global_value(1), Val::FuncRef(None));
    assert_eq!(i.global_value(2), Val::FuncRef(Some(0)));
    assert_eq!(i.global_value(3), Val::FuncRef(Some(1)));
    assert_eq!(i.global_value(4), Val::FuncRef(None));
    assert_eq!(i.table_get(0, 0), Val::FuncRef(Some(1)));
    assert_eq!(i.table_get(0, 1), Val::FuncRef(None));
    assert_eq!(i.table_get(0, 2), Val::FuncRef(Some(0)));
    assert_eq!(i.table_get(0, 3), Val::FuncRef(None));
    assert_eq!(i.table_get(1, 1), Val::ExternRef(None));
    assert_eq!(call_i32(&mut i, "call_tf", &[i32v(0)]), 2);
    assert_eq!(call_i32(&mut i, "call_tf", &[i32v(2)]), 1);
    assert_eq!(i.call_export("call_tf", &[i32v(1)]), trap(Trap::IndirectCallNull));
    assert_eq!(i.call_export("eset", &[i32v(2), Val::ExternRef(Some(41))]), ret(vec![]));
    assert_eq!(i.call_export("eset", &[i32v(3), Val::ExternRef(Some(0))]), ret(vec![]));
    assert_eq!(i.call_export("eget", &[i32v(2)]), ret(vec![Val::ExternRef(Some(41))]));
    assert_eq!(i.call_export("eget", &[i32v(3)]), ret(vec![Val::ExternRef(Some(0))]));
    assert_eq!(i.call_export("eget", &[i32v(0)]), ret(vec![Val::ExternRef(None)]));
    assert_eq!(i.table_get(1, 2), Val::ExternRef(Some(41)));
    assert_eq!(call_i32(&mut i, "enull", &[Val::ExternRef(None)]), 1);
    assert_eq!(call_i32(&mut i, "enull", &[Val::ExternRef(Some(0))]), 0);
    assert_eq!(
        i.call_export("esel", &[Val::ExternRef(Some(1)), Val::ExternRef(Some(2)), i32v(0)]),
        ret(vec![Val::ExternRef(Some(2))])
    );
    assert_eq!(i.call_export("glob_fb", &[]), ret(vec![Val::FuncRef(Some(1))]));
    assert_eq!(i.call_export("swap_globals", &[]), ret(vec![]));
    assert_eq!(i.global_value(3), Val::FuncRef(None));
    assert_eq!(i.global_value(4), Val::FuncRef(Some(1)));
    assert_eq!(call_i32(&mut i, "local_ref_default", &[]), 1);
    assert_eq!(call_i32(&mut i, "egrow", &[Val::ExternRef(Some(9)), i32v(2)]), 4);
    assert_eq!(i.table_len(1), 6);
    assert_eq!(i.table_get(1, 5), Val::ExternRef(Some(9)));
    // wrong kind of reference as argument is API misuse
    assert!(matches!(i.call_export("enull", &[Val::FuncRef(None)]), Outcome::Unsupported(_)));
}

#[test]
fn bulk_memory() {
    let mut i = mk(WAT_BULK);
    assert_eq!(&i.memory_bytes(0)[16..22], b"active");
    // active segments are dropped after instantiation: only zero-length init is ok
    assert_eq!(i.call_export("init_act", &[i32v(0), i32v(0), i32v(1)]), trap(Trap::MemOutOfBounds));
    assert_eq!(i.call_export("init_act", &[i32v(0), i32v(0), i32v(0)]), ret(vec![]));
    assert_eq!(i.call_export("init", &[i32v(100), i32v(2), i32v(5)]), ret(vec![]));
    assert_eq!(&i.memory_bytes(0)[100..105], b"23456");
    assert_eq!(i.call_export("init", &[i32v(100), i32v(6), i32v(5)]), trap(Trap::MemOutOfBounds));
    assert_eq!(i.call_export("init", &[i32v(65534), i32v(0), i32v(3)]), trap(Trap::MemOutOfBounds));
    assert_eq!(&i.memory_bytes(0)[65534..], &[0, 0]); // nothing written by the failed init
    assert_eq!(i.call_export("init", &[i32v(65536), i32v(10), i32v(0)]), ret(vec![]));
    assert_eq!(i.call_export("init", &[i32v(65537), i32v(0), i32v(0)]), trap(Trap::MemOutOfBounds));
    assert_eq!(i.call_export("init", &[i32v(0), i32v(11), i32v(0)]), trap(Trap::MemOutOfBounds));
    // overlapping copy, both directions
    assert_eq!(i.call_export("copy", &[i32v(102), i32v(100), i32v(5)]), ret(vec![]));
    assert_eq!(&i.memory_bytes(0)[100..107], b"2323456");
    assert_eq!(i.call_export("copy", &[i32v(100), i32v(101), i32v(6)]), ret(vec![]));
    assert_eq!(&i.memory_bytes(0)[100..107], b"3234566");
    assert_eq!(i.call_export("copy", &[i32v(65530), i32v(0), i32v(7)]), trap(Trap::MemOutOfBounds));
    assert_eq!(i.call_export("copy", &[i32v(0), i32v(65530), i32v(7)]), trap(Trap::MemOutOfBounds));
    assert_eq!(i.call_export("copy", &[i32v(65536), i32v(65536), i32v(0)]), ret(vec![]));
    assert_eq!(i.call_export("copy", &[i32v(65537), i32v(0), i32v(0)]), trap(Trap::MemOutOfBounds));
    // fill
    assert_eq!(i.call_export("fill", &[i32v(200), i32v(0x1ab), i32v(3)]), ret(vec![]));
    assert_eq!(&i.memory_bytes(0)[199..204], &[0, 0xab, 0xab, 0xab, 0]);
    assert_eq!(i.call_export("fill", &[i32v(65535), i32v(1), i32v(2)]), trap(Trap::MemOutOfBounds));
    assert_eq!(call_i32(&mut i, "l8", &[i32v(65535)]), 0);
    assert_eq!(i.call_export("fill", &[i32v(65536), i32v(1), i32v(0)]), ret(vec![]));
    assert_eq!(i.call_export("fill", &[i32v(0), i32v(1), i32v(-1)]), trap(Trap::MemOutOfBounds));
    // drop
    assert_eq!(i.call_export("drop", &[]), ret(vec![]));
    assert_eq!(i.call_export("init", &[i32v(0), i32v(0), i32v(1)]), trap(Trap::MemOutOfBounds));
    assert_eq!(i.call_export("init", &[i32v(0), i32v(0), i32v(0)]), ret(vec![]));
    assert_eq!(i.call_export("drop", &[]), ret(vec![]));
}

#[test]
fn tail_calls() {
    let mut i = mk_lim(
        r#"(module
      (type $ii_i (func (param i32 i32) (result i32)))
      (table 2 funcref)
      (elem (i32.const 0) $count_ind $odd)
      (func $count (export "count") (param i32 i32) (result i32)
        (if (result i32) (i32.eqz (local.get 0))
          (then (local.get 1))
          (else (return_call $count (i32.sub (local.get 0) (i32.const 1)) (i32.add (local.get 1) (i32.const 1))))))
      (func $count_ind (export "count_ind") (type $ii_i)
        (if (i32.eqz (local.get 0)) (then (return (local.get 1))))
        (i32.sub (local.get 0) (i32.const 1)) (i32.add (local.get 1) (i32.const 2))
        (return_call_indirect (type $ii_i) (i32.const 0)))
      ;; mutual recursion with different arities; extra operands on the stack are discarded
      (func $even (export "even") (param i32 i32) (result i32)
        (i32.const 99)
        (if (i32.eqz (local.get 0)) (then (return (i32.const 1))))
        (return_call $odd (i32.sub (local.get 0) (i32.const 1))))
      (func $odd (param i32) (result i32) (local i64 i64 i64)
        (if (i32.eqz (local.get 0)) (then (return (i32.const 0))))
        (return_call $even (i32.sub (local.get 0) (i32.const 1)) (i32.const 0)))
      ;; non-tail recursion depth inside tail calls is still limited
      (func $deep (export "deep_then_tail") (param i32) (result i32)
        (if (result i32) (local.get 0)
          (then (call $deep (i32.sub (local.get 0) (i32.const 1))))
          (else (return_call $count (i32.const 10000) (i32.const 0)))))
      (func (export "bad_sig") (result i32)
        (return_call_indirect (type $ii_i) (i32.const 1) (i32.const 2) (i32.const 1)))
    )"#,
        Limits { fuel: 3_000_000, ..Limits::default() },
    );
    assert_eq!(call_i32(&mut i, "count", &[i32v(1_000_000), i32v(0)]), 1_000_000);
    assert_eq!(call_i32(&mut i, "count_ind", &[i32v(1_000_000), i32v(0)]), 2_000_000);
    assert_eq!(call_i32(&mut i, "even", &[i32v(100_000), i32v(0)]), 1);
    assert_eq!(call_i32(&mut i, "even", &[i32v(100_001), i32v(0)]), 0);
    assert_eq!(call_i32(&mut i, "deep_then_tail", &[i32v(1500)]), 10000);
    assert_eq!(i.call_export("deep_then_tail", &[i32v(2500)]), trap(Trap::StackExhausted));
    assert_eq!(i.call_export("bad_sig", &[]), trap(Trap::IndirectCallTypeMismatch));
    // fuel: tail calls cost 1 each
    let mut j = mk_lim(
        r#"(module (func $c (export "c") (param i32) (result i32)
              (if (result i32) (local.get 0) (then (return_call $c (i32.sub (local.get 0) (i32.const 1)))) (else (i32.const 5)))))"#,
        Limits { fuel: 11, ..Limits::default() },
    );
    assert_eq!(call_i32(&mut j, "c", &[i32v(10)]), 5);
    assert_eq!(j.call_export("c", &[i32v(11)]), Outcome::OutOfFuel);
}

#[test]
fn multi_memory() {
    let mut i = mk(r#"(module
      (memory $a (export "a") 1)
      (memory $b (export "b") 2)
      (data (memory $b) (i32.const 65536) "second")
      (data $p "xyz")
      (func (export "store_b") (param i32 i32) (i32.store $b (local.get 0) (local.get 1)))
      (func (export "load_a") (param i32) (result i32) (i32.load $a (local.get 0)))
      (func (export "load_b") (param i32) (result i32) (i32.load $b (local.get 0)))
      (func (export "copy_b_to_a") (param i32 i32 i32) (memory.copy $a $b (local.get 0) (local.get 1) (local.get 2)))
      (func (export "copy_a_to_b") (param i32 i32 i32) (memory.copy $b $a (local.get 0) (local.get 1) (local.get 2)))
      (func (export "fill_b") (param i32 i32 i32) (memory.fill $b (local.get 0) (local.get 1) (local.get 2)))
      (func (export "init_b") (param i32) (memory.init $b $p (local.get 0) (i32.const 0) (i32.const 3)))
      (func (export "size_a") (result i32) (memory.size $a))
      (func (export "size_b") (result i32) (memory.size $b))
      (func (export "grow_b") (param i32) (result i32) (memory.grow $b (local.get 0)))
    )"#);
    assert_eq!(i.num_memories(), 2);
    assert_eq!(&i.memory_bytes(1)[65536..65542], b"second");
    assert_eq!(i.call_export("store_b", &[i32v(70000), i32v(0x11223344)]), ret(vec![]));
    assert_eq!(i.call_export("load_a", &[i32v(70000)]), trap(Trap::MemOutOfBounds));
    assert_eq!(call_i32(&mut i, "load_b", &[i32v(70000)]), 0x11223344);
    assert_eq!(i.call_export("copy_b_to_a", &[i32v(8), i32v(65536), i32v(6)]), ret(vec![]));
    assert_eq!(&i.memory_bytes(0)[8..14], b"second");
    assert_eq!(i.call_export("copy_b_to_a", &[i32v(65531), i32v(65536), i32v(6)]), trap(Trap::MemOutOfBounds));
    assert_eq!(i.call_export("copy_a_to_b", &[i32v(131066), i32v(8), i32v(6)]), ret(vec![]));
    assert_eq!(&i.memory_bytes(1)[131066..], b"second");
    assert_eq!(i.call_export("copy_a_to_b", &[i32v(0), i32v(65531), i32v(6)]), trap(Trap::MemOutOfBounds));
    assert_eq!(i.call_export("fill_b", &[i32v(100000), i32v(7), i32v(4)]), ret(vec![]));
    assert_eq!(call_i32(&mut i, "load_b", &[i32v(100000)]), 0x07070707);
    assert_eq!(i.call_export("init_b", &[i32v(90000)]), ret(vec![]));
    assert_eq!(&i.memory_bytes(1)[90000..90003], b"xyz");
    assert_eq!(call_i32(&mut i, "size_a", &[]), 1);
    assert_eq!(call_i32(&mut i, "size_b", &[]), 2);
    assert_eq!(call_i32(&mut i, "grow_b", &[i32v(1)]), 2);
    assert_eq!(call_i32(&mut i, "size_b", &[]), 3);
    assert_eq!(call_i32(&mut i, "size_a", &[]), 1);
    assert_ne!(i.memory_hash(0), i.memory_hash(1));
}

#[test]
fn memory64() {
    let mut i = mk(r#"(module
      (memory $m i64 1 3)
      (memory $n 1)
      (data (memory $m) (i64.const 8) "\11\22\33\44\55\66\77\88")
      (func (export "load") (param i64) (result i64) (i64.load (local.get 0)))
      (func (export "load_big_off") (param i64) (result i32) (i32.load offset=0x100000000 (local.get 0)))
      (func (export "load_max_off") (param i64) (result i32) (i32.load8_u offset=0xffffffffffffffff (local.get 0)))
      (func (export "load_off8") (param i64) (result i32) (i32.load offset=8 (local.get 0)))
      (func (export "store") (param i64 i32) (i32.store (local.get 0) (local.get 1)))
      (func (export "size") (result i64) (memory.size $m))
      (func (export "grow") (param i64) (result i64) (memory.grow $m (local.get 0)))
      (func (export "fill") (param i64 i32 i64) (memory.fill $m (local.get 0) (local.get 1) (local.get 2)))
      (func (export "copy") (param i64 i64 i64) (memory.copy $m $m (local.get 0) (local.get 1) (local.get 2)))
      (func (export "copy_to_32") (param i32 i64 i32) (memory.copy $n $m (local.get 0) (local.get 1) (local.get 2)))
      (func (export "copy_from_32") (param i64 i32 i32) (memory.copy $m $n (local.get 0) (local.get 1) (local.get 2)))
      (func (export "load_n") (param i32) (result i64) (i64.load $n (local.get 0)))
    )"#);
    assert_eq!(call_i64(&mut i, "load", &[i64v(8)]), 0x8877665544332211u64 as i64);
    assert_eq!(i.call_export("load", &[i64v(65529)]), trap(Trap::MemOutOfBounds));
    assert_eq!(call_i64(&mut i, "load", &[i64v(65528)]), 0);
    // addresses >= 2^32 must not wrap
    assert_eq!(i.call_export("load", &[i64v(0x1_0000_0008)]), trap(Trap::MemOutOfBounds));
    assert_eq!(i.call_export("load", &[i64v(-1)]), trap(Trap::MemOutOfBounds));
    assert_eq!(i.call_export("load", &[i64v(i64::MIN + 8)]), trap(Trap::MemOutOfBounds));
    assert_eq!(i.call_export("load_big_off", &[i64v(8)]), trap(Trap::MemOutOfBounds));
    assert_eq!(i.call_export("load_big_off", &[i64v(0)]), trap(Trap::MemOutOfBounds));
    // address + offset overflowing u64 must trap, not wrap to a small address
    assert_eq!(i.call_export("load_max_off", &[i64v(9)]), trap(Trap::MemOutOfBounds));
    assert_eq!(i.call_export("load_max_off", &[i64v(0)]), trap(Trap::MemOutOfBounds));
    assert_eq!(i.call_export("load_off8", &[i64v(-8)]), trap(Trap::MemOutOfBounds));
    assert_eq!(call_i32(&mut i, "load_off8", &[i64v(0)]), 0x44332211);
    assert_eq!(i.call_export("store", &[i64v(0x1_0000_0000), i32v(1)]), trap(Trap::MemOutOfBounds));
    assert_eq!(i.call_export("store", &[i64v(0), i32v(0x01020304)]), ret(vec![]));
    assert_eq!(call_i64(&mut i, "size", &[]), 1);
    assert_eq!(call_i64(&mut i, "grow", &[i64v(3)]), -1);
    assert_eq!(call_i64(&mut i, "grow", &[i64v(-1)]), -1);
    assert_eq!(call_i64(&mut i, "grow", &[i64v(0x1_0000_0000)]), -1);
    assert_eq!(call_i64(&mut i, "grow", &[i64v(2)]), 1);
    assert_eq!(call_i64(&mut i, "size", &[]), 3);
    assert_eq!(i.call_export("fill", &[i64v(196600), i32v(9), i64v(8)]), ret(vec![]));
    assert_eq!(i.call_export("fill", &[i64v(196601), i32v(9), i64v(8)]), trap(Trap::MemOutOfBounds));
    assert_eq!(i.call_export("fill", &[i64v(0), i32v(9), i64v(-1)]), trap(Trap::MemOutOfBounds));
    assert_eq!(i.call_export("fill", &[i64v(-1), i32v(9), i64v(2)]), trap(Trap::MemOutOfBounds));
    assert_eq!(i.call_export("copy", &[i64v(100), i64v(8), i64v(8)]), ret(vec![]));
    assert_eq!(call_i64(&mut i, "load", &[i64v(100)]), 0x8877665544332211u64 as i64);
    assert_eq!(i.call_export("copy", &[i64v(100), i64v(0x1_0000_0000), i64v(8)]), trap(Trap::MemOutOfBounds));
    assert_eq!(i.call_export("copy_to_32", &[i32v(16), i64v(8), i32v(8)]), ret(vec![]));
    assert_eq!(call_i64(&mut i, "load_n", &[i32v(16)]), 0x8877665544332211u64 as i64);
    assert_eq!(i.call_export("copy_from_32", &[i64v(196600), i32v(16), i32v(8)]), ret(vec![]));
    assert_eq!(call_i64(&mut i, "load", &[i64v(196600)]), 0x8877665544332211u64 as i64);
    assert_eq!(i.call_export("copy_from_32", &[i64v(196601), i32v(16), i32v(8)]), trap(Trap::MemOutOfBounds));
}

#[test]
fn atomics() {
    let mut i = mk(r#"(module
      (memory (export "m") 1 1 shared)
      (memory $u 1)
      (func (export "init") (param i64) (i64.store (i32.const 0) (local.get 0)))
      (func (export "get") (result i64) (i64.load (i32.const 0)))
      (func (export "aload32") (param i32) (result i32) (i32.atomic.load (local.get 0)))
      (func (export "aload64") (param i32) (result i64) (i64.atomic.load (local.get 0)))
      (func (export "aload8") (param i32) (result i32) (i32.atomic.load8_u (local.get 0)))
      (func (export "aload16") (param i32) (result i32) (i32.atomic.load16_u (local.get 0)))
      (func (export "aload64_8") (param i32) (result i64) (i64.atomic.load8_u (local.get 0)))
      (func (export "aload64_16") (param i32) (result i64) (i64.atomic.load16_u (local.get 0)))
      (func (export "aload64_32") (param i32) (result i64) (i64.atomic.load32_u (local.get 0)))
      (func (export "astore32") (param i32 i32) (i32.atomic.store (local.get 0) (local.get 1)))
      (func (export "astore64") (param i32 i64) (i64.atomic.store (local.get 0) (local.get 1)))
      (func (export "astore8") (param i32 i32) (i32.atomic.store8 (local.get 0) (local.get 1)))
      (func (export "astore16") (param i32 i32) (i32.atomic.store16 (local.get 0) (local.get 1)))
      (func (export "astore64_8") (param i32 i64) (i64.atomic.store8 (local.get 0) (local.get 1)))
      (func (export "astore64_16") (param i32 i64) (i64.atomic.store16 (local.get 0) (local.get 1)))
      (func (export "astore64_32") (param i32 i64) (i64.atomic.store32 (local.get 0) (local.get 1)))
      (func (export "add32") (param i32 i32) (result i32) (i32.atomic.rmw.add (local.get 0) (local.get 1)))
      (func (export "add64") (param i32 i64) (result i64) (i64.atomic.rmw.add (local.get 0) (local.get 1)))
      (func (export "add32_8") (param i32 i32) (result i32) (i32.atomic.rmw8.add_u (local.get 0) (local.get 1)))
      (func (export "add32_16") (param i32 i32) (result i32) (i32.atomic.rmw16.add_u (local.get 0) (local.get 1)))
      (func (export "add64_8") (param i32 i64) (result i64) (i64.atomic.rmw8.add_u (local.get 0) (local.get 1)))
      (func (export "add64_16") (param i32 i64) (result i64) (i64.atomic.rmw16.add_u (local.get 0) (local.get 1)))
      (func (export "add64_32") (param i32 i64) (result i64) (i64.atomic.rmw32.add_u (local.get 0) (local.get 1)))
      (func (export "sub32") (param i32 i32) (result i32) (i32.atomic.rmw.sub (local.get 0) (local.get 1)))
      (func (export "sub64_8") (param i32 i64) (result i64) (i64.atomic.rmw8.sub_u (local.get 0) (local.get 1)))
      (func (export "sub64_32") (param i32 i64) (result i64) (i64.atomic.rmw32.sub_u (local.get 0) (local.get 1)))
      (func (export "and64_16") (param i32 i64) (result i64) (i64.atomic.rmw16.and_u (local.get 0) (local.get 1)))
      (func (export "or32_8") (param i32 i32) (result i32) (i32.atomic.rmw8.or_u (local.get 0) (local.get 1)))
      (func (export "xor64") (param i32 i64) (result i64) (i64.atomic.rmw.xor (local.get 0) (local.get 1)))
      (func (export "xchg32_16") (param i32 i32) (result i32) (i32.atomic.rmw16.xchg_u (local.get 0) (local.get 1)))
      (func (export "xchg64") (param i32 i64) (result i64) (i64.atomic.rmw.xchg (local.get 0) (local.get 1)))
      (func (export "cas32") (param i32 i32 i32) (result i32) (i32.atomic.rmw.cmpxchg (local.get 0) (local.get 1) (local.get 2)))
      (func (export "cas64") (param i32 i64 i64) (result i64) (i64.atomic.rmw.cmpxchg (local.get 0) (local.get 1) (local.get 2)))
      (func (export "cas32_8") (param i32 i32 i32) (result i32) (i32.atomic.rmw8.cmpxchg_u (local.get 0) (local.get 1) (local.get 2)))
      (func (export "cas32_16") (param i32 i32 i32) (result i32) (i32.atomic.rmw16.cmpxchg_u (local.get 0) (local.get 1) (local.get 2)))
      (func (export "cas64_8") (param i32 i64 i64) (result i64) (i64.atomic.rmw8.cmpxchg_u (local.get 0) (local.get 1) (local.get 2)))
      (func (export "cas64_16") (param i32 i64 i64) (result i64) (i64.atomic.rmw16.cmpxchg_u (local.get 0) (local.get 1) (local.get 2)))
      (func (export "cas64_32") (param i32 i64 i64) (result i64) (i64.atomic.rmw32.cmpxchg_u (local.get 0) (local.get 1) (local.get 2)))
      (func (export "add32_off") (param i32 i32) (result i32) (i32.atomic.rmw.add offset=2 (local.get 0) (local.get 1)))
      (func (export "notify") (param i32 i32) (result i32) (memory.atomic.notify (local.get 0) (local.get 1)))
      (func (export "wait32") (param i32 i32 i64) (result i32) (memory.atomic.wait32 (local.get 0) (local.get 1) (local.get 2)))
      (func (export "wait64") (param i32 i64 i64) (result i32) (memory.atomic.wait64 (local.get 0) (local.get 1) (local.get 2)))
      (func (export "wait32_unshared") (param i32 i32 i64) (result i32) (memory.atomic.wait32 $u (local.get 0) (local.get 1) (local.get 2)))
      (func (export "notify_unshared") (param i32 i32) (result i32) (memory.atomic.notify $u (local.get 0) (local.get 1)))
      (func (export "add_unshared") (param i32 i32) (result i32) (i32.atomic.rmw.add $u (local.get 0) (local.get 1)))
      (func (export "fence") (atomic.fence))
    )"#);
    let init = |i: &mut Instance, v: u64| assert_eq!(i.call_export("init", &[i64v(v as i64)]), ret(vec![]));
    let get = |i: &mut Instance| call_i64(i, "get", &[]) as u64;
    init(&mut i, 0x8877_6655_4433_2211);
    assert_eq!(call_i32(&mut i, "aload32", &[i32v(4)]), 0x88776655u32 as i32);
    assert_eq!(call_i64(&mut i, "aload64", &[i32v(0)]), 0x8877665544332211u64 as i64);
    assert_eq!(call_i32(&mut i, "aload8", &[i32v(7)]), 0x88);
    assert_eq!(call_i32(&mut i, "aload16", &[i32v(6)]), 0x8877);
    assert_eq!(call_i64(&mut i, "aload64_8", &[i32v(7)]), 0x88);
    assert_eq!(call_i64(&mut i, "aload64_16", &[i32v(6)]), 0x8877);
    assert_eq!(call_i64(&mut i, "aload64_32", &[i32v(4)]), 0x88776655);
    // alignment: misaligned traps before bounds
    assert_eq!(i.call_export("aload32", &[i32v(2)]), trap(Trap::UnalignedAtomic));
    assert_eq!(i.call_export("aload64", &[i32v(4)]), trap(Trap::UnalignedAtomic));
    assert_eq!(i.call_export("aload16", &[i32v(1)]), trap(Trap::UnalignedAtomic));
    assert_eq!(i.call_export("aload32", &[i32v(65537)]), trap(Trap::UnalignedAtomic));
    assert_eq!(i.call_export("aload32", &[i32v(65536)]), trap(Trap::MemOutOfBounds));
    assert_eq!(i.call_export("astore64", &[i32v(12), i64v(0)]), trap(Trap::UnalignedAtomic));
    assert_eq!(i.call_export("add32_off", &[i32v(0), i32v(1)]), trap(Trap::UnalignedAtomic));
    assert_eq!(call_i32(&mut i, "add32_off", &[i32v(2), i32v(0)]), 0x88776655u32 as i32);
    assert_eq!(i.call_export("cas64", &[i32v(4), i64v(0), i64v(0)]), trap(Trap::UnalignedAtomic));
    assert_eq!(i.call_export("cas32_16", &[i32v(3), i32v(0), i32v(0)]), trap(Trap::UnalignedAtomic));
    assert_eq!(i.call_export("add64", &[i32v(65536), i64v(0)]), trap(Trap::MemOutOfBounds));
    // stores
    init(&mut i, 0);
    assert_eq!(i.call_export("astore8", &[i32v(1), i32v(0x1ff)]), ret(vec![]));
    assert_eq!(i.call_export("astore16", &[i32v(2), i32v(0x1abcd)]), ret(vec![]));
    assert_eq!(i.call_export("astore64_32", &[i32v(4), i64v(0x1_1234_5678)]), ret(vec![]));
    assert_eq!(get(&mut i), 0x1234_5678_abcd_ff00);
    assert_eq!(i.call_export("astore64_8", &[i32v(0), i64v(0x1ee)]), ret(vec![]));
    assert_eq!(i.call_export("astore64_16", &[i32v(6), i64v(0x1_0001)]), ret(vec![]));
    assert_eq!(get(&mut i), 0x0001_5678_abcd_ffee);
    assert_eq!(i.call_export("astore32", &[i32v(0), i32v(-1)]), ret(vec![]));
    assert_eq!(i.call_export("astore64", &[i32v(8), i64v(-2)]), ret(vec![]));
    assert_eq!(get(&mut i), 0x0001_5678_ffff_ffff);
    assert_eq!(call_i64(&mut i, "aload64", &[i32v(8)]), -2);
    // rmw add, every width; i64.rmw8 vs i64.rmw16 must differ
    init(&mut i, 0xffff_ffff_ffff_ffff);
    assert_eq!(call_i64(&mut i, "add64_8", &[i32v(0), i64v(0x101)]), 0xff);
    assert_eq!(get(&mut i), 0xffff_ffff_ffff_ff00); // only one byte wrapped
    init(&mut i, 0xffff_ffff_ffff_ffff);
    assert_eq!(call_i64(&mut i, "add64_16", &[i32v(0), i64v(0x101)]), 0xffff);
    assert_eq!(get(&mut i), 0xffff_ffff_ffff_0100); // two bytes wrapped
    init(&mut i, 0xffff_ffff_ffff_ffff);
    assert_eq!(call_i64(&mut i, "add64_32", &[i32v(0), i64v(0x1_0000_0002)]), 0xffff_ffff);
    assert_eq!(get(&mut i), 0xffff_ffff_0000_0001);
    init(&mut i, 0xffff_ffff_ffff_ffff);
    assert_eq!(call_i64(&mut i, "add64", &[i32v(0), i64v(2)]), -1);
    assert_eq!(get(&mut i), 1);
    init(&mut i, 0x0000_0000_ffff_fff0);
    assert_eq!(call_i32(&mut i, "add32", &[i32v(0), i32v(0x20)]), 0xfffffff0u32 as i32);
    assert_eq!(get(&mut i), 0x10);
    init(&mut i, 0x1234_f0f0);
    assert_eq!(call_i32(&mut i, "add32_8", &[i32v(0), i32v(0x111)]), 0xf0);
    assert_eq!(get(&mut i), 0x1234_f001);
    assert_eq!(call_i32(&mut i, "add32_16", &[i32v(0), i32v(0x1_1000)]), 0xf001);
    assert_eq!(get(&mut i), 0x1234_0001);
    // sub
    init(&mut i, 0);
    assert_eq!(call_i32(&mut i, "sub32", &[i32v(0), i32v(1)]), 0);
    assert_eq!(get(&mut i), 0xffff_ffff);
    init(&mut i, 0);
    assert_eq!(call_i64(&mut i, "sub64_8", &[i32v(0), i64v(1)]), 0);
    assert_eq!(get(&mut i), 0xff);
    assert_eq!(call_i64(&mut i, "sub64_32", &[i32v(0), i64v(0x100)]), 0xff);
    assert_eq!(get(&mut i), 0xffff_ffff);
    // and / or / xor / xchg
    init(&mut i, 0xffff_ffff_ffff_ffff);
    assert_eq!(call_i64(&mut i, "and64_16", &[i32v(2), i64v(0xffff_0f0f)]), 0xffff);
    assert_eq!(get(&mut i), 0xffff_ffff_0f0f_ffff);
    init(&mut i, 0);
    assert_eq!(call_i32(&mut i, "or32_8", &[i32v(3), i32v(0x1a5)]), 0);
    assert_eq!(get(&mut i), 0xa500_0000);
    assert_eq!(call_i64(&mut i, "xor64", &[i32v(0), i64v(-1)]), 0xa500_0000);
    assert_eq!(get(&mut i), !0xa500_0000u64);
    init(&mut i, 0x1111_2222_3333_4444);
    assert_eq!(call_i32(&mut i, "xchg32_16", &[i32v(2), i32v(0xabcd_ef01u32 as i32)]), 0x3333);
    assert_eq!(get(&mut i), 0x1111_2222_ef01_4444);
    assert_eq!(call_i64(&mut i, "xchg64", &[i32v(0), i64v(7)]), 0x1111_2222_ef01_4444);
    assert_eq!(get(&mut i), 7);
    // cmpxchg: narrow variants wrap the expected value (spec test atomic.wast)
    init(&mut i, 0x1111_1111_1111_1111);
    assert_eq!(call_i32(&mut i, "cas32_8", &[i32v(0), i32v(0x1111_1111), i32v(0xcdcd_cdcdu32 as i32)]), 0x11);
    assert_eq!(get(&mut i), 0x1111_1111_1111_11cd);
    init(&mut i, 0x1111_1111_1111_1111);
    assert_eq!(call_i32(&mut i, "cas32_16", &[i32v(0), i32v(0x1111_1111), i32v(0xcafe_cafeu32 as i32)]), 0x1111);
    assert_eq!(get(&mut i), 0x1111_1111_1111_cafe);
    init(&mut i, 0x1111_1111_1111_1111);
    assert_eq!(call_i32(&mut i, "cas32_8", &[i32v(0), i32v(0), i32v(0x42)]), 0x11); // mismatch: no store
    assert_eq!(get(&mut i), 0x1111_1111_1111_1111);
    assert_eq!(call_i32(&mut i, "cas32", &[i32v(4), i32v(0x1111_1111), i32v(5)]), 0x1111_1111);
    assert_eq!(get(&mut i), 0x0000_0005_1111_1111);
    assert_eq!(call_i32(&mut i, "cas32", &[i32v(4), i32v(0x1111_1111), i32v(6)]), 5);
    assert_eq!(get(&mut i), 0x0000_0005_1111_1111);
    assert_eq!(call_i64(&mut i, "cas64", &[i32v(0), i64v(0x0000_0005_1111_1111), i64v(-1)]), 0x0000_0005_1111_1111);
    assert_eq!(get(&mut i), u64::MAX);
    init(&mut i, 0x1111_1111_1111_1111);
    assert_eq!(call_i64(&mut i, "cas64_8", &[i32v(1), i64v(0x0101_0101_0101_0111), i64v(0x1ab)]), 0x11);
    assert_eq!(get(&mut i), 0x1111_1111_1111_ab11);
    assert_eq!(call_i64(&mut i, "cas64_16", &[i32v(2), i64v(0x1_1111), i64v(0x2_beef)]), 0x1111);
    assert_eq!(get(&mut i), 0x1111_1111_beef_ab11);
    assert_eq!(call_i64(&mut i, "cas64_32", &[i32v(4), i64v(0x9_1111_1111), i64v(0x7_dead_beef)]), 0x1111_1111);
    assert_eq!(get(&mut i), 0xdead_beef_beef_ab11);
    // wait / notify
    init(&mut i, 0x0000_0002_0000_0001);
    assert_eq!(call_i32(&mut i, "notify", &[i32v(0), i32v(10)]), 0);
    assert_eq!(i.call_export("notify", &[i32v(2), i32v(10)]), trap(Trap::UnalignedAtomic));
    assert_eq!(i.call_export("notify", &[i32v(65536), i32v(10)]), trap(Trap::MemOutOfBounds));
    assert_eq!(call_i32(&mut i, "notify_unshared", &[i32v(0), i32v(10)]), 0);
    assert_eq!(call_i32(&mut i, "wait32", &[i32v(0), i32v(5), i64v(-1)]), 1); // not equal
    assert_eq!(call_i32(&mut i, "wait32", &[i32v(0), i32v(1), i64v(0)]), 2); // timed out
    assert_eq!(call_i32(&mut i, "wait32", &[i32v(4), i32v(2), i64v(1000)]), 2);
    assert_eq!(i.call_export("wait32", &[i32v(0), i32v(1), i64v(-1)]), trap(Trap::WouldBlock));
    assert_eq!(call_i32(&mut i, "wait64", &[i32v(0), i64v(1), i64v(-1)]), 1);
    assert_eq!(call_i32(&mut i, "wait64", &[i32v(0), i64v(0x0000_0002_0000_0001), i64v(5)]), 2);
    assert_eq!(i.call_export("wait64", &[i32v(0), i64v(0x0000_0002_0000_0001), i64v(-5)]), trap(Trap::WouldBlock));
    assert_eq!(i.call_export("wait64", &[i32v(4), i64v(0), i64v(0)]), trap(Trap::UnalignedAtomic));
    assert_eq!(i.call_export("wait32", &[i32v(65536), i32v(0), i64v(0)]), trap(Trap::MemOutOfBounds));
    assert_eq!(
        i.call_export("wait32_unshared", &[i32v(0), i32v(0), i64v(0)]),
        trap(Trap::HostTrap("wait on unshared".to_string()))
    );
    // atomics work on unshared memories too
    assert_eq!(call_i32(&mut i, "add_unshared", &[i32v(0), i32v(3)]), 0);
    assert_eq!(call_i32(&mut i, "add_unshared", &[i32v(0), i32v(3)]), 3);
    assert_eq!(i.call_export("fence", &[]), ret(vec![]));
}

#[test]
fn start_and_segment_order() {
    // start function runs after segments, sees their content
    let i = mk(r#"(module
      (memory 1) (global $g (export "g") (mut i32) (i32.const 0))
      (data (i32.const 0) "\2a")
      (func $s (global.set $g (i32.load8_u (i32.const 0))))
      (start $s))"#);
    assert_eq!(i.global_value(0), i32v(42));

    // element segments are applied before data segments; first OOB segment is reported
    let e = try_mk(r#"(module (memory 1) (table 1 funcref) (func $f)
      (data (i32.const 65536) "x")
      (elem (i32.const 1) $f))"#)
    .err()
    .unwrap();
    assert_eq!(e, InstantiateError::Trap { phase: "elem:0".into(), trap: Trap::TableOutOfBounds });

    let e = try_mk(r#"(module (memory 1) (table 1 funcref) (func $f)
      (data (i32.const 0) "ok")
      (data $passive "zz")
      (data (i32.const 65535) "xy")
      (data (i32.const 65537) "")
      (elem (i32.const 0) $f))"#)
    .err()
    .unwrap();
    assert_eq!(e, InstantiateError::Trap { phase: "data:2".into(), trap: Trap::MemOutOfBounds });

    // zero-length segments: in-bounds offsets fine, offset > len traps
    assert!(try_mk(r#"(module (memory 1) (data (i32.const 65536) ""))"#).is_ok());
    let e = try_mk(r#"(module (memory 1) (data (i32.const 65537) ""))"#).err().unwrap();
    assert_eq!(e, InstantiateError::Trap { phase: "data:0".into(), trap: Trap::MemOutOfBounds });
    assert!(try_mk(r#"(module (table 1 funcref) (elem (i32.const 1) func))"#).is_ok());
    let e = try_mk(r#"(module (table 1 funcref) (elem (i32.const 2) func))"#).err().unwrap();
    assert_eq!(e, InstantiateError::Trap { phase: "elem:0".into(), trap: Trap::TableOutOfBounds });

    // start trapping / running out of fuel / unsupported
    let e = try_mk(r#"(module (func $s (unreachable)) (start $s))"#).err().unwrap();
    assert_eq!(e, InstantiateError::Trap { phase: "start".into(), trap: Trap::Unreachable });
    let e = try_mk(r#"(module (func $s (loop (br 0))) (start $s))"#).err().unwrap();
    assert_eq!(e, InstantiateError::OutOfFuel);
    let e = try_mk(r#"(module (func $s (drop (i8x16.relaxed_swizzle (v128.const i64x2 0 0) (v128.const i64x2 0 0)))) (start $s))"#)
        .err()
        .unwrap();
    assert_eq!(e, InstantiateError::Unsupported("I8x16RelaxedSwizzle".into()));
    // malformed binary
    let e = Instance::instantiate(b"\0asm\x01\0\0\0\x01\x05", Box::new(DefaultHost), Limits::default()).err().unwrap();
    assert!(matches!(e, InstantiateError::Invalid(_)));

    // offsets from imported globals (value overridden through the host hook)
    struct H;
    impl Host for H {
        fn call(&mut self, _: &str, _: &str, _: u64, _: &[Val], _: &[wasmparser::ValType]) -> Result<Vec<Val>, Trap> {
            Err(Trap::HostTrap("no".into()))
        }
        fn global_import(&mut self, _m: &str, f: &str, _t: wasmparser::ValType, _mu: bool) -> Option<Val> {
            (f == "base").then_some(Val::I32(1000))
        }
    }
    let w = wasm(r#"(module (import "env" "base" (global $b i32)) (memory (export "m") 1)
        (global $g2 i32 (global.get $b))
        (data (global.get $b) "hello"))"#);
    let i = Instance::instantiate(&w, Box::new(H), Limits::default()).unwrap();
    assert_eq!(&i.memory_bytes(0)[1000..1005], b"hello");
    assert_eq!(i.global_value(1), i32v(1000));
}

#[test]
fn imports_and_host_trace() {
    let w = r#"(module
      (import "env" "f" (func $f (param i32 i64) (result i32)))
      (import "env" "g" (func $g (param f64) (result f64 i64)))
      (import "env" "f" (func $f2 (param i32 i64) (result i32)))
      (import "env" "v" (func $v))
      (import "env" "gi" (global $gi i32))
      (import "env" "gl" (global $gl (mut i64)))
      (import "env" "gf" (global $gf f32))
      (import "env" "gd" (global $gd f64))
      (import "env" "gv" (global $gv v128))
      (import "env" "mem" (memory 1 4))
      (import "env" "tab" (table 3 funcref))
      (global $copy i32 (global.get $gi))
      (func (export "run") (param i32) (result i32)
        (call $v)
        (drop (call $g (f64.const 1.5))) (drop)
        (i32.add (call $f (local.get 0) (i64.const 7)) (call $f2 (local.get 0) (i64.const 7))))
      (func (export "callf") (param i32 i64) (result i32) (call $f (local.get 0) (local.get 1)))
      (func (export "tailf") (param i32 i64) (result i32) (return_call $f (local.get 0) (local.get 1)))
      (func (export "ind") (result i32)
        (table.set (i32.const 1) (ref.func $f))
        (call_indirect (param i32 i64) (result i32) (i32.const 3) (i64.const 4) (i32.const 1)))
      (export "f_direct" (func $f))
      (elem declare func $f)
    )"#;
    let mut a = mk(w);
    let mut b = mk(w);
    assert_eq!(a.func_class(0), FuncClass::Host { module: "env".into(), field: "f".into() });
    assert_eq!(a.func_class(3), FuncClass::Host { module: "env".into(), field: "v".into() });
    assert!(matches!(a.func_class(4), FuncClass::Local { ref params, ref results } if params.len() == 1 && results.len() == 1));
    assert_eq!(a.num_funcs(), 8);
    assert_eq!(a.num_globals(), 6);
    assert_eq!(a.num_memories(), 1);
    assert_eq!(a.num_tables(), 1);
    assert_eq!(a.memory_len(0), 65536);
    assert_eq!(a.table_len(0), 3);
    assert_eq!(a.table_get(0, 2), Val::FuncRef(None));
    // imported globals: deterministic, finite, and initialiser can read them
    for k in 0..5 {
        assert_eq!(a.global_value(k), b.global_value(k));
    }
    assert_eq!(a.global_value(5), a.global_value(0));
    match (a.global_value(2), a.global_value(3)) {
        (Val::F32(x), Val::F64(y)) => {
            assert!(f32::from_bits(x).is_finite());
            assert!(f64::from_bits(y).is_finite());
        }
        o => panic!("{o:?}"),
    }
    assert!(matches!(a.global_value(1), Val::I64(_)));
    assert!(matches!(a.global_value(4), Val::V128(_)));
    // imported memory: first 256 bytes pseudo-random, rest zero
    assert!(a.memory_bytes(0)[..256].iter().any(|&x| x != 0));
    assert!(a.memory_bytes(0)[256..].iter().all(|&x| x == 0));
    assert_eq!(a.memory_bytes(0), b.memory_bytes(0));

    let ra = a.call_export("run", &[i32v(5)]);
    let rb = b.call_export("run", &[i32v(5)]);
    assert_eq!(ra, rb);
    assert!(matches!(ra, Outcome::Returned(ref v) if v.len() == 1));
    let ta = a.take_host_trace();
    assert_eq!(ta, b.take_host_trace());
    assert_eq!(ta.len(), 4);
    assert_eq!(ta[0], HostCall { module: "env".into(), field: "v".into(), args: vec![], results: vec![] });
    assert_eq!(ta[1].field, "g");
    assert_eq!(ta[1].args, vec![f64v(1.5)]);
    assert_eq!(ta[1].results.len(), 2);
    assert!(matches!(ta[1].results[0], Val::F64(x) if f64::from_bits(x).is_finite()));
    assert_eq!(ta[2].args, vec![i32v(5), i64v(7)]);
    assert_eq!(ta[3].args, vec![i32v(5), i64v(7)]);
    // same (module, field, args) but different call counts -> (almost surely) different results
    assert_ne!(ta[2].results, ta[3].results);
    assert!(a.take_host_trace().is_empty());
    // results are what DefaultHost computes for call_count 0 and 1
    let mut h = DefaultHost;
    let r0 = h.call("env", "f", 0, &[i32v(5), i64v(7)], &[wasmparser::ValType::I32]).unwrap();
    let r1 = h.call("env", "f", 1, &[i32v(5), i64v(7)], &[wasmparser::ValType::I32]).unwrap();
    assert_eq!(ta[2].results, r0);
    assert_eq!(ta[3].results, r1);
    match (&r0[0], &r1[0], &ra) {
        (Val::I32(x), Val::I32(y), Outcome::Returned(v)) => assert_eq!(v[0], i32v(x.wrapping_add(*y))),
        _ => unreachable!(),
    }
    // direct / tail / indirect / exported-import calls all reach the host and count up
    let r2 = h.call("env", "f", 2, &[i32v(1), i64v(2)], &[wasmparser::ValType::I32]).unwrap();
    assert_eq!(a.call_export("callf", &[i32v(1), i64v(2)]), ret(r2));
    let r3 = h.call("env", "f", 3, &[i32v(1), i64v(2)], &[wasmparser::ValType::I32]).unwrap();
    assert_eq!(a.call_export("tailf", &[i32v(1), i64v(2)]), ret(r3));
    let r4 = h.call("env", "f", 4, &[i32v(3), i64v(4)], &[wasmparser::ValType::I32]).unwrap();
    assert_eq!(a.call_export("ind", &[]), ret(r4));
    let r5 = h.call("env", "f", 5, &[i32v(9), i64v(9)], &[wasmparser::ValType::I32]).unwrap();
    assert_eq!(a.call_export("f_direct", &[i32v(9), i64v(9)]), ret(r5.clone()));
    let r6 = h.call("env", "f", 6, &[i32v(9), i64v(9)], &[wasmparser::ValType::I32]).unwrap();
    assert_eq!(a.call_func(2, &[i32v(9), i64v(9)]), ret(r6));
    let t = a.take_host_trace();
    assert_eq!(t.len(), 5);
    assert_eq!(t[3].results, r5);
    assert_eq!(a.stats().host_calls, 9);
}

#[test]
fn custom_host_and_host_trap() {
    struct H {
        log: Vec<(String, u64)>,
    }
    impl Host for H {
        fn call(&mut self, m: &str, f: &str, n: u64, args: &[Val], res: &[wasmparser::ValType]) -> Result<Vec<Val>, Trap> {
            self.log.push((format!("{m}.{f}"), n));
            match f {
                "boom" => Err(Trap::HostTrap("boom".into())),
                "bad" => Ok(vec![Val::I64(1)]),
                _ => {
                    assert_eq!(res.len(), 1);
                    match args[0] {
                        Val::I32(x) => Ok(vec![Val::I32(x * 2)]),
                        _ => unreachable!(),
                    }
                }
            }
        }
    }
    let w = wasm(r#"(module
      (import "a" "dbl" (func $dbl (param i32) (result i32)))
      (import "a" "boom" (func $boom))
      (import "a" "bad" (func $bad (result i32)))
      (global $g (export "g") (mut i32) (i32.const 0))
      (func (export "go") (param i32) (result i32) (call $dbl (call $dbl (local.get 0))))
      (func (export "boom") (global.set $g (i32.const 1)) (call $boom) (global.set $g (i32.const 2)))
      (func (export "bad") (result i32) (call $bad))
    )"#);
    let mut i = Instance::instantiate(&w, Box::new(H { log: vec![] }), Limits::default()).unwrap();
    assert_eq!(call_i32(&mut i, "go", &[i32v(3)]), 12);
    assert_eq!(i.call_export("boom", &[]), trap(Trap::HostTrap("boom".into())));
    assert_eq!(i.global_value(0), i32v(1));
    assert!(matches!(i.call_export("bad", &[]), Outcome::Trap(Trap::HostTrap(_))));
    let t = i.take_host_trace();
    assert_eq!(t.len(), 4);
    assert_eq!(t[0], HostCall { module: "a".into(), field: "dbl".into(), args: vec![i32v(3)], results: vec![i32v(6)] });
    assert_eq!(t[1].results, vec![i32v(12)]);
    assert_eq!(t[2], HostCall { module: "a".into(), field: "boom".into(), args: vec![], results: vec![] });
}

#[test]
fn unsupported_is_reported_at_execution_time() {
    let mut i = mk(r#"(module
      (func (export "ok") (result i32) (i32.const 1))
      (func (export "relaxed") (param i32) (result i32)
        (if (local.get 0) (then
          (drop (f32x4.relaxed_madd (v128.const i64x2 0 0) (v128.const i64x2 0 0) (v128.const i64x2 0 0)))))
        (i32.const 2))
    )"#);
    assert_eq!(call_i32(&mut i, "ok", &[]), 1);
    assert_eq!(call_i32(&mut i, "relaxed", &[i32v(0)]), 2);
    assert_eq!(i.call_export("relaxed", &[i32v(1)]), Outcome::Unsupported("F32x4RelaxedMadd".into()));
}

//! Differential self-check against node/V8 (skipped silently when node is unavailable or V8 rejects
//! the module). Three parts:
//!  A. every scalar and SIMD numeric operator over a grid of interesting inputs,
//!  B. loads/stores/atomics over a patterned memory,
//!  C. a program using host imports, with DefaultHost ported to JS (BigInt).
mod common;
use common::*;
use std::fmt::Write as _;
use std::process::Command;
use wv_interp::*;

#[derive(Clone, Copy, PartialEq, Debug)]
enum T {
    I32,
    I64,
    F32,
    F64,
    V128,
}

fn ty(s: &str) -> T {
    match s {
        "i32" => T::I32,
        "i64" => T::I64,
        "f32" => T::F32,
        "f64" => T::F64,
        "v128" => T::V128,
        _ => panic!("{s}"),
    }
}

struct OpSpec {
    name: String,
    params: Vec<T>,
    result: T,
    /// extra immediate text placed after the mnemonic (lane index etc.)
    imm: String,
    export: String,
}

fn ops_table() -> Vec<OpSpec> {
    let mut v = Vec::new();
    let mut add = |names: &str, sig: &str| {
        let (p, r) = sig.split_once("->").unwrap();
        let params: Vec<T> = p.split(',').filter(|s| !s.is_empty()).map(ty).collect();
        for n in names.split_whitespace() {
            let (name, imm) = match n.split_once('@') {
                Some((a, b)) => (a.to_string(), b.replace('_', " ")),
                None => (n.to_string(), String::new()),
            };
            let export = n.to_string();
            v.push(OpSpec { name, params: params.clone(), result: ty(r), imm, export });
        }
    };
    let ibin = "add sub mul div_s div_u rem_s rem_u and or xor shl shr_s shr_u rotl rotr";
    let icmp = "eq ne lt_s lt_u gt_s gt_u le_s le_u ge_s ge_u";
    let pre = |p: &str, l: &str| l.split_whitespace().map(|x| format!("{p}.{x}")).collect::<Vec<_>>().join(" ");
    add(&pre("i32", "clz ctz popcnt eqz extend8_s extend16_s"), "i32->i32");
    add(&pre("i32", ibin), "i32,i32->i32");
    add(&pre("i32", icmp), "i32,i32->i32");
    add(&pre("i64", "clz ctz popcnt extend8_s extend16_s extend32_s"), "i64->i64");
    add("i64.eqz", "i64->i32");
    add(&pre("i64", ibin), "i64,i64->i64");
    add(&pre("i64", icmp), "i64,i64->i32");
    let fun = "abs neg ceil floor trunc nearest sqrt";
    let fbin = "add sub mul div min max copysign";
    let fcmp = "eq ne lt gt le ge";
    add(&pre("f32", fun), "f32->f32");
    add(&pre("f32", fbin), "f32,f32->f32");
    add(&pre("f32", fcmp), "f32,f32->i32");
    add(&pre("f64", fun), "f64->f64");
    add(&pre("f64", fbin), "f64,f64->f64");
    add(&pre("f64", fcmp), "f64,f64->i32");
    add("i32.wrap_i64", "i64->i32");
    add("i32.trunc_f32_s i32.trunc_f32_u i32.trunc_sat_f32_s i32.trunc_sat_f32_u i32.reinterpret_f32", "f32->i32");
    add("i32.trunc_f64_s i32.trunc_f64_u i32.trunc_sat_f64_s i32.trunc_sat_f64_u", "f64->i32");
    add("i64.extend_i32_s i64.extend_i32_u", "i32->i64");
    add("i64.trunc_f32_s i64.trunc_f32_u i64.trunc_sat_f32_s i64.trunc_sat_f32_u", "f32->i64");
    add("i64.trunc_f64_s i64.trunc_f64_u i64.trunc_sat_f64_s i64.trunc_sat_f64_u i64.reinterpret_f64", "f64->i64");
    add("f32.convert_i32_s f32.convert_i32_u f32.reinterpret_i32", "i32->f32");
    add("f32.convert_i64_s f32.convert_i64_u", "i64->f32");
    add("f32.demote_f64", "f64->f32");
    add("f64.convert_i32_s f64.convert_i32_u", "i32->f64");
    add("f64.convert_i64_s f64.convert_i64_u f64.reinterpret_i64", "i64->f64");
    add("f64.promote_f32", "f32->f64");
    // ---- SIMD ----
    add("i8x16.splat i16x8.splat i32x4.splat", "i32->v128");
    add("i64x2.splat", "i64->v128");
    add("f32x4.splat", "f32->v128");
    add("f64x2.splat", "f64->v128");
    add(
        "i8x16.extract_lane_s@0 i8x16.extract_lane_s@15 i8x16.extract_lane_u@7 i16x8.extract_lane_s@7 \
         i16x8.extract_lane_u@3 i32x4.extract_lane@0 i32x4.extract_lane@3",
        "v128->i32",
    );
    add("i64x2.extract_lane@0 i64x2.extract_lane@1", "v128->i64");
    add("f32x4.extract_lane@2", "v128->f32");
    add("f64x2.extract_lane@1", "v128->f64");
    add("i8x16.replace_lane@0 i8x16.replace_lane@15 i16x8.replace_lane@5 i32x4.replace_lane@3", "v128,i32->v128");
    add("i64x2.replace_lane@1", "v128,i64->v128");
    add("f32x4.replace_lane@1", "v128,f32->v128");
    add("f64x2.replace_lane@0", "v128,f64->v128");
    add(
        "i8x16.shuffle@0_17_2_19_4_21_6_23_8_25_10_27_12_29_14_31 \
         i8x16.shuffle@31_30_29_28_27_26_25_24_7_6_5_4_3_2_1_0 i8x16.swizzle",
        "v128,v128->v128",
    );
    add("v128.not", "v128->v128");
    add("v128.and v128.andnot v128.or v128.xor", "v128,v128->v128");
    add("v128.bitselect", "v128,v128,v128->v128");
    add(
        "v128.any_true i8x16.all_true i16x8.all_true i32x4.all_true i64x2.all_true \
         i8x16.bitmask i16x8.bitmask i32x4.bitmask i64x2.bitmask",
        "v128->i32",
    );
    add(
        "i8x16.abs i8x16.neg i8x16.popcnt i16x8.abs i16x8.neg i32x4.abs i32x4.neg i64x2.abs i64x2.neg \
         i16x8.extadd_pairwise_i8x16_s i16x8.extadd_pairwise_i8x16_u i32x4.extadd_pairwise_i16x8_s \
         i32x4.extadd_pairwise_i16x8_u i16x8.extend_low_i8x16_s i16x8.extend_high_i8x16_s \
         i16x8.extend_low_i8x16_u i16x8.extend_high_i8x16_u i32x4.extend_low_i16x8_s i32x4.extend_high_i16x8_s \
         i32x4.extend_low_i16x8_u i32x4.extend_high_i16x8_u i64x2.extend_low_i32x4_s i64x2.extend_high_i32x4_s \
         i64x2.extend_low_i32x4_u i64x2.extend_high_i32x4_u \
         f32x4.ceil f32x4.floor f32x4.trunc f32x4.nearest f32x4.abs f32x4.neg f32x4.sqrt \
         f64x2.ceil f64x2.floor f64x2.trunc f64x2.nearest f64x2.abs f64x2.neg f64x2.sqrt \
         i32x4.trunc_sat_f32x4_s i32x4.trunc_sat_f32x4_u f32x4.convert_i32x4_s f32x4.convert_i32x4_u \
         i32x4.trunc_sat_f64x2_s_zero i32x4.trunc_sat_f64x2_u_zero f64x2.convert_low_i32x4_s \
         f64x2.convert_low_i32x4_u f32x4.demote_f64x2_zero f64x2.promote_low_f32x4",
        "v128->v128",
    );
    add("i8x16.shl i8x16.shr_s i8x16.shr_u i16x8.shl i16x8.shr_s i16x8.shr_u i32x4.shl i32x4.shr_s i32x4.shr_u i64x2.shl i64x2.shr_s i64x2.shr_u", "v128,i32->v128");
    let vcmp = "eq ne lt_s lt_u gt_s gt_u le_s le_u ge_s ge_u";
    add(&pre("i8x16", vcmp), "v128,v128->v128");
    add(&pre("i16x8", vcmp), "v128,v128->v128");
    add(&pre("i32x4", vcmp), "v128,v128->v128");
    add(&pre("i64x2", "eq ne lt_s gt_s le_s ge_s"), "v128,v128->v128");
    add(&pre("f32x4", fcmp), "v128,v128->v128");
    add(&pre("f64x2", fcmp), "v128,v128->v128");
    add(&pre("i8x16", "narrow_i16x8_s narrow_i16x8_u add add_sat_s add_sat_u sub sub_sat_s sub_sat_u min_s min_u max_s max_u avgr_u"), "v128,v128->v128");
    add(&pre("i16x8", "q15mulr_sat_s narrow_i32x4_s narrow_i32x4_u add add_sat_s add_sat_u sub sub_sat_s sub_sat_u mul min_s min_u max_s max_u avgr_u extmul_low_i8x16_s extmul_high_i8x16_s extmul_low_i8x16_u extmul_high_i8x16_u"), "v128,v128->v128");
    add(&pre("i32x4", "add sub mul min_s min_u max_s max_u dot_i16x8_s extmul_low_i16x8_s extmul_high_i16x8_s extmul_low_i16x8_u extmul_high_i16x8_u"), "v128,v128->v128");
    add(&pre("i64x2", "add sub mul extmul_low_i32x4_s extmul_high_i32x4_s extmul_low_i32x4_u extmul_high_i32x4_u"), "v128,v128->v128");
    add(&pre("f32x4", "add sub mul div min max pmin pmax"), "v128,v128->v128");
    add(&pre("f64x2", "add sub mul div min max pmin pmax"), "v128,v128->v128");
    v
}

fn i32_set() -> Vec<u64> {
    [0u32, 1, 2, 0xffff_ffff, 0x7fff_ffff, 0x8000_0000, 31, 32, 33, 0x1234_5678, 0xdead_beef, 0xff, 0x80, 0x8000, 0xffff, 7, 0xffff_fff9]
        .iter()
        .map(|&x| x as u64)
        .collect()
}
fn i64_set() -> Vec<u64> {
    vec![
        0, 1, 2, u64::MAX, i64::MAX as u64, 1 << 63, 63, 64, 65, 0x1234_5678_9abc_def0, 0xdead_beef_cafe_f00d, 0xff, 0x80,
        0x8000, 0xffff_ffff, 0x8000_0000, 0x1_0000_0000, 7, (-7i64) as u64, 9007199254740993, (1 << 63) + 1025,
    ]
}
fn f32_set() -> Vec<u64> {
    let mut v: Vec<u32> = vec![
        0x7fc0_0000, 0xffc0_0000, 0x7fa1_2345, 0xff80_0001, 0x7f80_0000, 0xff80_0000, 0, 0x8000_0000, 1, 0x8000_0001, 0x007f_ffff,
        0x0080_0000, 0x7f7f_ffff, 0xff7f_ffff,
    ];
    for x in [
        1.0f32, -1.0, 0.5, -0.5, 1.5, -1.5, 2.5, 3.5, -2.5, 0.49999997, -0.9, 4.5, 1e10, -1e10, 2147483648.0, 2147483520.0,
        -2147483648.0, -2147483904.0, 4294967296.0, 4294967040.0, 9223372036854775808.0, -9223372036854775808.0,
        -9223373136366403584.0, 9223371487098961920.0, 18446744073709551616.0, 18446742974197923840.0, 8388608.5, 8388607.5,
        16777216.0, 3.14159, 1e-40, 65504.0, 0.1, 7.0, -7.0,
    ] {
        v.push(x.to_bits());
    }
    v.iter().map(|&x| x as u64).collect()
}
fn f64_set() -> Vec<u64> {
    let mut v: Vec<u64> = vec![
        0x7ff8_0000_0000_0000,
        0xfff8_0000_0000_0000,
        0x7ff4_0000_0000_1234,
        0xfff0_0000_0000_0001,
        0x7ff0_0000_0000_0000,
        0xfff0_0000_0000_0000,
        0,
        1 << 63,
        1,
        (1 << 63) | 1,
        0x000f_ffff_ffff_ffff,
        0x0010_0000_0000_0000,
        0x7fef_ffff_ffff_ffff,
        0xffef_ffff_ffff_ffff,
    ];
    for x in [
        1.0f64, -1.0, 0.5, -0.5, 1.5, -1.5, 2.5, 3.5, -2.5, 0.49999999999999994, -0.9, 4.5, 1e10, -1e10, 2147483648.0, 2147483647.9,
        -2147483648.0, -2147483648.9, -2147483649.0, 4294967296.0, 4294967295.9, 9223372036854775808.0, -9223372036854775808.0,
        -9223372036854777856.0, 9223372036854774784.0, 18446744073709551616.0, 18446744073709549568.0, 4503599627370496.5,
        4503599627370495.5, 1e300, -1e300, 1e-300, 3.141592653589793, 1.0000000596046448, 1.0000000596046450, 3.4028235677973366e38,
        3.4028234663852886e38, 1e-46, 7.0, -7.0, 0.1,
    ] {
        v.push(x.to_bits());
    }
    v
}
fn v128_set() -> Vec<(u64, u64)> {
    let f = |a: f32, b: f32| (a.to_bits() as u64) | ((b.to_bits() as u64) << 32);
    vec![
        (0, 0),
        (u64::MAX, u64::MAX),
        (0x0706_0504_0302_0100, 0x0f0e_0d0c_0b0a_0908),
        (0x8080_8080_7f7f_7f7f, 0x0001_ff00_80ff_7f01),
        (0x8000_7fff_8000_7fff, 0xffff_0001_4000_c000),
        (0x8000_0000_7fff_ffff, 0xffff_ffff_0000_0001),
        (1 << 63, i64::MAX as u64),
        (0x1234_5678_9abc_def0, 0xdead_beef_cafe_f00d),
        (0x1011_1213_0f1f_2fff, 0x0102_0304_8090_a0b0),
        (f(1.5, -2.5), f(f32::NAN, f32::INFINITY)),
        (f(-0.0, 0.0), f(3e9, -3e9)),
        (f(0.5, -0.5), f(1e-40, 16777217.0)),
        (0x7fa1_2345_ffc0_0001, f(-1e20, 4294967296.0)),
        (1.5f64.to_bits(), (-2.5f64).to_bits()),
        (f64::NAN.to_bits(), f64::NEG_INFINITY.to_bits()),
        ((-0.0f64).to_bits(), 0.5f64.to_bits()),
        (0x7ff4_0000_0000_1234, 1e300f64.to_bits()),
        (3e9f64.to_bits(), (-3e9f64).to_bits()),
        (1e-320f64.to_bits(), 4294967295.5f64.to_bits()),
    ]
}

fn get_operand(t: T, k: usize) -> String {
    match t {
        T::I32 => format!("(i32.wrap_i64 (local.get {k}))"),
        T::I64 => format!("(local.get {k})"),
        T::F32 => format!("(f32.reinterpret_i32 (i32.wrap_i64 (local.get {k})))"),
        T::F64 => format!("(f64.reinterpret_i64 (local.get {k}))"),
        T::V128 => format!("(i64x2.replace_lane 1 (i64x2.splat (local.get {k})) (local.get {}))", k + 1),
    }
}

fn nslots(t: T) -> usize {
    if t == T::V128 {
        2
    } else {
        1
    }
}

fn numeric_module(ops: &[OpSpec]) -> String {
    let mut w = String::from("(module\n");
    for op in ops {
        let n: usize = op.params.iter().map(|t| nslots(*t)).sum();
        let params = "i64 ".repeat(n);
        let mut operands = String::new();
        let mut k = 0;
        for p in &op.params {
            operands.push_str(&get_operand(*p, k));
            operands.push(' ');
            k += nslots(*p);
        }
        let call = format!("({} {} {})", op.name, op.imm, operands);
        let (res, body) = match op.result {
            T::I32 => ("i64", format!("(i64.extend_i32_u {call})")),
            T::I64 => ("i64", call),
            T::F32 => ("i64", format!("(i64.extend_i32_u (i32.reinterpret_f32 {call}))")),
            T::F64 => ("i64", format!("(i64.reinterpret_f64 {call})")),
            T::V128 => (
                "i64 i64",
                format!("(local.set {n} {call}) (i64x2.extract_lane 0 (local.get {n})) (i64x2.extract_lane 1 (local.get {n}))"),
            ),
        };
        writeln!(w, "  (func (export \"{}\") (param {params}) (result {res}) (local v128) {body})", op.export).unwrap();
    }
    w.push(')');
    w
}

/// All argument tuples for an op, first parameter outermost, flattened to i64 slots.
fn arg_grid(params: &[T]) -> Vec<Vec<u64>> {
    let mut grid: Vec<Vec<u64>> = vec![vec![]];
    for p in params {
        let set: Vec<Vec<u64>> = match p {
            T::I32 => i32_set().into_iter().map(|x| vec![x]).collect(),
            T::I64 => i64_set().into_iter().map(|x| vec![x]).collect(),
            T::F32 => f32_set().into_iter().map(|x| vec![x]).collect(),
            T::F64 => f64_set().into_iter().map(|x| vec![x]).collect(),
            T::V128 => v128_set().into_iter().map(|(a, b)| vec![a, b]).collect(),
        };
        // keep three-operand grids small
        let set: Vec<Vec<u64>> = if params.len() >= 3 { set.into_iter().step_by(2).collect() } else { set };
        let mut next = Vec::with_capacity(grid.len() * set.len());
        for g in &grid {
            for s in &set {
                let mut x = g.clone();
                x.extend(s);
                next.push(x);
            }
        }
        grid = next;
    }
    grid
}

const JS_COMMON: &str = r#"
const fs = require('fs');
const bytes = fs.readFileSync(process.argv[2]);
const MASK = (1n << 64n) - 1n;
function hex(x) { return BigInt.asUintN(64, BigInt(x)).toString(16); }
function trapKind(e) {
  const m = String(e && e.message);
  if (m.includes('divide by zero') || m.includes('remainder by zero')) return 'T:div0';
  if (m.includes('unrepresentable')) return 'T:conv';
  if (m.includes('unreachable')) return 'T:unreachable';
  if (m.includes('memory access out of bounds')) return 'T:oob';
  if (m.includes('unaligned')) return 'T:unaligned';
  if (m.includes('table index is out of bounds') || m.includes('table access out of bounds') || m.includes('element segment')) return 'T:table';
  if (m.includes('data segment')) return 'T:oob';
  if (m.includes('null function') || m.includes('signature mismatch')) return 'T:indirect';
  if (m.includes('call stack') ) return 'T:stack';
  return 'T:' + m;
}
let mod;
try { mod = new WebAssembly.Module(bytes); } catch (e) { console.log('SKIP ' + e); process.exit(0); }
"#;

/// Run node with the script and module; None if node is unavailable or skipped the module.
fn run_node(tag: &str, wasm_bytes: &[u8], script: &str, extra: &str) -> Option<String> {
    let dir = std::env::temp_dir().join(format!("wv-interp-node-{}-{tag}", std::process::id()));
    std::fs::create_dir_all(&dir).ok()?;
    let wasm_path = dir.join("m.wasm");
    let js_path = dir.join("run.js");
    let extra_path = dir.join("extra.json");
    std::fs::write(&wasm_path, wasm_bytes).ok()?;
    std::fs::write(&js_path, format!("{JS_COMMON}\n{script}")).ok()?;
    std::fs::write(&extra_path, extra).ok()?;
    let out = Command::new("node").arg(&js_path).arg(&wasm_path).arg(&extra_path).output();
    let res = match out {
        Err(_) => {
            eprintln!("node not available; skipping differential test");
            None
        }
        Ok(o) => {
            let stdout = String::from_utf8_lossy(&o.stdout).to_string();
            if !o.status.success() {
                panic!("node failed: {}\n{}", String::from_utf8_lossy(&o.stderr), stdout);
            }
            if stdout.starts_with("SKIP") {
                eprintln!("node skipped module: {}", stdout.lines().next().unwrap_or(""));
                None
            } else {
                Some(stdout)
            }
        }
    };
    let _ = std::fs::remove_dir_all(&dir);
    res
}

fn trap_tag(t: &Trap) -> String {
    match t {
        Trap::IntegerDivByZero => "T:div0".into(),
        Trap::IntegerOverflow => "T:ovf".into(),
        Trap::InvalidConversion => "T:conv".into(),
        Trap::Unreachable => "T:unreachable".into(),
        Trap::MemOutOfBounds => "T:oob".into(),
        Trap::UnalignedAtomic => "T:unaligned".into(),
        Trap::TableOutOfBounds => "T:table".into(),
        Trap::IndirectCallNull | Trap::IndirectCallTypeMismatch => "T:indirect".into(),
        Trap::StackExhausted => "T:stack".into(),
        o => format!("T:{o:?}"),
    }
}

/// V8 reports both "integer overflow" for div_s and float->int overflow as different messages:
/// "divide result unrepresentable" and "float unrepresentable in integer range"; both map to T:conv
/// in trapKind, so normalise ours the same way.
fn normalise(s: String) -> String {
    if s == "T:ovf" {
        "T:conv".to_string()
    } else {
        s
    }
}

fn nan_tolerant(name: &str) -> bool {
    let (shape, op) = name.split_once('.').unwrap();
    if !shape.starts_with('f') {
        return false;
    }
    matches!(
        op,
        "add" | "sub" | "mul" | "div" | "min" | "max" | "sqrt" | "ceil" | "floor" | "trunc" | "nearest" | "demote_f64"
            | "promote_f32" | "demote_f64x2_zero" | "promote_low_f32x4"
    )
}

fn is_nan32(x: u32) -> bool {
    f32::from_bits(x).is_nan()
}
fn is_nan64(x: u64) -> bool {
    f64::from_bits(x).is_nan()
}

/// Compare our result slots with V8's, allowing V8 any NaN where we must produce the canonical NaN.
fn results_match(op: &OpSpec, ours: &[u64], theirs: &[u64]) -> bool {
    if ours == theirs {
        return true;
    }
    if !nan_tolerant(&op.name) || ours.len() != theirs.len() {
        return false;
    }
    let lanes32 = |v: &[u64]| -> Vec<u32> { v.iter().flat_map(|x| [*x as u32, (*x >> 32) as u32]).collect() };
    let f32_shaped = op.name.starts_with("f32");
    match (op.result, f32_shaped) {
        (T::F32, _) => is_nan32(ours[0] as u32) && is_nan32(theirs[0] as u32) && ours[0] as u32 == 0x7fc0_0000,
        (T::F64, _) => is_nan64(ours[0]) && is_nan64(theirs[0]) && ours[0] == 0x7ff8_0000_0000_0000,
        (T::V128, true) => lanes32(ours)
            .iter()
            .zip(lanes32(theirs))
            .all(|(a, b)| *a == b || (is_nan32(*a) && is_nan32(b) && *a == 0x7fc0_0000)),
        (T::V128, false) => ours
            .iter()
            .zip(theirs)
            .all(|(a, b)| a == b || (is_nan64(*a) && is_nan64(*b) && *a == 0x7ff8_0000_0000_0000)),
        _ => false,
    }
}

#[test]
fn numeric_ops_match_v8() {
    let ops = ops_table();
    let wat = numeric_module(&ops);
    let bytes = wasm(&wat);
    // spec for JS: per op, the argument tuples as decimal strings
    let mut extra = String::from("[");
    for (i, op) in ops.iter().enumerate() {
        if i > 0 {
            extra.push(',');
        }
        write!(extra, "{{\"name\":\"{}\",\"args\":[", op.export).unwrap();
        for (j, a) in arg_grid(&op.params).iter().enumerate() {
            if j > 0 {
                extra.push(',');
            }
            let strs: Vec<String> = a.iter().map(|x| format!("\"{x}\"")).collect();
            write!(extra, "[{}]", strs.join(",")).unwrap();
        }
        extra.push_str("]}");
    }
    extra.push(']');
    let script = r#"
const spec = JSON.parse(fs.readFileSync(process.argv[3]));
const inst = new WebAssembly.Instance(mod, {});
for (const op of spec) {
  const f = inst.exports[op.name];
  const out = [];
  for (const a of op.args) {
    try {
      let r = f(...a.map(BigInt));
      if (!Array.isArray(r)) r = [r];
      out.push(r.map(hex).join(':'));
    } catch (e) { out.push(trapKind(e)); }
  }
  console.log(op.name + ' ' + out.join(' '));
}
"#;
    let Some(stdout) = run_node("numeric", &bytes, script, &extra) else { return };
    let mut inst = Instance::instantiate(&bytes, Box::new(DefaultHost), Limits::default()).unwrap();
    let mut lines = stdout.lines();
    let mut total = 0usize;
    let mut mismatches = Vec::new();
    for op in &ops {
        let line = lines.next().expect("missing line from node");
        let mut parts = line.split(' ');
        assert_eq!(parts.next().unwrap(), op.export);
        for a in arg_grid(&op.params) {
            let theirs = parts.next().expect("missing result");
            let args: Vec<Val> = a.iter().map(|x| Val::I64(*x as i64)).collect();
            let out = inst.call_export(&op.export, &args);
            total += 1;
            let ok = match &out {
                Outcome::Returned(v) => {
                    let ours: Vec<u64> = v.iter().map(|x| if let Val::I64(y) = x { *y as u64 } else { panic!() }).collect();
                    if theirs.starts_with('T') {
                        false
                    } else {
                        let t: Vec<u64> = theirs.split(':').map(|h| u64::from_str_radix(h, 16).unwrap()).collect();
                        results_match(op, &ours, &t)
                    }
                }
                Outcome::Trap(t) => normalise(trap_tag(t)) == theirs,
                _ => false,
            };
            if !ok {
                mismatches.push(format!("{} {:x?}: ours {:x?} theirs {}", op.export, a, out, theirs));
            }
        }
    }
    eprintln!("numeric differential: {} ops, {} evaluations", ops.len(), total);
    assert!(mismatches.is_empty(), "{} mismatches, first ones:\n{}", mismatches.len(), mismatches[..mismatches.len().min(30)].join("\n"));
    assert!(total > 50_000);
}

#[test]
fn memory_ops_match_v8() {
    // (name, mnemonic, kind) kind: L32/L64/LV load result, S32/S64/SV store operand, rmw etc.
    let loads = [
        ("i32.load", "i32"), ("i32.load8_s", "i32"), ("i32.load8_u", "i32"), ("i32.load16_s", "i32"), ("i32.load16_u", "i32"),
        ("i64.load", "i64"), ("i64.load8_s", "i64"), ("i64.load8_u", "i64"), ("i64.load16_s", "i64"), ("i64.load16_u", "i64"),
        ("i64.load32_s", "i64"), ("i64.load32_u", "i64"), ("f32.load", "f32"), ("f64.load", "f64"),
        ("v128.load", "v128"), ("v128.load8x8_s", "v128"), ("v128.load8x8_u", "v128"), ("v128.load16x4_s", "v128"),
        ("v128.load16x4_u", "v128"), ("v128.load32x2_s", "v128"), ("v128.load32x2_u", "v128"), ("v128.load8_splat", "v128"),
        ("v128.load16_splat", "v128"), ("v128.load32_splat", "v128"), ("v128.load64_splat", "v128"), ("v128.load32_zero", "v128"),
        ("v128.load64_zero", "v128"),
        ("i32.atomic.load", "i32"), ("i32.atomic.load8_u", "i32"), ("i32.atomic.load16_u", "i32"), ("i64.atomic.load", "i64"),
        ("i64.atomic.load8_u", "i64"), ("i64.atomic.load16_u", "i64"), ("i64.atomic.load32_u", "i64"),
    ];
    let stores = [
        ("i32.store", "i32"), ("i32.store8", "i32"), ("i32.store16", "i32"), ("i64.store", "i64"), ("i64.store8", "i64"),
        ("i64.store16", "i64"), ("i64.store32", "i64"), ("f32.store", "f32"), ("f64.store", "f64"),
        ("i32.atomic.store", "i32"), ("i32.atomic.store8", "i32"), ("i32.atomic.store16", "i32"), ("i64.atomic.store", "i64"),
        ("i64.atomic.store8", "i64"), ("i64.atomic.store16", "i64"), ("i64.atomic.store32", "i64"),
    ];
    let mut rmws: Vec<(String, &str)> = Vec::new();
    for op in ["add", "sub", "and", "or", "xor", "xchg"] {
        rmws.push((format!("i32.atomic.rmw.{op}"), "i32"));
        rmws.push((format!("i32.atomic.rmw8.{op}_u"), "i32"));
        rmws.push((format!("i32.atomic.rmw16.{op}_u"), "i32"));
        rmws.push((format!("i64.atomic.rmw.{op}"), "i64"));
        rmws.push((format!("i64.atomic.rmw8.{op}_u"), "i64"));
        rmws.push((format!("i64.atomic.rmw16.{op}_u"), "i64"));
        rmws.push((format!("i64.atomic.rmw32.{op}_u"), "i64"));
    }
    let cas = [
        ("i32.atomic.rmw.cmpxchg", "i32"), ("i32.atomic.rmw8.cmpxchg_u", "i32"), ("i32.atomic.rmw16.cmpxchg_u", "i32"),
        ("i64.atomic.rmw.cmpxchg", "i64"), ("i64.atomic.rmw8.cmpxchg_u", "i64"), ("i64.atomic.rmw16.cmpxchg_u", "i64"),
        ("i64.atomic.rmw32.cmpxchg_u", "i64"),
    ];
    let conv_out = |t: &str, x: String| -> (String, String) {
        match t {
            "i32" => ("i64".into(), format!("(i64.extend_i32_u {x})")),
            "i64" => ("i64".into(), x),
            "f32" => ("i64".into(), format!("(i64.extend_i32_u (i32.reinterpret_f32 {x}))")),
            "f64" => ("i64".into(), format!("(i64.reinterpret_f64 {x})")),
            _ => ("i64 i64".into(), format!("(local.set $v {x}) (i64x2.extract_lane 0 (local.get $v)) (i64x2.extract_lane 1 (local.get $v))")),
        }
    };
    let conv_in = |t: &str, k: usize| -> String {
        match t {
            "i32" => format!("(i32.wrap_i64 (local.get {k}))"),
            "i64" => format!("(local.get {k})"),
            "f32" => format!("(f32.reinterpret_i32 (i32.wrap_i64 (local.get {k})))"),
            _ => format!("(f64.reinterpret_i64 (local.get {k}))"),
        }
    };
    let mut w = String::from("(module (memory (export \"mem\") 1 1 shared)\n");
    // memory pattern: byte k = (k*37+11) ^ (k>>8), written by an init function (same on both sides)
    w.push_str(
        "(func (export \"init\") (local i32) (loop (i32.store8 (local.get 0) (i32.xor (i32.add (i32.mul (local.get 0) (i32.const 37)) (i32.const 11)) (i32.shr_u (local.get 0) (i32.const 8)))) (br_if 0 (i32.lt_u (local.tee 0 (i32.add (local.get 0) (i32.const 1))) (i32.const 65536)))))\n",
    );
    let mut names: Vec<(String, usize)> = Vec::new(); // (export, number of value args)
    for (m, t) in loads {
        for off in [0u32, 3] {
            let (res, body) = conv_out(t, format!("({m} offset={off} (i32.wrap_i64 (local.get 0)))"));
            let name = format!("{m}+{off}");
            writeln!(w, "(func (export \"{name}\") (param i64) (result {res}) (local $v v128) {body})").unwrap();
            names.push((name, 0));
        }
    }
    for (m, t) in stores {
        let name = m.to_string();
        writeln!(w, "(func (export \"{name}\") (param i64 i64) ({m} offset=1 (i32.wrap_i64 (local.get 0)) {}))", conv_in(t, 1)).unwrap();
        names.push((name, 1));
    }
    for (m, t) in &rmws {
        let (res, body) = conv_out(t, format!("({m} (i32.wrap_i64 (local.get 0)) {})", conv_in(t, 1)));
        writeln!(w, "(func (export \"{m}\") (param i64 i64) (result {res}) {body})").unwrap();
        names.push((m.clone(), 1));
    }
    for (m, t) in cas {
        let (res, body) = conv_out(t, format!("({m} (i32.wrap_i64 (local.get 0)) {} {})", conv_in(t, 1), conv_in(t, 2)));
        writeln!(w, "(func (export \"{m}\") (param i64 i64 i64) (result {res}) {body})").unwrap();
        names.push((m.to_string(), 2));
    }
    // lane loads/stores
    for (m, lane) in [("v128.load8_lane", 9), ("v128.load16_lane", 5), ("v128.load32_lane", 2), ("v128.load64_lane", 1)] {
        let (res, body) = conv_out("v128", format!("({m} offset=2 {lane} (i32.wrap_i64 (local.get 0)) (v128.const i64x2 0x1111111111111111 0x2222222222222222))"));
        writeln!(w, "(func (export \"{m}\") (param i64) (result {res}) (local $v v128) {body})").unwrap();
        names.push((m.to_string(), 0));
    }
    for (m, lane) in [("v128.store8_lane", 9), ("v128.store16_lane", 5), ("v128.store32_lane", 2), ("v128.store64_lane", 1), ("v128.store", 0)] {
        let l = if m == "v128.store" { String::new() } else { lane.to_string() };
        writeln!(w, "(func (export \"{m}\") (param i64 i64) ({m} offset=2 {l} (i32.wrap_i64 (local.get 0)) (i64x2.replace_lane 1 (i64x2.splat (local.get 1)) (i64.mul (local.get 1) (i64.const 3)))))").unwrap();
        names.push((m.to_string(), 1));
    }
    w.push(')');
    let bytes = wasm(&w);

    let addrs: Vec<u64> = vec![0, 1, 2, 3, 4, 8, 13, 16, 255, 256, 1000, 65519, 65520, 65521, 65527, 65528, 65529, 65530, 65531, 65532, 65533, 65534, 65535, 65536, 65540, 0xffff_ffff, 0xffff_fffc];
    let vals: Vec<u64> = vec![0, 1, 0x11, 0x1111, 0x1111_1111, 0xffff_ffff_ffff_ffff, 0x8877_6655_4433_2211, 0x7fc0_0001_ffa0_0002, 0xb2, 0x5db2];
    // call plan: (export index, args)
    let mut plan: Vec<(usize, Vec<u64>)> = Vec::new();
    for (i, (_n, nvals)) in names.iter().enumerate() {
        for (ai, a) in addrs.iter().enumerate() {
            match nvals {
                0 => plan.push((i, vec![*a])),
                1 => {
                    for k in 0..3 {
                        plan.push((i, vec![*a, vals[(ai + k * 3 + i) % vals.len()]]));
                    }
                }
                _ => {
                    // cmpxchg: expected from a small set likely to match the pattern sometimes
                    for k in 0..4 {
                        plan.push((i, vec![*a, vals[(ai + k + i) % vals.len()], vals[(ai + 2 * k + 1) % vals.len()]]));
                    }
                }
            }
        }
    }
    let mut extra = String::from("{\"names\":[");
    extra.push_str(&names.iter().map(|(n, _)| format!("\"{n}\"")).collect::<Vec<_>>().join(","));
    extra.push_str("],\"plan\":[");
    extra.push_str(
        &plan
            .iter()
            .map(|(i, a)| format!("[{i},{}]", a.iter().map(|x| format!("\"{x}\"")).collect::<Vec<_>>().join(",")))
            .collect::<Vec<_>>()
            .join(","),
    );
    extra.push_str("]}");
    let script = r#"
const spec = JSON.parse(fs.readFileSync(process.argv[3]));
const inst = new WebAssembly.Instance(mod, {});
inst.exports.init();
const PRIME = 0x100000001b3n;
function memhash() {
  const u8 = new Uint8Array(inst.exports.mem.buffer);
  let h = 0xcbf29ce484222325n;
  for (let i = 0; i < u8.length; i++) { h = ((h ^ BigInt(u8[i])) * PRIME) & MASK; }
  return h.toString(16);
}
const out = [];
let n = 0;
for (const p of spec.plan) {
  const f = inst.exports[spec.names[p[0]]];
  try {
    let r = f(...p.slice(1).map(BigInt));
    if (r === undefined) r = [];
    if (!Array.isArray(r)) r = [r];
    out.push(r.map(hex).join(':') || '-');
  } catch (e) { out.push(trapKind(e)); }
  if (++n % 500 == 0) out.push('H' + memhash());
}
out.push('H' + memhash());
console.log(out.join('\n'));
"#;
    let Some(stdout) = run_node("memory", &bytes, script, &extra) else { return };
    let mut inst = Instance::instantiate(&bytes, Box::new(DefaultHost), Limits::default()).unwrap();
    assert_eq!(inst.call_export("init", &[]), ret(vec![]));
    let mut lines = stdout.lines();
    let mut n = 0;
    for (i, a) in &plan {
        let theirs = lines.next().unwrap();
        let args: Vec<Val> = a.iter().map(|x| Val::I64(*x as i64)).collect();
        let ours = match inst.call_export(&names[*i].0, &args) {
            Outcome::Returned(v) if v.is_empty() => "-".to_string(),
            Outcome::Returned(v) => v.iter().map(|x| if let Val::I64(y) = x { format!("{:x}", *y as u64) } else { panic!() }).collect::<Vec<_>>().join(":"),
            Outcome::Trap(t) => trap_tag(&t),
            o => format!("{o:?}"),
        };
        // An access that is both misaligned and out of bounds: we report the alignment trap first
        // (threads spec order), V8 reports the bounds trap first. Both are traps; accept.
        let both = ours == "T:unaligned" && theirs == "T:oob";
        assert!(ours == theirs || both, "{} {:x?}: ours {ours} theirs {theirs}", names[*i].0, a);
        n += 1;
        if n % 500 == 0 {
            assert_eq!(format!("H{:x}", inst.memory_hash(0)), lines.next().unwrap(), "memory hash after {n} calls");
        }
    }
    assert_eq!(format!("H{:x}", inst.memory_hash(0)), lines.next().unwrap(), "final memory hash");
    eprintln!("memory differential: {} calls", plan.len());
}

const HOST_PROGRAM: &str = r#"(module
  (import "env" "rnd32" (func $rnd32 (param i32) (result i32)))
  (import "env" "rnd64" (func $rnd64 (param i64 i32) (result i64)))
  (import "env" "rndf" (func $rndf (param f64) (result f64)))
  (import "env" "log" (func $log (param i32 i64 f64)))
  (import "env" "pair" (func $pair (param i32) (result i32 i64)))
  (import "env" "rndf32" (func $rndf32 (param f32 i32) (result f32)))
  (import "env" "rnd32" (func $rnd32_again (param i32) (result i32)))
  (type $i_i (func (param i32) (result i32)))
  (memory (export "mem") 1)
  (table 5 funcref)
  (elem (i32.const 0) $tw $sq $neg $rnd32 $rnd32_again)
  (global $acc (mut i64) (i64.const 0x9e3779b97f4a7c15))
  (global $facc (mut f64) (f64.const 1.0))
  (func $tw (type $i_i) (i32.shl (local.get 0) (i32.const 1)))
  (func $sq (type $i_i) (i32.mul (local.get 0) (local.get 0)))
  (func $neg (type $i_i) (i32.sub (i32.const 0) (local.get 0)))
  (func $mixin (param i64)
    (global.set $acc (i64.add (i64.rotl (i64.mul (global.get $acc) (i64.const 0x100000001b3)) (i64.const 23)) (local.get 0))))
  (func $fstep (param f64) (result f64) (local f64)
    ;; keep values finite and NaN-free: |x| folded into [1, 1e6)
    (local.set 1 (f64.abs (local.get 0)))
    (if (i32.eqz (f64.lt (local.get 1) (f64.const 1e300))) (then (local.set 1 (f64.const 3.5))))
    (block $done (loop $l
      (br_if $done (f64.lt (local.get 1) (f64.const 1e6)))
      (local.set 1 (f64.sqrt (local.get 1)))
      (br $l)))
    (f64.add (f64.const 1) (local.get 1)))
  (func (export "main") (param $n i32) (result i64 f64 i32)
    (local $k i32) (local $x i32) (local $y i64) (local $f f64) (local $g f32)
    (block $exit
      (loop $top
        (br_if $exit (i32.ge_u (local.get $k) (local.get $n)))
        (local.set $x (call $rnd32 (local.get $k)))
        (block $d (block $c (block $b (block $a
          (br_table $a $b $c $d (i32.rem_u (local.get $x) (i32.const 5))))
          ;; a: 64-bit arithmetic on host values
          (local.set $y (call $rnd64 (global.get $acc) (local.get $x)))
          (if (i64.ne (local.get $y) (i64.const 0))
            (then (call $mixin (i64.xor (i64.div_s (global.get $acc) (i64.or (local.get $y) (i64.const 1)))
                                        (i64.rem_u (local.get $y) (i64.const 1000003))))))
          (i64.store (i32.and (i32.shl (local.get $k) (i32.const 3)) (i32.const 0xfff8)) (local.get $y))
          (br $d))
          ;; b: float pipeline
          (local.set $f (call $fstep (call $rndf (global.get $facc))))
          (global.set $facc (f64.div (f64.add (global.get $facc) (local.get $f)) (f64.const 1.75)))
          (call $mixin (i64.trunc_sat_f64_s (f64.mul (f64.nearest (local.get $f)) (f64.const 1024.5))))
          (f64.store offset=8192 (i32.and (i32.shl (local.get $k) (i32.const 3)) (i32.const 0xff8)) (global.get $facc))
          (br $d))
          ;; c: indirect calls, including imported functions in the table
          (call $mixin (i64.extend_i32_s
            (call_indirect (type $i_i) (local.get $x) (i32.rem_u (i32.shr_u (local.get $x) (i32.const 8)) (i32.const 5)))))
          (br $d))
        ;; d (also fallthrough target): multi-value host result + logging
        (call $pair (local.get $x))
        (local.set $y)
        (local.set $x)
        (call $mixin (i64.add (local.get $y) (i64.extend_i32_u (local.get $x))))
        (local.set $g (call $rndf32 (f32.convert_i32_s (local.get $x)) (local.get $k)))
        (call $mixin (i64.extend_i32_u (i32.reinterpret_f32 (f32.mul (local.get $g) (f32.const 0.5)))))
        (if (i32.eqz (i32.and (local.get $k) (i32.const 7)))
          (then (call $log (local.get $k) (global.get $acc) (global.get $facc))))
        (local.set $k (i32.add (local.get $k) (i32.const 1)))
        (br $top)))
    (global.get $acc) (global.get $facc) (local.get $k))
)"#;

#[test]
fn host_program_matches_v8() {
    let bytes = wasm(HOST_PROGRAM);
    // import signatures for the JS host (type reflection is unavailable in node 20)
    let extra = r#"[
      {"module":"env","field":"rnd32","params":["i32"],"results":["i32"]},
      {"module":"env","field":"rnd64","params":["i64","i32"],"results":["i64"]},
      {"module":"env","field":"rndf","params":["f64"],"results":["f64"]},
      {"module":"env","field":"log","params":["i32","i64","f64"],"results":[]},
      {"module":"env","field":"pair","params":["i32"],"results":["i32","i64"]},
      {"module":"env","field":"rndf32","params":["f32","i32"],"results":["f32"]}
    ]"#;
    let script = r#"
const sigs = JSON.parse(fs.readFileSync(process.argv[3]));
const PRIME = 0x100000001b3n;
function fnv(h, bytes) { for (const b of bytes) { h = ((h ^ BigInt(b)) * PRIME) & MASK; } return h; }
function mix(z) {
  z = ((z ^ (z >> 30n)) * 0xbf58476d1ce4e5b9n) & MASK;
  z = ((z ^ (z >> 27n)) * 0x94d049bb133111ebn) & MASK;
  return z ^ (z >> 31n);
}
function le(x, n) { const o = []; for (let i = 0; i < n; i++) o.push(Number((x >> BigInt(8 * i)) & 0xffn)); return o; }
function derive(h, i) { return mix(fnv(h, le(BigInt(i), 8))); }
const dv = new DataView(new ArrayBuffer(8));
function f64bits(x) { dv.setFloat64(0, x, true); return dv.getBigUint64(0, true); }
function f32bits(x) { dv.setFloat32(0, x, true); return BigInt(dv.getUint32(0, true)); }
function bitsf64(b) { dv.setBigUint64(0, b, true); return dv.getFloat64(0, true); }
function bitsf32(b) { dv.setUint32(0, Number(b), true); return dv.getFloat32(0, true); }
function argBits(t, v) {
  switch (t) {
    case 'i32': return [0x7f, BigInt.asUintN(32, BigInt(v)), 4];
    case 'i64': return [0x7e, BigInt.asUintN(64, v), 8];
    case 'f32': return [0x7d, f32bits(v), 4];
    case 'f64': return [0x7c, f64bits(v), 8];
  }
}
const enc = new TextEncoder();
const counts = new Map();
const trace = [];
function makeHost(sig) {
  return (...args) => {
    const key = sig.module + '\u0000' + sig.field;
    const count = counts.get(key) || 0;
    counts.set(key, count + 1);
    let h = 0xcbf29ce484222325n;
    h = fnv(h, enc.encode(sig.module)); h = fnv(h, [0xff]);
    h = fnv(h, enc.encode(sig.field)); h = fnv(h, [0xff]);
    h = fnv(h, le(BigInt(count), 8));
    const abits = [];
    sig.params.forEach((t, i) => { const [tag, bits, n] = argBits(t, args[i]); h = fnv(h, [tag]); h = fnv(h, le(bits, n)); abits.push(bits.toString(16)); });
    const rbits = [];
    const res = sig.results.map((t, i) => {
      const x = derive(h, i);
      switch (t) {
        case 'i32': rbits.push(BigInt.asUintN(32, x).toString(16)); return Number(BigInt.asIntN(32, x));
        case 'i64': rbits.push(x.toString(16)); return BigInt.asIntN(64, x);
        case 'f32': { let b = BigInt.asUintN(32, x); if ((b & 0x7f800000n) == 0x7f800000n) b &= ~0x40000000n & 0xffffffffn; rbits.push(b.toString(16)); return bitsf32(b); }
        case 'f64': { let b = x; if ((b & 0x7ff0000000000000n) == 0x7ff0000000000000n) b &= ~0x4000000000000000n & MASK; rbits.push(b.toString(16)); return bitsf64(b); }
      }
    });
    trace.push('H ' + sig.field + ' ' + abits.join(',') + ' -> ' + rbits.join(','));
    if (res.length == 0) return undefined;
    if (res.length == 1) return res[0];
    return res;
  };
}
const imports = {};
for (const s of sigs) { (imports[s.module] ||= {})[s.field] = makeHost(s); }
const inst = new WebAssembly.Instance(mod, imports);
for (const n of [0, 1, 10, 300]) {
  const r = inst.exports.main(n);
  console.log('R ' + hex(r[0]) + ' ' + f64bits(r[1]).toString(16) + ' ' + r[2]);
}
const u8 = new Uint8Array(inst.exports.mem.buffer);
let mh = 0xcbf29ce484222325n;
for (let i = 0; i < u8.length; i++) { mh = ((mh ^ BigInt(u8[i])) * PRIME) & MASK; }
console.log('M ' + mh.toString(16));
console.log(trace.join('\n'));
"#;
    let Some(stdout) = run_node("host", &bytes, script, extra) else { return };
    let mut inst = Instance::instantiate(&bytes, Box::new(DefaultHost), Limits::default()).unwrap();
    let mut ours = String::new();
    for n in [0, 1, 10, 300] {
        match inst.call_export("main", &[i32v(n)]) {
            Outcome::Returned(v) => match (&v[0], &v[1], &v[2]) {
                (Val::I64(a), Val::F64(b), Val::I32(c)) => writeln!(ours, "R {:x} {:x} {}", *a as u64, b, c).unwrap(),
                o => panic!("{o:?}"),
            },
            o => panic!("{o:?}"),
        }
    }
    writeln!(ours, "M {:x}", inst.memory_hash(0)).unwrap();
    let bits = |v: &Val| match v {
        Val::I32(x) => format!("{:x}", *x as u32),
        Val::I64(x) => format!("{:x}", *x as u64),
        Val::F32(x) => format!("{x:x}"),
        Val::F64(x) => format!("{x:x}"),
        o => panic!("{o:?}"),
    };
    let trace = inst.take_host_trace();
    assert!(trace.len() > 600);
    for h in &trace {
        let a: Vec<String> = h.args.iter().map(bits).collect();
        let r: Vec<String> = h.results.iter().map(bits).collect();
        writeln!(ours, "H {} {} -> {}", h.field, a.join(","), r.join(",")).unwrap();
    }
    let (o, t): (Vec<&str>, Vec<&str>) = (ours.lines().collect(), stdout.lines().collect());
    for (k, (a, b)) in o.iter().zip(&t).enumerate() {
        assert_eq!(a, b, "line {k}");
    }
    assert_eq!(o.len(), t.len());
    eprintln!("host differential: {} trace entries compared", trace.len());
}

const WAT_TAIL_SMALL: &str = r#"(module
  (type $ii_i (func (param i32 i32) (result i32)))
  (table 3 funcref)
  (elem (i32.const 0) $count_ind $odd $even)
  (func $count (export "count") (param i32 i32) (result i32)
    (if (result i32) (i32.eqz (local.get 0))
      (then (local.get 1))
      (else (return_call $count (i32.sub (local.get 0) (i32.const 1)) (i32.add (local.get 1) (i32.const 3))))))
  (func $count_ind (export "count_ind") (type $ii_i)
    (if (i32.eqz (local.get 0)) (then (return (local.get 1))))
    (i32.sub (local.get 0) (i32.const 1)) (i32.add (local.get 1) (i32.const 2))
    (return_call_indirect (type $ii_i) (i32.const 0)))
  (func $even (export "even") (param i32 i32) (result i32)
    (i32.const 99)
    (if (i32.eqz (local.get 0)) (then (return (i32.const 1))))
    (return_call $odd (i32.sub (local.get 0) (i32.const 1))))
  (func $odd (param i32) (result i32) (local i64 i64 i64)
    (if (i32.eqz (local.get 0)) (then (return (i32.const 0))))
    (return_call $even (i32.sub (local.get 0) (i32.const 1)) (i32.const 0)))
  (func (export "ind_any") (param i32 i32) (result i32)
    (return_call_indirect (type $ii_i) (local.get 0) (i32.const 7) (local.get 1)))
)"#;

/// Generic differential driver: every exported function whose parameters are all i32/i64 is called
/// with every combination from `argset` (same order on both sides; state carries over).
fn diff_module(tag: &str, wat: &str, argset: &[i64], skip: &[(&str, i64)]) -> Option<usize> {
    let bytes = wasm(wat);
    let mut inst = Instance::instantiate(&bytes, Box::new(DefaultHost), Limits::default()).unwrap();
    let mut plan: Vec<(String, Vec<(bool, i64)>)> = Vec::new(); // (export, [(is64, value)])
    for e in inst.exports() {
        if let ExportKind::Func { params, .. } = &e.kind {
            if !params.iter().all(|p| matches!(p, wasmparser::ValType::I32 | wasmparser::ValType::I64)) {
                continue;
            }
            let mut grid: Vec<Vec<(bool, i64)>> = vec![vec![]];
            for p in params {
                let is64 = matches!(p, wasmparser::ValType::I64);
                let mut next = Vec::new();
                for g in &grid {
                    for a in argset {
                        let mut x = g.clone();
                        x.push((is64, *a));
                        next.push(x);
                    }
                }
                grid = next;
            }
            // two rounds so that state-dependent functions are exercised after mutations
            for _round in 0..2 {
                for g in &grid {
                    if g.iter().any(|(_, v)| skip.contains(&(e.name.as_str(), *v))) {
                        continue;
                    }
                    plan.push((e.name.clone(), g.clone()));
                }
            }
        }
    }
    let extra = format!(
        "[{}]",
        plan.iter()
            .map(|(n, a)| {
                let mut items = vec![format!("\"{n}\"")];
                items.extend(a.iter().map(|(w, v)| format!("[{},\"{v}\"]", *w as u8)));
                format!("[{}]", items.join(","))
            })
            .collect::<Vec<_>>()
            .join(",")
    );
    let script = r#"
const plan = JSON.parse(fs.readFileSync(process.argv[3]));
const inst = new WebAssembly.Instance(mod, {});
function show(x) {
  if (typeof x === 'bigint') return 'L' + BigInt.asUintN(64, x).toString(16);
  if (typeof x === 'number') return 'I' + (x >>> 0).toString(16);
  if (x === null) return 'null';
  return 'ref';
}
const out = [];
for (const p of plan) {
  const args = p.slice(1).map(([w, v]) => w ? BigInt(v) : Number(v));
  try {
    let r = inst.exports[p[0]](...args);
    if (r === undefined) r = [];
    if (!Array.isArray(r)) r = [r];
    out.push(r.map(show).join(':') || '-');
  } catch (e) { out.push(trapKind(e)); }
}
console.log(out.join('\n'));
"#;
    let stdout = run_node(tag, &bytes, script, &extra)?;
    let mut lines = stdout.lines();
    for (name, a) in &plan {
        let args: Vec<Val> = a.iter().map(|(w, v)| if *w { Val::I64(*v) } else { Val::I32(*v as i32) }).collect();
        let ours = match inst.call_export(name, &args) {
            Outcome::Returned(v) if v.is_empty() => "-".to_string(),
            Outcome::Returned(v) => v
                .iter()
                .map(|x| match x {
                    Val::I32(y) => format!("I{:x}", *y as u32),
                    Val::I64(y) => format!("L{:x}", *y as u64),
                    Val::FuncRef(None) | Val::ExternRef(None) => "null".to_string(),
                    Val::FuncRef(Some(_)) | Val::ExternRef(Some(_)) => "ref".to_string(),
                    o => panic!("{o:?}"),
                })
                .collect::<Vec<_>>()
                .join(":"),
            Outcome::Trap(t) => trap_tag(&t),
            o => format!("{o:?}"),
        };
        assert_eq!(ours, lines.next().unwrap(), "{tag}: {name} {a:?}");
    }
    Some(plan.len())
}

#[test]
fn control_flow_tables_and_bulk_match_v8() {
    let mut total = 0;
    let mut run = |tag: &str, wat: &str, argset: &[i64], skip: &[(&str, i64)]| {
        if let Some(n) = diff_module(tag, wat, argset, skip) {
            total += n;
        }
    };
    run("brtable", WAT_BR_TABLE, &[0, 1, 2, 3, 4, 5, 12, -1, 100], &[("sum_sw", -1)]);
    run("multivalue", WAT_MULTI_VALUE, &[0, 1, 2, 3, 7, -5], &[("loopparams", 0), ("loopparams", -5)]);
    run("funclabel", WAT_FUNC_LABEL, &[0, 1, 2, 5, -1], &[("loop_result", 0), ("loop_result", -1)]);
    run("tables", WAT_TABLES, &[0, 1, 2, 3, 4, 6, 8, 9, -1], &[]);
    run("bulk", WAT_BULK, &[0, 1, 5, 10, 11, 65530, 65536, 65537, -1], &[]);
    run("tail", WAT_TAIL_SMALL, &[0, 1, 2, 3, 10, 1001], &[]);
    eprintln!("control-flow differential: {total} calls");
}

mod common;
use common::*;
use wv_interp::*;

#[test]
fn factorial_and_fib() {
    let mut i = mk(r#"(module
      (func $fac (export "fac") (param i64) (result i64)
        (if (result i64) (i64.eqz (local.get 0))
          (then (i64.const 1))
          (else (i64.mul (local.get 0) (call $fac (i64.sub (local.get 0) (i64.const 1)))))))
      (func $fib (export "fib") (param i32) (result i32)
        (if (result i32) (i32.lt_u (local.get 0) (i32.const 2))
          (then (local.get 0))
          (else (i32.add (call $fib (i32.sub (local.get 0) (i32.const 1)))
                         (call $fib (i32.sub (local.get 0) (i32.const 2)))))))
      (func (export "fac_iter") (param i64) (result i64) (local i64)
        (local.set 1 (i64.const 1))
        (block $done
          (loop $l
            (br_if $done (i64.eqz (local.get 0)))
            (local.set 1 (i64.mul (local.get 1) (local.get 0)))
            (local.set 0 (i64.sub (local.get 0) (i64.const 1)))
            (br $l)))
        (local.get 1))
    )"#);
    assert_eq!(call_i64(&mut i, "fac", &[i64v(20)]), 2432902008176640000);
    assert_eq!(call_i64(&mut i, "fac_iter", &[i64v(20)]), 2432902008176640000);
    assert_eq!(call_i64(&mut i, "fac", &[i64v(0)]), 1);
    assert_eq!(call_i32(&mut i, "fib", &[i32v(20)]), 6765);
    let st = i.stats();
    assert!(st.calls > 20000);
    assert_eq!(st.loop_backedges, 20);
    assert_eq!(st.host_calls, 0);
}

#[test]
fn br_table_and_default() {
    let mut i = mk(WAT_BR_TABLE);
    assert_eq!(call_i32(&mut i, "sw", &[i32v(0)]), 100);
    assert_eq!(call_i32(&mut i, "sw", &[i32v(1)]), 101);
    assert_eq!(call_i32(&mut i, "sw", &[i32v(2)]), 102);
    assert_eq!(call_i32(&mut i, "sw", &[i32v(3)]), 103);
    assert_eq!(call_i32(&mut i, "sw", &[i32v(4)]), 103);
    assert_eq!(call_i32(&mut i, "sw", &[i32v(-1)]), 103);
    // k%5: 0->1, 1->10, 2->100, 3->7 (out with 7), 4->7 (default=out)
    assert_eq!(call_i32(&mut i, "sum_sw", &[i32v(5)]), 1 + 10 + 100 + 7 + 7);
    assert_eq!(call_i32(&mut i, "sum_sw", &[i32v(12)]), 2 * 125 + 1 + 10);
}

#[test]
fn multi_value() {
    let mut i = mk(WAT_MULTI_VALUE);
    assert_eq!(i.call_export("swap", &[i32v(1), i64v(2)]), ret(vec![i64v(2), i32v(1)]));
    assert_eq!(i.call_export("swap_twice", &[i32v(1), i64v(2)]), ret(vec![i32v(1), i64v(2)]));
    assert_eq!(call_i32(&mut i, "blockparams", &[i32v(10), i32v(3)]), 7);
    assert_eq!(call_i32(&mut i, "loopparams", &[i32v(10)]), 55);
    assert_eq!(call_i32(&mut i, "if_noelse", &[i32v(10), i32v(1)]), 11);
    assert_eq!(call_i32(&mut i, "if_noelse", &[i32v(10), i32v(0)]), 10);
    assert_eq!(call_i32(&mut i, "br_extra", &[]), 42);
    assert_eq!(i.call_export("ret_nested", &[i32v(1)]), ret(vec![i32v(2), i32v(3)]));
    assert_eq!(i.call_export("ret_nested", &[i32v(0)]), ret(vec![i32v(9), i32v(8)]));
}

#[test]
fn integer_ops() {
    let mut i = mk(r#"(module
      (func (export "div_s") (param i32 i32) (result i32) (i32.div_s (local.get 0) (local.get 1)))
      (func (export "div_u") (param i32 i32) (result i32) (i32.div_u (local.get 0) (local.get 1)))
      (func (export "rem_s") (param i32 i32) (result i32) (i32.rem_s (local.get 0) (local.get 1)))
      (func (export "rem_u") (param i32 i32) (result i32) (i32.rem_u (local.get 0) (local.get 1)))
      (func (export "div_s64") (param i64 i64) (result i64) (i64.div_s (local.get 0) (local.get 1)))
      (func (export "rem_s64") (param i64 i64) (result i64) (i64.rem_s (local.get 0) (local.get 1)))
      (func (export "div_u64") (param i64 i64) (result i64) (i64.div_u (local.get 0) (local.get 1)))
      (func (export "shl") (param i32 i32) (result i32) (i32.shl (local.get 0) (local.get 1)))
      (func (export "shr_s") (param i32 i32) (result i32) (i32.shr_s (local.get 0) (local.get 1)))
      (func (export "shr_u") (param i32 i32) (result i32) (i32.shr_u (local.get 0) (local.get 1)))
      (func (export "rotl") (param i32 i32) (result i32) (i32.rotl (local.get 0) (local.get 1)))
      (func (export "rotr") (param i32 i32) (result i32) (i32.rotr (local.get 0) (local.get 1)))
      (func (export "shl64") (param i64 i64) (result i64) (i64.shl (local.get 0) (local.get 1)))
      (func (export "shr_s64") (param i64 i64) (result i64) (i64.shr_s (local.get 0) (local.get 1)))
      (func (export "rotl64") (param i64 i64) (result i64) (i64.rotl (local.get 0) (local.get 1)))
      (func (export "rotr64") (param i64 i64) (result i64) (i64.rotr (local.get 0) (local.get 1)))
      (func (export "clz") (param i32) (result i32) (i32.clz (local.get 0)))
      (func (export "ctz") (param i32) (result i32) (i32.ctz (local.get 0)))
      (func (export "popcnt") (param i32) (result i32) (i32.popcnt (local.get 0)))
      (func (export "clz64") (param i64) (result i64) (i64.clz (local.get 0)))
      (func (export "ctz64") (param i64) (result i64) (i64.ctz (local.get 0)))
      (func (export "popcnt64") (param i64) (result i64) (i64.popcnt (local.get 0)))
      (func (export "ext8") (param i32) (result i32) (i32.extend8_s (local.get 0)))
      (func (export "ext16") (param i32) (result i32) (i32.extend16_s (local.get 0)))
      (func (export "ext8_64") (param i64) (result i64) (i64.extend8_s (local.get 0)))
      (func (export "ext16_64") (param i64) (result i64) (i64.extend16_s (local.get 0)))
      (func (export "ext32_64") (param i64) (result i64) (i64.extend32_s (local.get 0)))
      (func (export "wrap") (param i64) (result i32) (i32.wrap_i64 (local.get 0)))
      (func (export "extend_s") (param i32) (result i64) (i64.extend_i32_s (local.get 0)))
      (func (export "extend_u") (param i32) (result i64) (i64.extend_i32_u (local.get 0)))
      (func (export "lt_s") (param i32 i32) (result i32) (i32.lt_s (local.get 0) (local.get 1)))
      (func (export "lt_u") (param i32 i32) (result i32) (i32.lt_u (local.get 0) (local.get 1)))
      (func (export "ge_s64") (param i64 i64) (result i32) (i64.ge_s (local.get 0) (local.get 1)))
      (func (export "ge_u64") (param i64 i64) (result i32) (i64.ge_u (local.get 0) (local.get 1)))
      (func (export "mul64") (param i64 i64) (result i64) (i64.mul (local.get 0) (local.get 1)))
    )"#);
    let a = |x: i32, y: i32| [i32v(x), i32v(y)];
    assert_eq!(call_i32(&mut i, "div_s", &a(7, -2)), -3);
    assert_eq!(call_i32(&mut i, "div_s", &a(-7, 2)), -3);
    assert_eq!(i.call_export("div_s", &a(1, 0)), trap(Trap::IntegerDivByZero));
    assert_eq!(i.call_export("div_s", &a(i32::MIN, -1)), trap(Trap::IntegerOverflow));
    assert_eq!(call_i32(&mut i, "div_u", &a(-1, 2)), 0x7fff_ffff);
    assert_eq!(i.call_export("div_u", &a(1, 0)), trap(Trap::IntegerDivByZero));
    assert_eq!(call_i32(&mut i, "rem_s", &a(i32::MIN, -1)), 0);
    assert_eq!(call_i32(&mut i, "rem_s", &a(-7, 2)), -1);
    assert_eq!(call_i32(&mut i, "rem_s", &a(7, -2)), 1);
    assert_eq!(i.call_export("rem_s", &a(1, 0)), trap(Trap::IntegerDivByZero));
    assert_eq!(call_i32(&mut i, "rem_u", &a(-1, 10)), 5);
    assert_eq!(i.call_export("rem_u", &a(1, 0)), trap(Trap::IntegerDivByZero));
    assert_eq!(i.call_export("div_s64", &[i64v(i64::MIN), i64v(-1)]), trap(Trap::IntegerOverflow));
    assert_eq!(call_i64(&mut i, "rem_s64", &[i64v(i64::MIN), i64v(-1)]), 0);
    assert_eq!(i.call_export("rem_s64", &[i64v(5), i64v(0)]), trap(Trap::IntegerDivByZero));
    assert_eq!(call_i64(&mut i, "div_u64", &[i64v(-1), i64v(2)]), i64::MAX);
    assert_eq!(call_i32(&mut i, "shl", &a(1, 33)), 2);
    assert_eq!(call_i32(&mut i, "shl", &a(1, 31)), i32::MIN);
    assert_eq!(call_i32(&mut i, "shr_s", &a(-8, 1)), -4);
    assert_eq!(call_i32(&mut i, "shr_s", &a(-8, 33)), -4);
    assert_eq!(call_i32(&mut i, "shr_u", &a(-8, 1)), 0x7fff_fffc);
    assert_eq!(call_i32(&mut i, "shr_u", &a(-8, 32)), -8);
    assert_eq!(call_i32(&mut i, "rotl", &a(0x8000_0001u32 as i32, 1)), 3);
    assert_eq!(call_i32(&mut i, "rotl", &a(0x8000_0001u32 as i32, 33)), 3);
    assert_eq!(call_i32(&mut i, "rotr", &a(3, 1)), 0x8000_0001u32 as i32);
    assert_eq!(call_i32(&mut i, "rotr", &a(3, 32)), 3);
    assert_eq!(call_i64(&mut i, "shl64", &[i64v(1), i64v(65)]), 2);
    assert_eq!(call_i64(&mut i, "shr_s64", &[i64v(-8), i64v(65)]), -4);
    assert_eq!(call_i64(&mut i, "rotl64", &[i64v(i64::MIN | 1), i64v(1)]), 3);
    assert_eq!(call_i64(&mut i, "rotr64", &[i64v(3), i64v(65)]), i64::MIN | 1);
    assert_eq!(call_i32(&mut i, "clz", &[i32v(0)]), 32);
    assert_eq!(call_i32(&mut i, "clz", &[i32v(1)]), 31);
    assert_eq!(call_i32(&mut i, "clz", &[i32v(-1)]), 0);
    assert_eq!(call_i32(&mut i, "ctz", &[i32v(0)]), 32);
    assert_eq!(call_i32(&mut i, "ctz", &[i32v(8)]), 3);
    assert_eq!(call_i32(&mut i, "popcnt", &[i32v(-1)]), 32);
    assert_eq!(call_i32(&mut i, "popcnt", &[i32v(0x1010)]), 2);
    assert_eq!(call_i64(&mut i, "clz64", &[i64v(0)]), 64);
    assert_eq!(call_i64(&mut i, "clz64", &[i64v(1)]), 63);
    assert_eq!(call_i64(&mut i, "ctz64", &[i64v(0)]), 64);
    assert_eq!(call_i64(&mut i, "ctz64", &[i64v(1 << 40)]), 40);
    assert_eq!(call_i64(&mut i, "popcnt64", &[i64v(-1)]), 64);
    assert_eq!(call_i32(&mut i, "ext8", &[i32v(0x80)]), -128);
    assert_eq!(call_i32(&mut i, "ext8", &[i32v(0x17f)]), 127);
    assert_eq!(call_i32(&mut i, "ext16", &[i32v(0x8000)]), -32768);
    assert_eq!(call_i64(&mut i, "ext8_64", &[i64v(0xff)]), -1);
    assert_eq!(call_i64(&mut i, "ext16_64", &[i64v(0x1_8000)]), -32768);
    assert_eq!(call_i64(&mut i, "ext32_64", &[i64v(0x1_8000_0000)]), i32::MIN as i64);
    assert_eq!(call_i32(&mut i, "wrap", &[i64v(0x1_2345_6789)]), 0x2345_6789);
    assert_eq!(call_i64(&mut i, "extend_s", &[i32v(-1)]), -1);
    assert_eq!(call_i64(&mut i, "extend_u", &[i32v(-1)]), 0xffff_ffff);
    assert_eq!(call_i32(&mut i, "lt_s", &a(-1, 1)), 1);
    assert_eq!(call_i32(&mut i, "lt_u", &a(-1, 1)), 0);
    assert_eq!(call_i32(&mut i, "ge_s64", &[i64v(-1), i64v(1)]), 0);
    assert_eq!(call_i32(&mut i, "ge_u64", &[i64v(-1), i64v(1)]), 1);
    assert_eq!(
        call_i64(&mut i, "mul64", &[i64v(0x1234_5678_9abc_def0), i64v(0x0fed_cba9_8765_4321)]),
        0x1234_5678_9abc_def0i64.wrapping_mul(0x0fed_cba9_8765_4321)
    );
}

#[test]
fn float_ops() {
    let mut i = mk(r#"(module
      (func (export "min32") (param f32 f32) (result f32) (f32.min (local.get 0) (local.get 1)))
      (func (export "max32") (param f32 f32) (result f32) (f32.max (local.get 0) (local.get 1)))
      (func (export "min64") (param f64 f64) (result f64) (f64.min (local.get 0) (local.get 1)))
      (func (export "max64") (param f64 f64) (result f64) (f64.max (local.get 0) (local.get 1)))
      (func (export "add32") (param f32 f32) (result f32) (f32.add (local.get 0) (local.get 1)))
      (func (export "div64") (param f64 f64) (result f64) (f64.div (local.get 0) (local.get 1)))
      (func (export "sqrt64") (param f64) (result f64) (f64.sqrt (local.get 0)))
      (func (export "nearest32") (param f32) (result f32) (f32.nearest (local.get 0)))
      (func (export "nearest64") (param f64) (result f64) (f64.nearest (local.get 0)))
      (func (export "ceil64") (param f64) (result f64) (f64.ceil (local.get 0)))
      (func (export "floor32") (param f32) (result f32) (f32.floor (local.get 0)))
      (func (export "trunc64") (param f64) (result f64) (f64.trunc (local.get 0)))
      (func (export "neg32") (param f32) (result f32) (f32.neg (local.get 0)))
      (func (export "abs64") (param f64) (result f64) (f64.abs (local.get 0)))
      (func (export "copysign32") (param f32 f32) (result f32) (f32.copysign (local.get 0) (local.get 1)))
      (func (export "copysign64") (param f64 f64) (result f64) (f64.copysign (local.get 0) (local.get 1)))
      (func (export "demote") (param f64) (result f32) (f32.demote_f64 (local.get 0)))
      (func (export "promote") (param f32) (result f64) (f64.promote_f32 (local.get 0)))
      (func (export "reinterp") (param f32) (result i32) (i32.reinterpret_f32 (local.get 0)))
      (func (export "reinterp64") (param i64) (result f64) (f64.reinterpret_i64 (local.get 0)))
      (func (export "select_f") (param f32 f32 i32) (result f32) (select (local.get 0) (local.get 1) (local.get 2)))
      (func (export "select_t") (param f64 f64 i32) (result f64) (select (result f64) (local.get 0) (local.get 1) (local.get 2)))
      (func (export "lt64") (param f64 f64) (result i32) (f64.lt (local.get 0) (local.get 1)))
      (func (export "ne32") (param f32 f32) (result i32) (f32.ne (local.get 0) (local.get 1)))
      (func (export "eq32") (param f32 f32) (result i32) (f32.eq (local.get 0) (local.get 1)))
      (func (export "cvt_u64_f32") (param i64) (result f32) (f32.convert_i64_u (local.get 0)))
      (func (export "cvt_s64_f64") (param i64) (result f64) (f64.convert_i64_s (local.get 0)))
      (func (export "cvt_u32_f32") (param i32) (result f32) (f32.convert_i32_u (local.get 0)))
      (func (export "cvt_s32_f32") (param i32) (result f32) (f32.convert_i32_s (local.get 0)))
      (func (export "nanconst") (result f32) (f32.const nan:0x200001))
      (func (export "local_nan") (param f64) (result f64) (local f64) (local.set 1 (local.get 0)) (local.get 1))
    )"#);
    const CN32: u32 = 0x7fc0_0000;
    const CN64: u64 = 0x7ff8_0000_0000_0000;
    let nan_payload32 = Val::F32(0xffa1_2345); // negative NaN with payload
    let nan_payload64 = Val::F64(0xfff4_0000_0000_1234);
    let nz = f32v(-0.0);
    let pz = f32v(0.0);
    assert_eq!(call_f32(&mut i, "min32", &[pz.clone(), nz.clone()]), 0x8000_0000);
    assert_eq!(call_f32(&mut i, "min32", &[nz.clone(), pz.clone()]), 0x8000_0000);
    assert_eq!(call_f32(&mut i, "max32", &[pz.clone(), nz.clone()]), 0);
    assert_eq!(call_f32(&mut i, "max32", &[nz.clone(), pz.clone()]), 0);
    assert_eq!(call_f32(&mut i, "min32", &[f32v(1.0), nan_payload32.clone()]), CN32);
    assert_eq!(call_f32(&mut i, "max32", &[nan_payload32.clone(), f32v(1.0)]), CN32);
    assert_eq!(call_f32(&mut i, "min32", &[f32v(1.0), f32v(2.0)]), 1.0f32.to_bits());
    assert_eq!(call_f32(&mut i, "max32", &[f32v(1.0), f32v(f32::INFINITY)]), f32::INFINITY.to_bits());
    assert_eq!(call_f64(&mut i, "min64", &[f64v(0.0), f64v(-0.0)]), (-0.0f64).to_bits());
    assert_eq!(call_f64(&mut i, "max64", &[f64v(-0.0), f64v(0.0)]), 0);
    assert_eq!(call_f64(&mut i, "max64", &[nan_payload64.clone(), f64v(0.0)]), CN64);
    assert_eq!(call_f64(&mut i, "min64", &[f64v(-3.5), f64v(2.0)]), (-3.5f64).to_bits());
    // arithmetic NaN canonicalisation
    assert_eq!(call_f32(&mut i, "add32", &[nan_payload32.clone(), f32v(1.0)]), CN32);
    assert_eq!(call_f32(&mut i, "add32", &[f32v(f32::INFINITY), f32v(f32::NEG_INFINITY)]), CN32);
    assert_eq!(call_f64(&mut i, "div64", &[f64v(0.0), f64v(0.0)]), CN64);
    assert_eq!(call_f64(&mut i, "div64", &[f64v(1.0), f64v(-0.0)]), f64::NEG_INFINITY.to_bits());
    assert_eq!(call_f64(&mut i, "sqrt64", &[f64v(-1.0)]), CN64);
    assert_eq!(call_f64(&mut i, "sqrt64", &[f64v(-0.0)]), (-0.0f64).to_bits());
    assert_eq!(call_f64(&mut i, "sqrt64", &[f64v(2.0)]), 2.0f64.sqrt().to_bits());
    // nearest: round half to even
    for (x, y) in [(0.5f32, 0.0f32), (1.5, 2.0), (2.5, 2.0), (-0.5, -0.0), (-1.5, -2.0), (-2.5, -2.0), (3.7, 4.0), (8388609.0, 8388609.0)] {
        assert_eq!(call_f32(&mut i, "nearest32", &[f32v(x)]), y.to_bits(), "nearest32({x})");
    }
    for (x, y) in [(0.5f64, 0.0f64), (1.5, 2.0), (2.5, 2.0), (-0.5, -0.0), (4.5, 4.0), (5.5, 6.0), (-0.2, -0.0), (4503599627370497.5, 4503599627370498.0)] {
        assert_eq!(call_f64(&mut i, "nearest64", &[f64v(x)]), y.to_bits(), "nearest64({x})");
    }
    assert_eq!(call_f64(&mut i, "nearest64", &[nan_payload64.clone()]), CN64);
    assert_eq!(call_f64(&mut i, "ceil64", &[f64v(-0.5)]), (-0.0f64).to_bits());
    assert_eq!(call_f64(&mut i, "ceil64", &[f64v(1.1)]), 2.0f64.to_bits());
    assert_eq!(call_f32(&mut i, "floor32", &[f32v(-0.5)]), (-1.0f32).to_bits());
    assert_eq!(call_f64(&mut i, "trunc64", &[f64v(-1.9)]), (-1.0f64).to_bits());
    // payload-preserving ops
    assert_eq!(call_f32(&mut i, "neg32", &[nan_payload32.clone()]), 0x7fa1_2345);
    assert_eq!(call_f64(&mut i, "abs64", &[nan_payload64.clone()]), 0x7ff4_0000_0000_1234);
    assert_eq!(call_f32(&mut i, "copysign32", &[Val::F32(0x7fa1_2345), f32v(-1.0)]), 0xffa1_2345);
    assert_eq!(call_f64(&mut i, "copysign64", &[f64v(1.5), nan_payload64.clone()]), (-1.5f64).to_bits());
    assert_eq!(call_i32(&mut i, "reinterp", &[nan_payload32.clone()]), 0xffa1_2345u32 as i32);
    assert_eq!(call_f64(&mut i, "reinterp64", &[i64v(0xfff4_0000_0000_1234u64 as i64)]), 0xfff4_0000_0000_1234);
    assert_eq!(call_f32(&mut i, "select_f", &[nan_payload32.clone(), f32v(1.0), i32v(1)]), 0xffa1_2345);
    assert_eq!(call_f32(&mut i, "select_f", &[f32v(1.0), nan_payload32.clone(), i32v(0)]), 0xffa1_2345);
    assert_eq!(call_f64(&mut i, "select_t", &[nan_payload64.clone(), f64v(1.0), i32v(7)]), 0xfff4_0000_0000_1234);
    assert_eq!(call_f32(&mut i, "nanconst", &[]), 0x7fa0_0001);
    assert_eq!(call_f64(&mut i, "local_nan", &[nan_payload64.clone()]), 0xfff4_0000_0000_1234);
    // demote / promote
    assert_eq!(call_f32(&mut i, "demote", &[f64v(1.0000000000000002)]), 1.0f32.to_bits());
    assert_eq!(call_f32(&mut i, "demote", &[f64v(1e300)]), f32::INFINITY.to_bits());
    assert_eq!(call_f32(&mut i, "demote", &[f64v(1e-300)]), 0);
    assert_eq!(call_f32(&mut i, "demote", &[f64v(-1e-300)]), 0x8000_0000);
    // halfway between 1.0 and next f32 (1 + 2^-24) rounds to even (1.0); slightly above rounds up
    assert_eq!(call_f32(&mut i, "demote", &[f64v(1.0 + 2f64.powi(-24))]), 1.0f32.to_bits());
    assert_eq!(call_f32(&mut i, "demote", &[f64v(1.0 + 2f64.powi(-24) + 2f64.powi(-50))]), 0x3f80_0001);
    assert_eq!(call_f32(&mut i, "demote", &[nan_payload64.clone()]), CN32);
    assert_eq!(call_f64(&mut i, "promote", &[nan_payload32.clone()]), CN64);
    assert_eq!(call_f64(&mut i, "promote", &[f32v(1.5)]), 1.5f64.to_bits());
    // comparisons with NaN
    assert_eq!(call_i32(&mut i, "lt64", &[nan_payload64.clone(), f64v(1.0)]), 0);
    assert_eq!(call_i32(&mut i, "ne32", &[nan_payload32.clone(), nan_payload32.clone()]), 1);
    assert_eq!(call_i32(&mut i, "eq32", &[nan_payload32.clone(), nan_payload32.clone()]), 0);
    assert_eq!(call_i32(&mut i, "eq32", &[pz, nz]), 1);
    // conversions (round to nearest even)
    assert_eq!(call_f32(&mut i, "cvt_u64_f32", &[i64v(-1)]), 18446744073709551616.0f32.to_bits());
    assert_eq!(call_f32(&mut i, "cvt_u64_f32", &[i64v(16777217)]), 16777216.0f32.to_bits());
    assert_eq!(call_f32(&mut i, "cvt_u64_f32", &[i64v(16777219)]), 16777220.0f32.to_bits());
    assert_eq!(call_f64(&mut i, "cvt_s64_f64", &[i64v(i64::MAX)]), 9223372036854775808.0f64.to_bits());
    assert_eq!(call_f64(&mut i, "cvt_s64_f64", &[i64v(9007199254740993)]), 9007199254740992.0f64.to_bits());
    assert_eq!(call_f32(&mut i, "cvt_u32_f32", &[i32v(-1)]), 4294967296.0f32.to_bits());
    assert_eq!(call_f32(&mut i, "cvt_s32_f32", &[i32v(-1)]), (-1.0f32).to_bits());
}

#[test]
fn trunc_boundaries() {
    let mut i = mk(r#"(module
      (func (export "i32_f32_s") (param f32) (result i32) (i32.trunc_f32_s (local.get 0)))
      (func (export "i32_f32_u") (param f32) (result i32) (i32.trunc_f32_u (local.get 0)))
      (func (export "i32_f64_s") (param f64) (result i32) (i32.trunc_f64_s (local.get 0)))
      (func (export "i32_f64_u") (param f64) (result i32) (i32.trunc_f64_u (local.get 0)))
      (func (export "i64_f32_s") (param f32) (result i64) (i64.trunc_f32_s (local.get 0)))
      (func (export "i64_f32_u") (param f32) (result i64) (i64.trunc_f32_u (local.get 0)))
      (func (export "i64_f64_s") (param f64) (result i64) (i64.trunc_f64_s (local.get 0)))
      (func (export "i64_f64_u") (param f64) (result i64) (i64.trunc_f64_u (local.get 0)))
      (func (export "sat_i32_f32_s") (param f32) (result i32) (i32.trunc_sat_f32_s (local.get 0)))
      (func (export "sat_i32_f32_u") (param f32) (result i32) (i32.trunc_sat_f32_u (local.get 0)))
      (func (export "sat_i32_f64_s") (param f64) (result i32) (i32.trunc_sat_f64_s (local.get 0)))
      (func (export "sat_i32_f64_u") (param f64) (result i32) (i32.trunc_sat_f64_u (local.get 0)))
      (func (export "sat_i64_f32_s") (param f32) (result i64) (i64.trunc_sat_f32_s (local.get 0)))
      (func (export "sat_i64_f32_u") (param f32) (result i64) (i64.trunc_sat_f32_u (local.get 0)))
      (func (export "sat_i64_f64_s") (param f64) (result i64) (i64.trunc_sat_f64_s (local.get 0)))
      (func (export "sat_i64_f64_u") (param f64) (result i64) (i64.trunc_sat_f64_u (local.get 0)))
    )"#);
    let ovf = trap(Trap::IntegerOverflow);
    let inv = trap(Trap::InvalidConversion);
    // i32 <- f32 signed
    assert_eq!(call_i32(&mut i, "i32_f32_s", &[f32v(-2147483648.0)]), i32::MIN);
    assert_eq!(i.call_export("i32_f32_s", &[f32v(-2147483904.0)]), ovf);
    assert_eq!(call_i32(&mut i, "i32_f32_s", &[f32v(2147483520.0)]), 2147483520);
    assert_eq!(i.call_export("i32_f32_s", &[f32v(2147483648.0)]), ovf);
    assert_eq!(i.call_export("i32_f32_s", &[f32v(f32::NAN)]), inv);
    assert_eq!(i.call_export("i32_f32_s", &[f32v(f32::INFINITY)]), ovf);
    assert_eq!(call_i32(&mut i, "i32_f32_s", &[f32v(-1.9)]), -1);
    // i32 <- f32 unsigned
    assert_eq!(call_i32(&mut i, "i32_f32_u", &[f32v(-0.9)]), 0);
    assert_eq!(i.call_export("i32_f32_u", &[f32v(-1.0)]), ovf);
    assert_eq!(call_i32(&mut i, "i32_f32_u", &[f32v(4294967040.0)]), 4294967040u32 as i32);
    assert_eq!(i.call_export("i32_f32_u", &[f32v(4294967296.0)]), ovf);
    // i32 <- f64
    assert_eq!(call_i32(&mut i, "i32_f64_s", &[f64v(-2147483648.9)]), i32::MIN);
    assert_eq!(i.call_export("i32_f64_s", &[f64v(-2147483649.0)]), ovf);
    assert_eq!(call_i32(&mut i, "i32_f64_s", &[f64v(2147483647.9)]), i32::MAX);
    assert_eq!(i.call_export("i32_f64_s", &[f64v(2147483648.0)]), ovf);
    assert_eq!(call_i32(&mut i, "i32_f64_u", &[f64v(4294967295.9)]), -1);
    assert_eq!(i.call_export("i32_f64_u", &[f64v(4294967296.0)]), ovf);
    assert_eq!(call_i32(&mut i, "i32_f64_u", &[f64v(-0.9999999)]), 0);
    assert_eq!(i.call_export("i32_f64_u", &[f64v(-1.0)]), ovf);
    assert_eq!(i.call_export("i32_f64_u", &[f64v(f64::NAN)]), inv);
    // i64
    assert_eq!(call_i64(&mut i, "i64_f32_s", &[f32v(-9223372036854775808.0)]), i64::MIN);
    assert_eq!(i.call_export("i64_f32_s", &[f32v(-9223373136366403584.0)]), ovf);
    assert_eq!(i.call_export("i64_f32_s", &[f32v(9223372036854775808.0)]), ovf);
    assert_eq!(call_i64(&mut i, "i64_f32_s", &[f32v(9223371487098961920.0)]), 9223371487098961920);
    assert_eq!(call_i64(&mut i, "i64_f32_u", &[f32v(18446742974197923840.0)]), 18446742974197923840u64 as i64);
    assert_eq!(i.call_export("i64_f32_u", &[f32v(18446744073709551616.0)]), ovf);
    assert_eq!(call_i64(&mut i, "i64_f64_s", &[f64v(-9223372036854775808.0)]), i64::MIN);
    assert_eq!(i.call_export("i64_f64_s", &[f64v(-9223372036854777856.0)]), ovf);
    assert_eq!(i.call_export("i64_f64_s", &[f64v(9223372036854775808.0)]), ovf);
    assert_eq!(call_i64(&mut i, "i64_f64_s", &[f64v(9223372036854774784.0)]), 9223372036854774784);
    assert_eq!(call_i64(&mut i, "i64_f64_u", &[f64v(18446744073709549568.0)]), 18446744073709549568u64 as i64);
    assert_eq!(i.call_export("i64_f64_u", &[f64v(18446744073709551616.0)]), ovf);
    assert_eq!(i.call_export("i64_f64_u", &[f64v(-1.0)]), ovf);
    assert_eq!(call_i64(&mut i, "i64_f64_u", &[f64v(-0.5)]), 0);
    assert_eq!(i.call_export("i64_f64_u", &[f64v(f64::NEG_INFINITY)]), ovf);
    // saturating
    assert_eq!(call_i32(&mut i, "sat_i32_f32_s", &[f32v(f32::NAN)]), 0);
    assert_eq!(call_i32(&mut i, "sat_i32_f32_s", &[f32v(1e20)]), i32::MAX);
    assert_eq!(call_i32(&mut i, "sat_i32_f32_s", &[f32v(-1e20)]), i32::MIN);
    assert_eq!(call_i32(&mut i, "sat_i32_f32_u", &[f32v(-5.0)]), 0);
    assert_eq!(call_i32(&mut i, "sat_i32_f32_u", &[f32v(1e20)]), -1);
    assert_eq!(call_i32(&mut i, "sat_i32_f64_s", &[f64v(f64::INFINITY)]), i32::MAX);
    assert_eq!(call_i32(&mut i, "sat_i32_f64_s", &[f64v(-3.99)]), -3);
    assert_eq!(call_i32(&mut i, "sat_i32_f64_u", &[f64v(4294967295.5)]), -1);
    assert_eq!(call_i64(&mut i, "sat_i64_f32_s", &[f32v(f32::NEG_INFINITY)]), i64::MIN);
    assert_eq!(call_i64(&mut i, "sat_i64_f32_u", &[f32v(f32::INFINITY)]), -1);
    assert_eq!(call_i64(&mut i, "sat_i64_f64_s", &[f64v(f64::NAN)]), 0);
    assert_eq!(call_i64(&mut i, "sat_i64_f64_s", &[f64v(1e19)]), i64::MAX);
    assert_eq!(call_i64(&mut i, "sat_i64_f64_u", &[f64v(-1e19)]), 0);
    assert_eq!(call_i64(&mut i, "sat_i64_f64_u", &[f64v(1e19)]), 10000000000000000000u64 as i64);
}

#[test]
fn memory_ops() {
    let mut i = mk(r#"(module
      (memory (export "mem") 1 2)
      (data (i32.const 0) "\01\02\03\04\05\06\07\08\f9\fa\fb\fc\fd\fe\ff\80")
      (func (export "l8s") (param i32) (result i32) (i32.load8_s (local.get 0)))
      (func (export "l8u") (param i32) (result i32) (i32.load8_u (local.get 0)))
      (func (export "l16s") (param i32) (result i32) (i32.load16_s (local.get 0)))
      (func (export "l16u") (param i32) (result i32) (i32.load16_u (local.get 0)))
      (func (export "l32") (param i32) (result i32) (i32.load (local.get 0)))
      (func (export "l32o") (param i32) (result i32) (i32.load offset=4 (local.get 0)))
      (func (export "l64") (param i32) (result i64) (i64.load (local.get 0)))
      (func (export "l64_8s") (param i32) (result i64) (i64.load8_s (local.get 0)))
      (func (export "l64_8u") (param i32) (result i64) (i64.load8_u (local.get 0)))
      (func (export "l64_16s") (param i32) (result i64) (i64.load16_s (local.get 0)))
      (func (export "l64_16u") (param i32) (result i64) (i64.load16_u (local.get 0)))
      (func (export "l64_32s") (param i32) (result i64) (i64.load32_s (local.get 0)))
      (func (export "l64_32u") (param i32) (result i64) (i64.load32_u (local.get 0)))
      (func (export "lf32") (param i32) (result f32) (f32.load (local.get 0)))
      (func (export "lf64") (param i32) (result f64) (f64.load (local.get 0)))
      (func (export "s8") (param i32 i32) (i32.store8 (local.get 0) (local.get 1)))
      (func (export "s16") (param i32 i32) (i32.store16 (local.get 0) (local.get 1)))
      (func (export "s32") (param i32 i32) (i32.store (local.get 0) (local.get 1)))
      (func (export "s64") (param i32 i64) (i64.store (local.get 0) (local.get 1)))
      (func (export "s64_8") (param i32 i64) (i64.store8 (local.get 0) (local.get 1)))
      (func (export "s64_16") (param i32 i64) (i64.store16 (local.get 0) (local.get 1)))
      (func (export "s64_32") (param i32 i64) (i64.store32 (local.get 0) (local.get 1)))
      (func (export "sf32") (param i32 f32) (f32.store (local.get 0) (local.get 1)))
      (func (export "sf64") (param i32 f64) (f64.store (local.get 0) (local.get 1)))
      (func (export "size") (result i32) (memory.size))
      (func (export "grow") (param i32) (result i32) (memory.grow (local.get 0)))
    )"#);
    assert_eq!(call_i32(&mut i, "l8s", &[i32v(8)]), -7);
    assert_eq!(call_i32(&mut i, "l8u", &[i32v(8)]), 0xf9);
    assert_eq!(call_i32(&mut i, "l16s", &[i32v(8)]), 0xfaf9u16 as i16 as i32);
    assert_eq!(call_i32(&mut i, "l16u", &[i32v(8)]), 0xfaf9);
    assert_eq!(call_i32(&mut i, "l32", &[i32v(0)]), 0x04030201);
    assert_eq!(call_i32(&mut i, "l32", &[i32v(1)]), 0x05040302);
    assert_eq!(call_i32(&mut i, "l32o", &[i32v(0)]), 0x08070605);
    assert_eq!(call_i64(&mut i, "l64", &[i32v(0)]), 0x0807060504030201);
    assert_eq!(call_i64(&mut i, "l64", &[i32v(8)]), 0x80fffefdfcfbfaf9u64 as i64);
    assert_eq!(call_i64(&mut i, "l64_8s", &[i32v(15)]), -128);
    assert_eq!(call_i64(&mut i, "l64_8u", &[i32v(15)]), 128);
    assert_eq!(call_i64(&mut i, "l64_16s", &[i32v(14)]), 0x80ffu16 as i16 as i64);
    assert_eq!(call_i64(&mut i, "l64_16u", &[i32v(14)]), 0x80ff);
    assert_eq!(call_i64(&mut i, "l64_32s", &[i32v(12)]), 0x80fffefdu32 as i32 as i64);
    assert_eq!(call_i64(&mut i, "l64_32u", &[i32v(12)]), 0x80fffefd);
    // OOB checks at the edge
    assert_eq!(call_i32(&mut i, "l32", &[i32v(65532)]), 0);
    assert_eq!(i.call_export("l32", &[i32v(65533)]), trap(Trap::MemOutOfBounds));
    assert_eq!(i.call_export("l32o", &[i32v(65529)]), trap(Trap::MemOutOfBounds));
    assert_eq!(i.call_export("l32o", &[i32v(-1)]), trap(Trap::MemOutOfBounds));
    assert_eq!(i.call_export("l8u", &[i32v(65536)]), trap(Trap::MemOutOfBounds));
    assert_eq!(i.call_export("l64", &[i32v(65529)]), trap(Trap::MemOutOfBounds));
    assert_eq!(i.call_export("s64", &[i32v(65529), i64v(-1)]), trap(Trap::MemOutOfBounds));
    // a trapping store must not write partially
    assert_eq!(call_i32(&mut i, "l32", &[i32v(65532)]), 0);
    // stores wrap
    assert_eq!(i.call_export("s8", &[i32v(100), i32v(0x1ff)]), ret(vec![]));
    assert_eq!(i.call_export("s16", &[i32v(102), i32v(0x1_abcd)]), ret(vec![]));
    assert_eq!(call_i32(&mut i, "l32", &[i32v(100)]), 0xabcd00ffu32 as i32);
    assert_eq!(i.call_export("s64_8", &[i32v(200), i64v(0x1234)]), ret(vec![]));
    assert_eq!(i.call_export("s64_16", &[i32v(201), i64v(0x12345678)]), ret(vec![]));
    assert_eq!(i.call_export("s64_32", &[i32v(203), i64v(0x1_9abc_def0)]), ret(vec![]));
    assert_eq!(call_i64(&mut i, "l64", &[i32v(200)]), 0x009abcdef0567834);
    assert_eq!(i.call_export("s32", &[i32v(300), i32v(-2)]), ret(vec![]));
    assert_eq!(call_i64(&mut i, "l64", &[i32v(300)]), 0xffff_fffe);
    // float store/load preserve NaN payloads
    assert_eq!(i.call_export("sf32", &[i32v(400), Val::F32(0xffa1_2345)]), ret(vec![]));
    assert_eq!(call_f32(&mut i, "lf32", &[i32v(400)]), 0xffa1_2345);
    assert_eq!(call_i32(&mut i, "l32", &[i32v(400)]), 0xffa1_2345u32 as i32);
    assert_eq!(i.call_export("sf64", &[i32v(408), Val::F64(0x7ff4_0000_0000_0001)]), ret(vec![]));
    assert_eq!(call_f64(&mut i, "lf64", &[i32v(408)]), 0x7ff4_0000_0000_0001);
    // size/grow
    assert_eq!(call_i32(&mut i, "size", &[]), 1);
    assert_eq!(call_i32(&mut i, "grow", &[i32v(0)]), 1);
    assert_eq!(call_i32(&mut i, "grow", &[i32v(2)]), -1);
    assert_eq!(call_i32(&mut i, "grow", &[i32v(1)]), 1);
    assert_eq!(call_i32(&mut i, "size", &[]), 2);
    assert_eq!(call_i32(&mut i, "grow", &[i32v(1)]), -1);
    assert_eq!(call_i32(&mut i, "l32", &[i32v(131068)]), 0);
    assert_eq!(i.memory_len(0), 131072);
    assert_eq!(i.memory_bytes(0)[100], 0xff);
    // memory_hash is FNV-1a over all bytes
    let mut h: u64 = 0xcbf29ce484222325;
    for b in i.memory_bytes(0) {
        h = (h ^ *b as u64).wrapping_mul(0x100000001b3);
    }
    assert_eq!(i.memory_hash(0), h);
}

#[test]
fn grow_limited_by_max_pages() {
    let mut i = mk_lim(
        r#"(module (memory 1) (func (export "grow") (param i32) (result i32) (memory.grow (local.get 0))))"#,
        Limits { max_pages: 3, ..Limits::default() },
    );
    assert_eq!(call_i32(&mut i, "grow", &[i32v(3)]), -1);
    assert_eq!(call_i32(&mut i, "grow", &[i32v(2)]), 1);
    assert_eq!(call_i32(&mut i, "grow", &[i32v(1)]), -1);
    assert_eq!(call_i32(&mut i, "grow", &[i32v(-1)]), -1);
    assert_eq!(call_i32(&mut i, "grow", &[i32v(0)]), 3);
    // minimum above max_pages is refused
    let r = Instance::instantiate(&wasm("(module (memory 4))"), Box::new(DefaultHost), Limits { max_pages: 3, ..Limits::default() });
    assert!(matches!(r, Err(InstantiateError::Unsupported(_))));
}

#[test]
fn globals_and_state_persistence() {
    let mut i = mk(r#"(module
      (global $g (export "g") (mut i32) (i32.const 5))
      (global $c (export "c") i64 (i64.const -7))
      (global $f (export "f") (mut f32) (f32.const nan:0x12345))
      (memory 1)
      (func (export "bump_then_trap") (param i32)
        (global.set $g (i32.add (global.get $g) (i32.const 1)))
        (i32.store (i32.const 0) (i32.const 77))
        (if (local.get 0) (then (unreachable))))
      (func (export "get") (result i32) (global.get $g))
      (func (export "getf") (result f32) (global.get $f))
    )"#);
    assert_eq!(i.global_value(0), i32v(5));
    assert_eq!(i.global_value(1), i64v(-7));
    assert_eq!(i.global_value(2), Val::F32(0x7f81_2345));
    assert_eq!(call_f32(&mut i, "getf", &[]), 0x7f81_2345);
    assert_eq!(i.call_export("bump_then_trap", &[i32v(1)]), trap(Trap::Unreachable));
    // state persists after traps
    assert_eq!(call_i32(&mut i, "get", &[]), 6);
    assert_eq!(i.memory_bytes(0)[0], 77);
    assert_eq!(i.call_export("bump_then_trap", &[i32v(0)]), ret(vec![]));
    assert_eq!(i.global_value(0), i32v(7));
    let ex = i.exports();
    assert_eq!(ex.len(), 6);
    assert_eq!(ex[0], ExportDesc { name: "g".into(), kind: ExportKind::Global { ty: wasmparser::ValType::I32, mutable: true }, index: 0 });
    assert!(matches!(&ex[3].kind, ExportKind::Func { params, results } if params.len() == 1 && results.is_empty()));
    assert_eq!(i.num_funcs(), 3);
    assert_eq!(i.num_globals(), 3);
    assert_eq!(i.num_memories(), 1);
    assert_eq!(i.num_tables(), 0);
    // API misuse is reported as Unsupported
    assert!(matches!(i.call_export("nope", &[]), Outcome::Unsupported(_)));
    assert!(matches!(i.call_export("get", &[i32v(1)]), Outcome::Unsupported(_)));
    assert!(matches!(i.call_export("bump_then_trap", &[i64v(1)]), Outcome::Unsupported(_)));
}

#[test]
fn call_depth_and_fuel() {
    let mut i = mk_lim(
        r#"(module
      (func $inf (export "inf") (call $inf))
      (func $deep (export "deep") (param i32) (result i32)
        (if (result i32) (local.get 0)
          (then (i32.add (i32.const 1) (call $deep (i32.sub (local.get 0) (i32.const 1)))))
          (else (i32.const 0))))
      (func (export "spin") (loop (br 0)))
      (func (export "count") (param i32) (result i32) (local i32)
        (loop (local.set 1 (i32.add (local.get 1) (i32.const 1)))
              (br_if 0 (i32.lt_u (local.get 1) (local.get 0))))
        (local.get 1))
    )"#,
        Limits { fuel: 100_000, ..Limits::default() },
    );
    assert_eq!(i.call_export("inf", &[]), trap(Trap::StackExhausted));
    // depth 2000 allowed in total: deep(1999) makes 2000 nested activations
    assert_eq!(call_i32(&mut i, "deep", &[i32v(1999)]), 1999);
    assert_eq!(i.call_export("deep", &[i32v(2000)]), trap(Trap::StackExhausted));
    assert_eq!(i.call_export("spin", &[]), Outcome::OutOfFuel);
    // fuel: 1 for the call + one per taken back-edge
    assert_eq!(call_i32(&mut i, "count", &[i32v(99_999 + 1)]), 100_000);
    assert_eq!(i.call_export("count", &[i32v(100_001)]), Outcome::OutOfFuel);
    // fuel is reset per call
    assert_eq!(call_i32(&mut i, "count", &[i32v(10)]), 10);
}

//! Deep nesting, fuel determinism, performance smoke test.
mod common;
use common::*;
use wv_interp::*;

fn leb(mut x: u32, out: &mut Vec<u8>) {
    loop {
        let b = (x & 0x7f) as u8;
        x >>= 7;
        if x == 0 {
            out.push(b);
            break;
        }
        out.push(b | 0x80);
    }
}

fn section(id: u8, body: &[u8], out: &mut Vec<u8>) {
    out.push(id);
    leb(body.len() as u32, out);
    out.extend_from_slice(body);
}

/// Module with one exported function "f": (param i32) (result i32), one extra i32 local, given code.
fn module_with_body(code: &[u8]) -> Vec<u8> {
    let mut m = b"\0asm\x01\0\0\0".to_vec();
    section(1, &[1, 0x60, 1, 0x7f, 1, 0x7f], &mut m); // type 0: (i32) -> i32
    section(3, &[1, 0], &mut m);
    section(7, &[1, 1, b'f', 0, 0], &mut m);
    let mut body = vec![1, 1, 0x7f]; // one local group: 1 x i32
    body.extend_from_slice(code);
    body.push(0x0b);
    let mut sec = vec![1];
    leb(body.len() as u32, &mut sec);
    sec.extend(body);
    section(10, &sec, &mut m);
    m
}

fn run_f(bytes: &[u8], arg: i32) -> Outcome {
    let mut i = Instance::instantiate(bytes, Box::new(DefaultHost), Limits::default()).expect("instantiate");
    i.call_export("f", &[i32v(arg)])
}

#[test]
fn deep_nesting_blocks() {
    for n in [200_000usize, 1_000_000] {
        // n nested void blocks; innermost sets local 1 = 42; then fall out of all of them
        let mut code = Vec::new();
        for _ in 0..n {
            code.extend([0x02, 0x40]);
        }
        code.extend([0x41, 42, 0x21, 1]); // i32.const 42; local.set 1
        for _ in 0..n {
            code.push(0x0b);
        }
        code.extend([0x20, 1]); // local.get 1
        assert_eq!(run_f(&module_with_body(&code), 0), ret(vec![i32v(42)]), "fallthrough n={n}");

        // same, but the innermost does `br (n-1)` to the outermost block when arg != 0,
        // skipping the `local.set 1 99` placed after the second-outermost end
        let mut code = Vec::new();
        for _ in 0..n {
            code.extend([0x02, 0x40]);
        }
        code.extend([0x41, 42, 0x21, 1]);
        code.extend([0x20, 0, 0x0d]); // local.get 0; br_if n-1
        leb(n as u32 - 1, &mut code);
        for _ in 0..n - 1 {
            code.push(0x0b);
        }
        code.extend([0x41, 0xe3, 0x00, 0x21, 1]); // i32.const 99; local.set 1
        code.push(0x0b);
        code.extend([0x20, 1]);
        let m = module_with_body(&code);
        assert_eq!(run_f(&m, 1), ret(vec![i32v(42)]), "br n={n}");
        assert_eq!(run_f(&m, 0), ret(vec![i32v(99)]), "no br n={n}");
    }
}

#[test]
fn deep_nesting_loops_ifs_and_values() {
    let n = 200_000usize;
    // nested `block (result i32)`: innermost pushes arg, each level adds 1 after the inner block ends
    let mut code = Vec::new();
    for _ in 0..n {
        code.extend([0x02, 0x7f]);
    }
    code.extend([0x20, 0]);
    for _ in 0..n {
        code.extend([0x0b, 0x41, 1, 0x6a]); // end; i32.const 1; i32.add
    }
    assert_eq!(run_f(&module_with_body(&code), 5), ret(vec![i32v(5 + n as i32)]));

    // nested if/else: (local.get 0) if (result i32) <nested> else (i32.const -1) end
    let mut code = Vec::new();
    for _ in 0..n {
        code.extend([0x20, 0, 0x04, 0x7f]);
    }
    code.extend([0x41, 7]);
    for _ in 0..n {
        code.extend([0x05, 0x41, 0x7f, 0x0b]); // else; i32.const -1; end
    }
    let m = module_with_body(&code);
    assert_eq!(run_f(&m, 1), ret(vec![i32v(7)]));
    assert_eq!(run_f(&m, 0), ret(vec![i32v(-1)]));

    // nested loops (never branched to) and a return from the innermost
    let mut code = Vec::new();
    for _ in 0..n {
        code.extend([0x03, 0x40]);
    }
    code.extend([0x20, 0, 0x04, 0x40, 0x41, 11, 0x0f, 0x0b]); // if arg then return 11
    for _ in 0..n {
        code.push(0x0b);
    }
    code.extend([0x41, 12]);
    let m = module_with_body(&code);
    assert_eq!(run_f(&m, 1), ret(vec![i32v(11)]));
    assert_eq!(run_f(&m, 0), ret(vec![i32v(12)]));

    // dead code containing deep nesting after an unconditional branch
    let mut code = vec![0x02, 0x40, 0x0c, 0]; // block; br 0
    for _ in 0..n {
        code.extend([0x02, 0x40]);
    }
    code.extend([0x00]); // unreachable (dead)
    for _ in 0..n {
        code.push(0x0b);
    }
    code.extend([0x0b, 0x41, 3]);
    assert_eq!(run_f(&module_with_body(&code), 0), ret(vec![i32v(3)]));
}

const FUEL_BASE: &str = r#"(module
  (import "env" "h" (func $h (param i32) (result i32)))
  (memory 1)
  (table 2 funcref) (elem (i32.const 0) $leaf $h)
  (func $leaf (param i32) (result i32) (i32.add (local.get 0) (i32.const 3)))
  (func $tail (param i32 i32) (result i32)
    (if (i32.eqz (local.get 0)) (then (return (local.get 1))))
    (return_call $tail (i32.sub (local.get 0) (i32.const 1)) (i32.add (local.get 1) (local.get 0))))
  (func (export "run") (param $n i32) (result i32) (local $i i32) (local $acc i32)
    (block $out
      (loop $l
        (br_if $out (i32.ge_u (local.get $i) (local.get $n)))
        (local.set $acc (i32.add (local.get $acc)
          (call_indirect (param i32) (result i32) (local.get $i) (i32.and (local.get $i) (i32.const 1)))))
        (block $sw (block $b1 (block $b0
          (br_table $b0 $b1 $sw (i32.rem_u (local.get $i) (i32.const 3))))
          (local.set $acc (i32.xor (local.get $acc) (call $leaf (local.get $i))))
          (br $sw))
          (local.set $acc (call $tail (i32.const 5) (local.get $acc))))
        (local.set $i (i32.add (local.get $i) (i32.const 1)))
        (br $l)))
    (if (i32.gt_u (local.get $n) (i32.const 1000)) (then (unreachable)))
    (local.get $acc))
)"#;

/// Same program with `nop`s sprinkled in and dead code after br / return / unreachable / return_call.
const FUEL_NOISY: &str = r#"(module
  (import "env" "h" (func $h (param i32) (result i32)))
  (memory 1)
  (table 2 funcref) (elem (i32.const 0) $leaf $h)
  (func $leaf (param i32) (result i32) (nop) (i32.add (local.get 0) (nop) (i32.const 3)) (nop))
  (func $tail (param i32 i32) (result i32)
    (nop)
    (if (i32.eqz (local.get 0)) (then (nop) (return (local.get 1)) (drop (call $leaf (i32.const 1))) (loop (br 0))))
    (return_call $tail (i32.sub (local.get 0) (i32.const 1)) (i32.add (local.get 1) (local.get 0)))
    (drop (call $h (i32.const 9)))
    (loop $dead (br $dead))
    (unreachable))
  (func (export "run") (param $n i32) (result i32) (local $i i32) (local $acc i32)
    (nop)
    (block $out
      (nop)
      (loop $l
        (nop)
        (br_if $out (i32.ge_u (local.get $i) (local.get $n)))
        (nop)
        (local.set $acc (i32.add (local.get $acc)
          (call_indirect (param i32) (result i32) (local.get $i) (nop) (i32.and (local.get $i) (i32.const 1)))))
        (block $sw (block $b1 (block $b0
          (br_table $b0 $b1 $sw (i32.rem_u (local.get $i) (i32.const 3)))
          (drop (call $leaf (i32.const 0))) (loop (br 0)) (i64.const 1) (f32.const 2) (drop) (drop))
          (local.set $acc (i32.xor (local.get $acc) (call $leaf (local.get $i))))
          (nop)
          (br $sw)
          (i32.const 1) (i32.const 2) (i32.add) (drop) (call $tail (i32.const 100) (i32.const 0)) (drop) (loop (br 0)))
          (local.set $acc (call $tail (i32.const 5) (local.get $acc)))
          (nop))
        (local.set $i (i32.add (local.get $i) (i32.const 1)))
        (br $l)
        (drop (call $h (i32.const 77)))
        (loop $dead2 (br $dead2))
        (unreachable)
        (drop (call $leaf (i32.const 0)))))
    (nop)
    (if (i32.gt_u (local.get $n) (i32.const 1000)) (then (nop) (unreachable) (loop (br 0)) (drop (call $leaf (i32.const 0)))))
    (local.get $acc))
)"#;

#[test]
fn fuel_is_insensitive_to_nops_and_dead_code() {
    for n in [0, 1, 2, 3, 10, 57, 2000] {
        // unlimited-ish run: same outcome, same fuel, same trace
        let big = Limits { fuel: 1_000_000, ..Limits::default() };
        let mut a = mk_lim(FUEL_BASE, big.clone());
        let mut b = mk_lim(FUEL_NOISY, big);
        let (ra, rb) = (a.call_export("run", &[i32v(n)]), b.call_export("run", &[i32v(n)]));
        assert_eq!(ra, rb, "n={n}");
        assert!(matches!(ra, Outcome::Returned(_)) || n > 1000);
        if n > 1000 {
            assert_eq!(ra, trap(Trap::Unreachable));
        }
        let used = a.last_fuel_used();
        assert_eq!(used, b.last_fuel_used(), "n={n}");
        assert_eq!(used, a.stats().calls + a.stats().loop_backedges);
        assert_eq!(a.stats().calls, b.stats().calls);
        assert_eq!(a.stats().host_calls, b.stats().host_calls);
        assert_eq!(a.stats().loop_backedges, b.stats().loop_backedges);
        assert!(b.stats().instrs_executed > a.stats().instrs_executed);
        assert_eq!(a.take_host_trace(), b.take_host_trace());
        if n > 100 {
            continue;
        }
        // with exactly `used` fuel both succeed, with one less both run out at the same point
        for fuel in [used, used.saturating_sub(1), used / 2, 1, 0] {
            let lim = Limits { fuel, ..Limits::default() };
            let mut a = mk_lim(FUEL_BASE, lim.clone());
            let mut b = mk_lim(FUEL_NOISY, lim);
            let (ra, rb) = (a.call_export("run", &[i32v(n)]), b.call_export("run", &[i32v(n)]));
            assert_eq!(ra, rb, "n={n} fuel={fuel}");
            if fuel >= used {
                assert!(matches!(ra, Outcome::Returned(_)));
            } else {
                assert_eq!(ra, Outcome::OutOfFuel, "n={n} fuel={fuel}");
            }
            assert_eq!(a.last_fuel_used(), b.last_fuel_used());
            assert_eq!(a.take_host_trace(), b.take_host_trace());
            assert_eq!(a.memory_hash(0), b.memory_hash(0));
        }
    }
}

#[test]
fn performance_smoke() {
    let mut i = mk_lim(
        r#"(module
      (memory 1)
      (func (export "spin") (param $n i32) (result i32) (local $i i32) (local $a i32) (local $b i64)
        (loop $l
          (local.set $a (i32.add (i32.mul (local.get $a) (i32.const 1664525)) (i32.const 1013904223)))
          (local.set $b (i64.xor (i64.rotl (local.get $b) (i64.const 7)) (i64.extend_i32_u (local.get $a))))
          (i32.store (i32.and (local.get $a) (i32.const 0xfffc)) (local.get $i))
          (local.set $a (i32.xor (local.get $a) (i32.load (i32.and (i32.wrap_i64 (local.get $b)) (i32.const 0xfffc)))))
          (br_if $l (i32.lt_u (local.tee $i (i32.add (local.get $i) (i32.const 1))) (local.get $n))))
        (local.get $a))
    )"#,
        Limits { fuel: u64::MAX, ..Limits::default() },
    );
    let n = 2_000_000;
    let t = std::time::Instant::now();
    let r = i.call_export("spin", &[i32v(n)]);
    let dt = t.elapsed().as_secs_f64();
    assert!(matches!(r, Outcome::Returned(_)));
    let ops = i.stats().instrs_executed as f64;
    let rate = ops / dt / 1e6;
    eprintln!("performance: {} ops in {:.3}s = {:.1} M ops/s (debug_assertions={})", ops, dt, rate, cfg!(debug_assertions));
    if !cfg!(debug_assertions) {
        assert!(rate >= 20.0, "too slow: {rate:.1} M ops/s");
    }
}

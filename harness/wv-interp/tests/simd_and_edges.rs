mod common;
use common::*;
use wv_interp::*;

fn v_i8(x: [i8; 16]) -> u128 {
    u128::from_le_bytes(x.map(|b| b as u8))
}
fn v_i16(x: [i16; 8]) -> u128 {
    let mut b = [0u8; 16];
    for (i, v) in x.iter().enumerate() {
        b[2 * i..2 * i + 2].copy_from_slice(&v.to_le_bytes());
    }
    u128::from_le_bytes(b)
}
fn v_i32(x: [i32; 4]) -> u128 {
    let mut b = [0u8; 16];
    for (i, v) in x.iter().enumerate() {
        b[4 * i..4 * i + 4].copy_from_slice(&v.to_le_bytes());
    }
    u128::from_le_bytes(b)
}
fn v_i64(x: [i64; 2]) -> u128 {
    (x[0] as u64 as u128) | ((x[1] as u64 as u128) << 64)
}
fn v_f32(x: [f32; 4]) -> u128 {
    v_i32(x.map(|f| f.to_bits() as i32))
}
fn v_f64(x: [f64; 2]) -> u128 {
    v_i64(x.map(|f| f.to_bits() as i64))
}

#[test]
fn simd_subset() {
    let mut i = mk(r#"(module
      (memory 1)
      (data (i32.const 0) "\00\01\02\03\04\05\06\07\08\09\0a\0b\0c\0d\0e\0f\80\ff\7f\fe")
      (func (export "const") (result v128) (v128.const i32x4 1 -2 3 -4))
      (func (export "id") (param v128) (result v128) (local v128) (local.set 1 (local.get 0)) (local.get 1))
      (func (export "shuffle") (param v128 v128) (result v128)
        (i8x16.shuffle 0 16 1 17 2 18 3 19 15 31 14 30 13 29 12 28 (local.get 0) (local.get 1)))
      (func (export "swizzle") (param v128 v128) (result v128) (i8x16.swizzle (local.get 0) (local.get 1)))
      (func (export "add8") (param v128 v128) (result v128) (i8x16.add (local.get 0) (local.get 1)))
      (func (export "addsat8s") (param v128 v128) (result v128) (i8x16.add_sat_s (local.get 0) (local.get 1)))
      (func (export "subsat8u") (param v128 v128) (result v128) (i8x16.sub_sat_u (local.get 0) (local.get 1)))
      (func (export "avgr16") (param v128 v128) (result v128) (i16x8.avgr_u (local.get 0) (local.get 1)))
      (func (export "mul32") (param v128 v128) (result v128) (i32x4.mul (local.get 0) (local.get 1)))
      (func (export "mul64") (param v128 v128) (result v128) (i64x2.mul (local.get 0) (local.get 1)))
      (func (export "shl16") (param v128 i32) (result v128) (i16x8.shl (local.get 0) (local.get 1)))
      (func (export "shrs64") (param v128 i32) (result v128) (i64x2.shr_s (local.get 0) (local.get 1)))
      (func (export "shru8") (param v128 i32) (result v128) (i8x16.shr_u (local.get 0) (local.get 1)))
      (func (export "narrow_s") (param v128 v128) (result v128) (i8x16.narrow_i16x8_s (local.get 0) (local.get 1)))
      (func (export "narrow_u") (param v128 v128) (result v128) (i16x8.narrow_i32x4_u (local.get 0) (local.get 1)))
      (func (export "extend_hi_u") (param v128) (result v128) (i32x4.extend_high_i16x8_u (local.get 0)))
      (func (export "extend_lo_s") (param v128) (result v128) (i16x8.extend_low_i8x16_s (local.get 0)))
      (func (export "extmul") (param v128 v128) (result v128) (i32x4.extmul_high_i16x8_s (local.get 0) (local.get 1)))
      (func (export "extadd") (param v128) (result v128) (i16x8.extadd_pairwise_i8x16_s (local.get 0)))
      (func (export "dot") (param v128 v128) (result v128) (i32x4.dot_i16x8_s (local.get 0) (local.get 1)))
      (func (export "q15") (param v128 v128) (result v128) (i16x8.q15mulr_sat_s (local.get 0) (local.get 1)))
      (func (export "popcnt") (param v128) (result v128) (i8x16.popcnt (local.get 0)))
      (func (export "abs32") (param v128) (result v128) (i32x4.abs (local.get 0)))
      (func (export "bitmask8") (param v128) (result i32) (i8x16.bitmask (local.get 0)))
      (func (export "bitmask64") (param v128) (result i32) (i64x2.bitmask (local.get 0)))
      (func (export "alltrue16") (param v128) (result i32) (i16x8.all_true (local.get 0)))
      (func (export "anytrue") (param v128) (result i32) (v128.any_true (local.get 0)))
      (func (export "bitselect") (param v128 v128 v128) (result v128) (v128.bitselect (local.get 0) (local.get 1) (local.get 2)))
      (func (export "andnot") (param v128 v128) (result v128) (v128.andnot (local.get 0) (local.get 1)))
      (func (export "lt_u8") (param v128 v128) (result v128) (i8x16.lt_u (local.get 0) (local.get 1)))
      (func (export "ge_s64") (param v128 v128) (result v128) (i64x2.ge_s (local.get 0) (local.get 1)))
      (func (export "fadd") (param v128 v128) (result v128) (f32x4.add (local.get 0) (local.get 1)))
      (func (export "fmin") (param v128 v128) (result v128) (f32x4.min (local.get 0) (local.get 1)))
      (func (export "fpmin") (param v128 v128) (result v128) (f32x4.pmin (local.get 0) (local.get 1)))
      (func (export "dpmax") (param v128 v128) (result v128) (f64x2.pmax (local.get 0) (local.get 1)))
      (func (export "dneg") (param v128) (result v128) (f64x2.neg (local.get 0)))
      (func (export "dsqrt") (param v128) (result v128) (f64x2.sqrt (local.get 0)))
      (func (export "fnearest") (param v128) (result v128) (f32x4.nearest (local.get 0)))
      (func (export "flt") (param v128 v128) (result v128) (f32x4.lt (local.get 0) (local.get 1)))
      (func (export "trunc_sat_s") (param v128) (result v128) (i32x4.trunc_sat_f32x4_s (local.get 0)))
      (func (export "trunc_sat_u_zero") (param v128) (result v128) (i32x4.trunc_sat_f64x2_u_zero (local.get 0)))
      (func (export "convert_u") (param v128) (result v128) (f32x4.convert_i32x4_u (local.get 0)))
      (func (export "convert_low_s") (param v128) (result v128) (f64x2.convert_low_i32x4_s (local.get 0)))
      (func (export "demote") (param v128) (result v128) (f32x4.demote_f64x2_zero (local.get 0)))
      (func (export "promote") (param v128) (result v128) (f64x2.promote_low_f32x4 (local.get 0)))
      (func (export "splat8") (param i32) (result v128) (i8x16.splat (local.get 0)))
      (func (export "splatf64") (param f64) (result v128) (f64x2.splat (local.get 0)))
      (func (export "ext8s") (param v128) (result i32) (i8x16.extract_lane_s 15 (local.get 0)))
      (func (export "ext16u") (param v128) (result i32) (i16x8.extract_lane_u 7 (local.get 0)))
      (func (export "extf32") (param v128) (result f32) (f32x4.extract_lane 3 (local.get 0)))
      (func (export "ext64") (param v128) (result i64) (i64x2.extract_lane 1 (local.get 0)))
      (func (export "rep16") (param v128 i32) (result v128) (i16x8.replace_lane 2 (local.get 0) (local.get 1)))
      (func (export "repf64") (param v128 f64) (result v128) (f64x2.replace_lane 1 (local.get 0) (local.get 1)))
      (func (export "load") (param i32) (result v128) (v128.load (local.get 0)))
      (func (export "load8x8_s") (param i32) (result v128) (v128.load8x8_s (local.get 0)))
      (func (export "load16x4_u") (param i32) (result v128) (v128.load16x4_u (local.get 0)))
      (func (export "load32x2_s") (param i32) (result v128) (v128.load32x2_s (local.get 0)))
      (func (export "load16_splat") (param i32) (result v128) (v128.load16_splat (local.get 0)))
      (func (export "load32_zero") (param i32) (result v128) (v128.load32_zero (local.get 0)))
      (func (export "load64_zero") (param i32) (result v128) (v128.load64_zero (local.get 0)))
      (func (export "load8_lane") (param i32 v128) (result v128) (v128.load8_lane 5 (local.get 0) (local.get 1)))
      (func (export "load64_lane") (param i32 v128) (result v128) (v128.load64_lane 1 (local.get 0) (local.get 1)))
      (func (export "store") (param i32 v128) (v128.store (local.get 0) (local.get 1)))
      (func (export "store16_lane") (param i32 v128) (v128.store16_lane 7 (local.get 0) (local.get 1)))
      (func (export "store32_lane") (param i32 v128) (v128.store32_lane offset=4 1 (local.get 0) (local.get 1)))
      (func (export "l32") (param i32) (result i32) (i32.load (local.get 0)))
    )"#);
    let v = Val::V128;
    assert_eq!(call_v128(&mut i, "const", &[]), v_i32([1, -2, 3, -4]));
    let iota = v_i8([0, 1, 2, 3, 4, 5, 6, 7, 8, 9, 10, 11, 12, 13, 14, 15]);
    let rev = v_i8([115, 114, 113, 112, 111, 110, 109, 108, 107, 106, 105, 104, 103, 102, 101, 100]);
    assert_eq!(call_v128(&mut i, "id", &[v(rev)]), rev);
    assert_eq!(
        call_v128(&mut i, "shuffle", &[v(iota), v(rev)]),
        v_i8([0, 115, 1, 114, 2, 113, 3, 112, 15, 100, 14, 101, 13, 102, 12, 103])
    );
    assert_eq!(
        call_v128(&mut i, "swizzle", &[v(rev), v(v_i8([0, 15, 16, -1, 1, 2, 3, 4, 5, 6, 7, 8, 9, 10, 31, 127]))]),
        v_i8([115, 100, 0, 0, 114, 113, 112, 111, 110, 109, 108, 107, 106, 105, 0, 0])
    );
    let a8 = v_i8([127, -128, 100, -100, 1, -1, 0, 50, 127, -128, 100, -100, 1, -1, 0, 50]);
    let b8 = v_i8([1, -1, 100, -100, 1, 1, 0, -50, 127, -128, 27, -28, -2, 2, 0, 77]);
    assert_eq!(call_v128(&mut i, "add8", &[v(a8), v(b8)]), v_i8([-128, 127, -56, 56, 2, 0, 0, 0, -2, 0, 127, -128, -1, 1, 0, 127]));
    assert_eq!(call_v128(&mut i, "addsat8s", &[v(a8), v(b8)]), v_i8([127, -128, 127, -128, 2, 0, 0, 0, 127, -128, 127, -128, -1, 1, 0, 127]));
    // unsigned view: a = 127,128,100,156,1,255,0,50,..  b = 1,255,100,156,1,1,0,206,127,128,27,228,254,2,0,77
    assert_eq!(
        call_v128(&mut i, "subsat8u", &[v(a8), v(b8)]),
        v_i8([126, 0, 0, 0, 0, -2, 0, 0, 0, 0, 73, 0, 0, -3, 0, 0])
    );
    assert_eq!(
        call_v128(&mut i, "avgr16", &[v(v_i16([0, 1, -1, -1, 100, 7, 0, 2])), v(v_i16([0, 2, -1, 0, 101, 8, 1, 2]))]),
        v_i16([0, 2, -1, -32768, 101, 8, 1, 2])
    );
    assert_eq!(
        call_v128(&mut i, "mul32", &[v(v_i32([3, -3, 0x10000, i32::MIN])), v(v_i32([5, 5, 0x10000, -1]))]),
        v_i32([15, -15, 0, i32::MIN])
    );
    assert_eq!(
        call_v128(&mut i, "mul64", &[v(v_i64([1 << 40, -3])), v(v_i64([1 << 30, 7]))]),
        v_i64([0, -21])
    );
    assert_eq!(call_v128(&mut i, "shl16", &[v(v_i16([1, 2, -1, 0x4000, 0, 0, 0, 3])), i32v(17)]), v_i16([2, 4, -2, -32768, 0, 0, 0, 6]));
    assert_eq!(call_v128(&mut i, "shrs64", &[v(v_i64([-8, 8])), i32v(65)]), v_i64([-4, 4]));
    assert_eq!(call_v128(&mut i, "shru8", &[v(a8), i32v(9)]), v_i8([63, 64, 50, 78, 0, 127, 0, 25, 63, 64, 50, 78, 0, 127, 0, 25]));
    assert_eq!(
        call_v128(&mut i, "narrow_s", &[v(v_i16([0, 127, 128, -128, -129, 32767, -32768, 5])), v(v_i16([1, 2, 3, 4, 300, -300, 0, -1]))]),
        v_i8([0, 127, 127, -128, -128, 127, -128, 5, 1, 2, 3, 4, 127, -128, 0, -1])
    );
    assert_eq!(
        call_v128(&mut i, "narrow_u", &[v(v_i32([0, 65535, 65536, -1])), v(v_i32([i32::MIN, i32::MAX, 1, 40000]))]),
        v_i16([0, -1, -1, 0, 0, -1, 1, 40000u16 as i16])
    );
    assert_eq!(call_v128(&mut i, "extend_hi_u", &[v(v_i16([1, 2, 3, 4, -1, -2, 5, -32768]))]), v_i32([65535, 65534, 5, 32768]));
    assert_eq!(call_v128(&mut i, "extend_lo_s", &[v(a8)]), v_i16([127, -128, 100, -100, 1, -1, 0, 50]));
    assert_eq!(
        call_v128(&mut i, "extmul", &[v(v_i16([9, 9, 9, 9, -32768, 32767, -2, 3])), v(v_i16([9, 9, 9, 9, -32768, 32767, 5, -7]))]),
        v_i32([1 << 30, 32767 * 32767, -10, -21])
    );
    assert_eq!(call_v128(&mut i, "extadd", &[v(a8)]), v_i16([-1, 0, 0, 50, -1, 0, 0, 50]));
    assert_eq!(
        call_v128(&mut i, "dot", &[v(v_i16([-32768, -32768, 1, 2, 3, 4, -5, 6])), v(v_i16([-32768, -32768, 10, 20, -3, 4, 5, 6]))]),
        v_i32([i32::MIN, 50, 7, 11])
    );
    assert_eq!(
        call_v128(&mut i, "q15", &[v(v_i16([-32768, 16384, 32767, 1, -1, 0, 100, -32768])), v(v_i16([-32768, 16384, 32767, 1, 1, 5, 16384, 32767]))]),
        v_i16([32767, 8192, 32766, 0, 0, 0, 50, -32767])
    );
    assert_eq!(call_v128(&mut i, "popcnt", &[v(a8)]), v_i8([7, 1, 3, 4, 1, 8, 0, 3, 7, 1, 3, 4, 1, 8, 0, 3]));
    assert_eq!(call_v128(&mut i, "abs32", &[v(v_i32([-1, 1, i32::MIN, 0]))]), v_i32([1, 1, i32::MIN, 0]));
    assert_eq!(call_i32(&mut i, "bitmask8", &[v(a8)]), 0b0010_1010_0010_1010);
    assert_eq!(call_i32(&mut i, "bitmask64", &[v(v_i64([-1, 1]))]), 1);
    assert_eq!(call_i32(&mut i, "alltrue16", &[v(v_i16([1, 2, 3, 4, 5, 6, 7, 8]))]), 1);
    assert_eq!(call_i32(&mut i, "alltrue16", &[v(v_i16([1, 2, 3, 0, 5, 6, 7, 8]))]), 0);
    assert_eq!(call_i32(&mut i, "anytrue", &[v(0)]), 0);
    assert_eq!(call_i32(&mut i, "anytrue", &[v(1 << 100)]), 1);
    assert_eq!(call_v128(&mut i, "bitselect", &[v(0xffff_0000), v(0x0000_ffff), v(0xff00_ff00)]), 0xff00_00ff);
    assert_eq!(call_v128(&mut i, "andnot", &[v(0xffff), v(0x0ff0)]), 0xf00f);
    assert_eq!(
        call_v128(&mut i, "lt_u8", &[v(a8), v(b8)]),
        v_i8([0, -1, 0, 0, 0, 0, 0, -1, 0, 0, 0, -1, -1, 0, 0, -1])
    );
    assert_eq!(call_v128(&mut i, "ge_s64", &[v(v_i64([-1, 5])), v(v_i64([0, 5]))]), v_i64([0, -1]));
    // floats: arithmetic canonicalises NaNs, pmin/pmax/neg preserve payloads
    let nanp = f32::from_bits(0xffa1_2345);
    let fa = v_f32([1.5, nanp, -0.0, f32::INFINITY]);
    let fb = v_f32([2.25, 1.0, 0.0, f32::NEG_INFINITY]);
    assert_eq!(call_v128(&mut i, "fadd", &[v(fa), v(fb)]), v_i32([3.75f32.to_bits() as i32, 0x7fc0_0000, 0, 0x7fc0_0000]));
    assert_eq!(
        call_v128(&mut i, "fmin", &[v(fa), v(fb)]),
        v_i32([1.5f32.to_bits() as i32, 0x7fc0_0000, 0x8000_0000u32 as i32, f32::NEG_INFINITY.to_bits() as i32])
    );
    // pmin(a,b) = b < a ? b : a
    assert_eq!(
        call_v128(&mut i, "fpmin", &[v(fa), v(fb)]),
        v_i32([1.5f32.to_bits() as i32, 0xffa1_2345u32 as i32, 0x8000_0000u32 as i32, f32::NEG_INFINITY.to_bits() as i32])
    );
    assert_eq!(
        call_v128(&mut i, "fpmin", &[v(fb), v(fa)]),
        v_i32([1.5f32.to_bits() as i32, 1.0f32.to_bits() as i32, 0, f32::NEG_INFINITY.to_bits() as i32])
    );
    let dn = f64::from_bits(0x7ff4_0000_0000_0001);
    assert_eq!(call_v128(&mut i, "dpmax", &[v(v_f64([dn, 1.0])), v(v_f64([2.0, 3.0]))]), v_f64([dn, 3.0]));
    assert_eq!(call_v128(&mut i, "dpmax", &[v(v_f64([2.0, -0.0])), v(v_f64([dn, 0.0]))]), v_f64([2.0, -0.0]));
    assert_eq!(call_v128(&mut i, "dneg", &[v(v_f64([dn, -0.0]))]), v_i64([0xfff4_0000_0000_0001u64 as i64, 0]));
    assert_eq!(call_v128(&mut i, "dsqrt", &[v(v_f64([9.0, -1.0]))]), v_i64([3.0f64.to_bits() as i64, 0x7ff8_0000_0000_0000]));
    assert_eq!(call_v128(&mut i, "fnearest", &[v(v_f32([0.5, 1.5, -2.5, 2.5000002]))]), v_f32([0.0, 2.0, -2.0, 3.0]));
    assert_eq!(call_v128(&mut i, "flt", &[v(fa), v(fb)]), v_i32([-1, 0, 0, 0]));
    assert_eq!(
        call_v128(&mut i, "trunc_sat_s", &[v(v_f32([f32::NAN, 3e9, -3e9, -1.9]))]),
        v_i32([0, i32::MAX, i32::MIN, -1])
    );
    assert_eq!(call_v128(&mut i, "trunc_sat_u_zero", &[v(v_f64([-5.0, 4294967295.9]))]), v_i32([0, -1, 0, 0]));
    assert_eq!(call_v128(&mut i, "convert_u", &[v(v_i32([-1, 0, 1, 16777217]))]), v_f32([4294967296.0, 0.0, 1.0, 16777216.0]));
    assert_eq!(call_v128(&mut i, "convert_low_s", &[v(v_i32([-1, 7, 99, 99]))]), v_f64([-1.0, 7.0]));
    assert_eq!(
        call_v128(&mut i, "demote", &[v(v_f64([1e300, dn]))]),
        v_i32([f32::INFINITY.to_bits() as i32, 0x7fc0_0000, 0, 0])
    );
    assert_eq!(
        call_v128(&mut i, "promote", &[v(v_f32([1.5, nanp, 9.0, 9.0]))]),
        v_i64([1.5f64.to_bits() as i64, 0x7ff8_0000_0000_0000])
    );
    assert_eq!(call_v128(&mut i, "splat8", &[i32v(0x1ab)]), v_i8([0xabu8 as i8; 16]));
    assert_eq!(call_v128(&mut i, "splatf64", &[Val::F64(0x7ff4_0000_0000_0001)]), v_i64([0x7ff4_0000_0000_0001; 2]));
    assert_eq!(call_i32(&mut i, "ext8s", &[v(v_i8([0, 0, 0, 0, 0, 0, 0, 0, 0, 0, 0, 0, 0, 0, 0, -3]))]), -3);
    assert_eq!(call_i32(&mut i, "ext16u", &[v(v_i16([0, 0, 0, 0, 0, 0, 0, -3]))]), 65533);
    assert_eq!(call_f32(&mut i, "extf32", &[v(v_i32([0, 0, 0, 0xffa1_2345u32 as i32]))]), 0xffa1_2345);
    assert_eq!(call_i64(&mut i, "ext64", &[v(v_i64([1, -2]))]), -2);
    assert_eq!(call_v128(&mut i, "rep16", &[v(v_i16([1, 2, 3, 4, 5, 6, 7, 8])), i32v(0x1_ffff)]), v_i16([1, 2, -1, 4, 5, 6, 7, 8]));
    assert_eq!(
        call_v128(&mut i, "repf64", &[v(v_i64([1, 2])), Val::F64(0xfff4_0000_0000_0009)]),
        v_i64([1, 0xfff4_0000_0000_0009u64 as i64])
    );
    // memory
    assert_eq!(call_v128(&mut i, "load", &[i32v(0)]), iota);
    assert_eq!(i.call_export("load", &[i32v(65521)]), trap(Trap::MemOutOfBounds));
    assert_eq!(call_v128(&mut i, "load8x8_s", &[i32v(12)]), v_i16([12, 13, 14, 15, -128, -1, 127, -2]));
    assert_eq!(call_v128(&mut i, "load16x4_u", &[i32v(14)]), v_i32([0x0f0e, 0xff80, 0xfe7f, 0]));
    assert_eq!(call_v128(&mut i, "load32x2_s", &[i32v(12)]), v_i64([0x0f0e0d0c, 0xfe7fff80u32 as i32 as i64]));
    assert_eq!(call_v128(&mut i, "load16_splat", &[i32v(16)]), v_i16([0xff80u16 as i16; 8]));
    assert_eq!(call_v128(&mut i, "load32_zero", &[i32v(16)]), v_i32([0xfe7fff80u32 as i32, 0, 0, 0]));
    assert_eq!(call_v128(&mut i, "load64_zero", &[i32v(8)]), v_i64([0x0f0e0d0c0b0a0908, 0]));
    assert_eq!(i.call_export("load64_zero", &[i32v(65529)]), trap(Trap::MemOutOfBounds));
    assert_eq!(
        call_v128(&mut i, "load8_lane", &[i32v(16), v(iota)]),
        v_i8([0, 1, 2, 3, 4, -128, 6, 7, 8, 9, 10, 11, 12, 13, 14, 15])
    );
    assert_eq!(call_v128(&mut i, "load64_lane", &[i32v(0), v(v_i64([-1, -1]))]), v_i64([-1, 0x0706050403020100]));
    assert_eq!(i.call_export("store", &[i32v(100), v(rev)]), ret(vec![]));
    assert_eq!(call_v128(&mut i, "load", &[i32v(100)]), rev);
    assert_eq!(i.call_export("store", &[i32v(65521), v(rev)]), trap(Trap::MemOutOfBounds));
    assert_eq!(i.call_export("store16_lane", &[i32v(200), v(v_i16([1, 2, 3, 4, 5, 6, 7, 0x1234]))]), ret(vec![]));
    assert_eq!(i.call_export("store32_lane", &[i32v(200), v(v_i32([1, 0x55667788, 3, 4]))]), ret(vec![]));
    assert_eq!(call_i32(&mut i, "l32", &[i32v(200)]), 0x1234);
    assert_eq!(call_i32(&mut i, "l32", &[i32v(204)]), 0x55667788);
    assert_eq!(i.call_export("store16_lane", &[i32v(65535), v(0)]), trap(Trap::MemOutOfBounds));
}

#[test]
fn branches_to_the_function_label() {
    let mut i = mk(WAT_FUNC_LABEL);
    assert_eq!(call_i32(&mut i, "br_top", &[i32v(1)]), 40);
    assert_eq!(call_i32(&mut i, "br_top", &[i32v(0)]), 1 + 2 + 7);
    // index 0 -> $b: carries (20, 30); then drop -> results (7, 20)
    assert_eq!(i.call_export("br_table_top", &[i32v(0)]), ret(vec![i32v(7), i32v(20)]));
    // index 1 -> function label directly with (20, 30)
    assert_eq!(i.call_export("br_table_top", &[i32v(1)]), ret(vec![i32v(20), i32v(30)]));
    assert_eq!(i.call_export("br_table_top", &[i32v(5)]), ret(vec![i32v(7), i32v(20)]));
    assert_eq!(call_i32(&mut i, "br_if_top", &[i32v(1)]), 5);
    assert_eq!(call_i32(&mut i, "br_if_top", &[i32v(0)]), 6);
    assert_eq!(call_i32(&mut i, "loop_result", &[i32v(10)]), 77);
    assert_eq!(i.last_fuel_used(), 1 + 9);
    assert_eq!(call_i32(&mut i, "unreachable_in_dead_code", &[]), 1);
    assert_eq!(call_i32(&mut i, "select_dead", &[]), 3);
}

#[test]
fn legacy_and_unknown_constructs_do_not_break_other_functions() {
    // a module using exception handling (unsupported) in one function only
    let w = wat::parse_str(
        r#"(module
      (tag $t (param i32))
      (func (export "throws") (param i32) (result i32)
        (if (local.get 0) (then (throw $t (i32.const 1))))
        (i32.const 5))
      (func (export "try_table") (result i32)
        (block $h (result i32)
          (try_table (result i32) (catch $t $h) (i32.const 1))))
      (func (export "fine") (result i32) (i32.const 9))
      (func (export "ref_as_non_null") (param funcref) (result i32)
        (ref.is_null (ref.as_non_null (local.get 0))))
    )"#,
    )
    .unwrap();
    let mut i = Instance::instantiate(&w, Box::new(DefaultHost), Limits::default()).unwrap();
    assert_eq!(call_i32(&mut i, "fine", &[]), 9);
    assert_eq!(call_i32(&mut i, "throws", &[i32v(0)]), 5);
    assert_eq!(i.call_export("throws", &[i32v(1)]), Outcome::Unsupported("Throw".into()));
    assert_eq!(i.call_export("try_table", &[]), Outcome::Unsupported("TryTable".into()));
    assert_eq!(i.call_export("ref_as_non_null", &[Val::FuncRef(None)]), Outcome::Unsupported("RefAsNonNull".into()));
}

#[test]
fn start_function_may_be_an_import_and_trace_is_kept() {
    let w = r#"(module (import "env" "init" (func $init)) (start $init)
        (func (export "f") (result i32) (i32.const 1)))"#;
    let mut i = mk(w);
    let t = i.take_host_trace();
    assert_eq!(t, vec![HostCall { module: "env".into(), field: "init".into(), args: vec![], results: vec![] }]);
    assert_eq!(i.stats().host_calls, 1);
    assert_eq!(call_i32(&mut i, "f", &[]), 1);
}

#[test]
fn many_locals_and_large_frames() {
    // 40_000 locals per frame with 2000 deep recursion would need 80M slots: StackExhausted, not OOM
    let mut i = mk(r#"(module
      (func $r (export "r") (param i32) (result i32) (local i64 i64 i64 i64 i64 i64 i64 i64)
        (if (result i32) (local.get 0) (then (call $r (i32.sub (local.get 0) (i32.const 1)))) (else (i32.const 1))))
    )"#);
    assert_eq!(call_i32(&mut i, "r", &[i32v(1000)]), 1);
    let mut body = String::from("(module (func $r (export \"r\") (param i32) (result i32) (local");
    for _ in 0..40_000 {
        body.push_str(" i64");
    }
    body.push_str(") (if (result i32) (local.get 0) (then (call $r (i32.sub (local.get 0) (i32.const 1)))) (else (i32.const 1)))))");
    let mut i = mk(&body);
    assert_eq!(call_i32(&mut i, "r", &[i32v(100)]), 1);
    assert_eq!(i.call_export("r", &[i32v(1900)]), trap(Trap::StackExhausted));
}

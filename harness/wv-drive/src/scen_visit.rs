//! Scenario "visit" (C16): run the immutable in-order traversal and the
//! mutable pre-order traversal over every local function with recording
//! visitors - one kind that overrides only the id hooks (so the generated
//! default per-instruction hooks run) and one that overrides every hook - and
//! log every callback as a token. Each callback also samples the address of a
//! local variable, so the call-stack span of the traversal is observable.
//!
//! Tokens: S/E sequence start/end, I instruction, y<sig> type of a multi-value sequence,
//!         F G T M D X L <input index|-> entity operands, Y<sig> type operand.

use crate::probe::{self, InputIds};
use crate::util::guarded;
use std::collections::HashMap;
use walrus::ir::*;
use walrus::*;
use wv_gen::log::Rec;

struct Ctx<'a> {
    types: &'a HashMap<TypeId, String>,
    ids: &'a InputIds,
    locals: &'a HashMap<LocalId, u32>,
    /// upper bound for the event log of one traversal of the function at hand
    cap: usize,
}

struct Recorder<'a> {
    cx: &'a Ctx<'a>,
    out: String,
    lo: usize,
    hi: usize,
    in_seq_header: bool,
    /// upper bound for the event log
    cap: usize,
}

impl<'a> Recorder<'a> {
    fn new(cx: &'a Ctx<'a>) -> Recorder<'a> {
        Recorder { cx, out: String::new(), lo: usize::MAX, hi: 0, in_seq_header: false, cap: cx.cap }
    }
    #[inline(never)]
    fn sample(&mut self) {
        let probe = 0u8;
        let a = &probe as *const u8 as usize;
        self.lo = self.lo.min(a);
        self.hi = self.hi.max(a);
    }
    fn tok(&mut self, t: &str) {
        // a traversal that goes round in circles is stopped (and reported as a panic of the traversal)
        if self.out.len() > self.cap {
            panic!("the traversal reports more events than the function can have ({} bytes of event log for a cap of {})", self.out.len(), self.cap);
        }
        self.sample();
        self.out.push_str(t);
        self.out.push(' ');
    }
    fn pos<T: PartialEq>(v: &[T], x: &T) -> String {
        v.iter().position(|y| y == x).map(|p| p.to_string()).unwrap_or_else(|| "-".into())
    }
    fn ty(&mut self, t: &TypeId) {
        // types are reported by signature (walrus merges identical input types)
        let s = self.cx.types.get(t).cloned().unwrap_or_else(|| "?".into());
        if self.in_seq_header {
            self.tok(&format!("y{}", s));
        } else {
            self.tok(&format!("Y{}", s));
        }
    }
    fn local(&mut self, l: &LocalId) {
        let s = self.cx.locals.get(l).map(|i| i.to_string()).unwrap_or_else(|| "-".into());
        self.tok(&format!("L{}", s));
    }
}

macro_rules! id_hooks {
    () => {
        fn visit_local_id(&mut self, x: &LocalId) { self.local(x); }
        fn visit_memory_id(&mut self, x: &MemoryId) { let s = Self::pos(&self.cx.ids.memories, x); self.tok(&format!("M{}", s)); }
        fn visit_table_id(&mut self, x: &TableId) { let s = Self::pos(&self.cx.ids.tables, x); self.tok(&format!("T{}", s)); }
        fn visit_global_id(&mut self, x: &GlobalId) { let s = Self::pos(&self.cx.ids.globals, x); self.tok(&format!("G{}", s)); }
        fn visit_function_id(&mut self, x: &FunctionId) { let s = Self::pos(&self.cx.ids.funcs, x); self.tok(&format!("F{}", s)); }
        fn visit_data_id(&mut self, x: &DataId) { let s = Self::pos(&self.cx.ids.data, x); self.tok(&format!("D{}", s)); }
        fn visit_element_id(&mut self, x: &ElementId) { let s = Self::pos(&self.cx.ids.elements, x); self.tok(&format!("X{}", s)); }
        fn visit_type_id(&mut self, x: &TypeId) { self.ty(x); }
    };
}
macro_rules! id_hooks_mut {
    () => {
        fn visit_local_id_mut(&mut self, x: &mut LocalId) { self.0.local(x); }
        fn visit_memory_id_mut(&mut self, x: &mut MemoryId) { let s = Recorder::pos(&self.0.cx.ids.memories, x); self.0.tok(&format!("M{}", s)); }
        fn visit_table_id_mut(&mut self, x: &mut TableId) { let s = Recorder::pos(&self.0.cx.ids.tables, x); self.0.tok(&format!("T{}", s)); }
        fn visit_global_id_mut(&mut self, x: &mut GlobalId) { let s = Recorder::pos(&self.0.cx.ids.globals, x); self.0.tok(&format!("G{}", s)); }
        fn visit_function_id_mut(&mut self, x: &mut FunctionId) { let s = Recorder::pos(&self.0.cx.ids.funcs, x); self.0.tok(&format!("F{}", s)); }
        fn visit_data_id_mut(&mut self, x: &mut DataId) { let s = Recorder::pos(&self.0.cx.ids.data, x); self.0.tok(&format!("D{}", s)); }
        fn visit_element_id_mut(&mut self, x: &mut ElementId) { let s = Recorder::pos(&self.0.cx.ids.elements, x); self.0.tok(&format!("X{}", s)); }
        fn visit_type_id_mut(&mut self, x: &mut TypeId) { self.0.ty(x); }
    };
}

/// immutable, overrides everything that carries information
struct ImmAll<'a>(Recorder<'a>);
impl<'a, 'i> Visitor<'i> for ImmAll<'a> {
    fn start_instr_seq(&mut self, _: &'i InstrSeq) {
        self.0.tok("S");
        self.0.in_seq_header = true;
    }
    fn end_instr_seq(&mut self, _: &'i InstrSeq) {
        self.0.in_seq_header = false;
        self.0.tok("E");
    }
    fn visit_instr(&mut self, _: &'i Instr, _: &'i InstrLocId) {
        self.0.in_seq_header = false;
        self.0.tok("I");
    }
    fn visit_local_id(&mut self, x: &LocalId) { self.0.local(x); }
    fn visit_memory_id(&mut self, x: &MemoryId) { let s = Recorder::pos(&self.0.cx.ids.memories, x); self.0.tok(&format!("M{}", s)); }
    fn visit_table_id(&mut self, x: &TableId) { let s = Recorder::pos(&self.0.cx.ids.tables, x); self.0.tok(&format!("T{}", s)); }
    fn visit_global_id(&mut self, x: &GlobalId) { let s = Recorder::pos(&self.0.cx.ids.globals, x); self.0.tok(&format!("G{}", s)); }
    fn visit_function_id(&mut self, x: &FunctionId) { let s = Recorder::pos(&self.0.cx.ids.funcs, x); self.0.tok(&format!("F{}", s)); }
    fn visit_data_id(&mut self, x: &DataId) { let s = Recorder::pos(&self.0.cx.ids.data, x); self.0.tok(&format!("D{}", s)); }
    fn visit_element_id(&mut self, x: &ElementId) { let s = Recorder::pos(&self.0.cx.ids.elements, x); self.0.tok(&format!("X{}", s)); }
    fn visit_type_id(&mut self, x: &TypeId) { self.0.ty(x); }
}

/// immutable, only the id hooks
struct ImmIds<'a> {
    cx: &'a Ctx<'a>,
    r: Recorder<'a>,
}
impl<'a> ImmIds<'a> {
    fn pos<T: PartialEq>(v: &[T], x: &T) -> String { Recorder::pos(v, x) }
    fn tok(&mut self, t: &str) { self.r.tok(t) }
    fn local(&mut self, l: &LocalId) { self.r.local(l) }
    fn ty(&mut self, t: &TypeId) {
        let s = self.cx.types.get(t).cloned().unwrap_or_else(|| "?".into());
        self.r.tok(&format!("Y{}", s));
    }
}
impl<'a, 'i> Visitor<'i> for ImmIds<'a> {
    id_hooks!();
}

/// mutable, only the id hooks: the generated default per-instruction hooks run
struct MutIds<'a>(Recorder<'a>);
impl<'a> VisitorMut for MutIds<'a> {
    id_hooks_mut!();
}

/// mutable, every hook overridden
struct MutAll<'a>(Recorder<'a>);
macro_rules! empty_instr_hooks {
    ($( $m:ident $t:ident ),* $(,)?) => { $( fn $m(&mut self, _: &mut $t) {} )* };
}
impl<'a> VisitorMut for MutAll<'a> {
    fn start_instr_seq_mut(&mut self, _: &mut InstrSeq) {
        self.0.tok("S");
        self.0.in_seq_header = true;
    }
    fn end_instr_seq_mut(&mut self, _: &mut InstrSeq) {
        self.0.in_seq_header = false;
        self.0.tok("E");
    }
    fn visit_instr_mut(&mut self, _: &mut Instr, _: &mut InstrLocId) {
        self.0.in_seq_header = false;
        self.0.tok("I");
    }
    id_hooks_mut!();
    empty_instr_hooks!(
        visit_block_mut Block, visit_loop_mut Loop, visit_call_mut Call, visit_call_indirect_mut CallIndirect, visit_local_get_mut LocalGet,
        visit_local_set_mut LocalSet, visit_local_tee_mut LocalTee, visit_global_get_mut GlobalGet, visit_global_set_mut GlobalSet,
        visit_const_mut Const, visit_tern_op_mut TernOp, visit_binop_mut Binop, visit_unop_mut Unop, visit_select_mut Select,
        visit_unreachable_mut Unreachable, visit_br_mut Br, visit_br_if_mut BrIf, visit_if_else_mut IfElse, visit_br_table_mut BrTable,
        visit_drop_mut Drop, visit_return_mut Return, visit_memory_size_mut MemorySize, visit_memory_grow_mut MemoryGrow,
        visit_memory_init_mut MemoryInit, visit_data_drop_mut DataDrop, visit_memory_copy_mut MemoryCopy, visit_memory_fill_mut MemoryFill,
        visit_load_mut Load, visit_store_mut Store, visit_atomic_rmw_mut AtomicRmw, visit_cmpxchg_mut Cmpxchg,
        visit_atomic_notify_mut AtomicNotify, visit_atomic_wait_mut AtomicWait, visit_atomic_fence_mut AtomicFence,
        visit_table_get_mut TableGet, visit_table_set_mut TableSet, visit_table_grow_mut TableGrow, visit_table_size_mut TableSize,
        visit_table_fill_mut TableFill, visit_ref_null_mut RefNull, visit_ref_is_null_mut RefIsNull, visit_ref_func_mut RefFunc,
        visit_v128_bitselect_mut V128Bitselect, visit_i8x16_swizzle_mut I8x16Swizzle, visit_i8x16_shuffle_mut I8x16Shuffle,
        visit_load_simd_mut LoadSimd, visit_table_init_mut TableInit, visit_elem_drop_mut ElemDrop, visit_table_copy_mut TableCopy,
        visit_return_call_mut ReturnCall, visit_return_call_indirect_mut ReturnCallIndirect,
    );
}

fn span(r: &Recorder) -> u64 {
    if r.hi >= r.lo {
        (r.hi - r.lo) as u64
    } else {
        0
    }
}

/// Which local functions to traverse: all if the module is small, else the first few.
pub fn run(input: &[u8], rec: &mut Rec) {
    // traversal of a 10^5-deep function must not depend on the thread's stack size; give plenty so a
    // recursive implementation would show up as measured growth instead of a crash
    let input = input.to_vec();
    let mut out = Rec::new("tmp");
    let h = std::thread::Builder::new().stack_size(256 * 1024 * 1024).spawn(move || {
        crate::util::install_panic_hook();
        let mut rec = Rec::new("tmp");
        run_inner(&input, &mut rec);
        rec
    });
    if let Ok(h) = h {
        if let Ok(r) = h.join() {
            out = r;
        }
    }
    for (k, v) in out.fields {
        rec.fields.push((k, v));
    }
}

fn run_inner(input: &[u8], rec: &mut Rec) {
    let onparse = std::sync::Arc::new(std::sync::Mutex::new((InputIds::default(), HashMap::<LocalId, u32>::new())));
    let op2 = onparse.clone();
    let mut cfg = ModuleConfig::new();
    cfg.generate_producers_section(false);
    cfg.on_parse(move |m, ids| {
        let mut log = probe::OnParseLog::default();
        probe::observe_on_parse(m, ids, &mut log, false);
        let mut locals = HashMap::new();
        for f in &log.ids.funcs {
            let mut j = 0;
            while let Ok(l) = ids.get_local(*f, j) {
                locals.insert(l, j);
                j += 1;
            }
        }
        *op2.lock().unwrap() = (log.ids, locals);
        Ok(())
    });
    let mut m = match guarded(|| cfg.parse(input)) {
        Ok(Ok(m)) => m,
        Ok(Err(_)) => {
            rec.push_s("parse", "err");
            return;
        }
        Err(p) => {
            rec.push_s("parse", "panic");
            rec.push_s("panic.parse", &p);
            return;
        }
    };
    rec.push_s("parse", "ok");
    let (ids, locals) = onparse.lock().unwrap().clone();
    let fids: Vec<FunctionId> = m.funcs.iter_local().map(|(id, _)| id).collect();
    let types: HashMap<TypeId, String> = m.types.iter().map(|t| (t.id(), probe::sig(&m, t.id()))).collect();
    for fid in fids.iter().take(64) {
        let idx = ids.funcs.iter().position(|x| x == fid).map(|p| p.to_string()).unwrap_or_else(|| "-".into());
        // size of the function by the harness's own walk: no traversal may report much more than that
        let cap = {
            let f = m.funcs.get(*fid).kind.unwrap_local();
            let (mut n, mut todo) = (0usize, vec![f.entry_block()]);
            while let Some(q) = todo.pop() {
                n += 2;
                for (i, _) in &f.block(q).instrs {
                    n += 1;
                    match i {
                        Instr::Block(b) => todo.push(b.seq),
                        Instr::Loop(b) => todo.push(b.seq),
                        Instr::IfElse(b) => {
                            todo.push(b.consequent);
                            todo.push(b.alternative);
                        }
                        _ => {}
                    }
                }
            }
            // every event is at most ~40 bytes of log; the edited variants add one instruction per sequence
            (2 * n + 64) * 48
        };
        let cx = Ctx { types: &types, ids: &ids, locals: &locals, cap };
        // immutable traversals
        {
            let f = m.funcs.get(*fid).kind.unwrap_local();
            let mut v = ImmAll(Recorder::new(&cx));
            match guarded(|| dfs_in_order(&mut v, f, f.entry_block())) {
                Ok(()) => {
                    rec.push_s(&format!("imm_all.{}", idx), &v.0.out);
                    rec.push_n(&format!("span.imm_all.{}", idx), span(&v.0));
                }
                Err(p) => {
                    // the first traversal of this function failed (or went round in circles): the further ones,
                    // which have no event cap of their own, are not attempted
                    rec.push_s(&format!("panic.imm_all.{}", idx), &p);
                    continue;
                }
            }
            let mut v = ImmIds { cx: &cx, r: Recorder::new(&cx) };
            match guarded(|| dfs_in_order(&mut v, f, f.entry_block())) {
                Ok(()) => {
                    rec.push_s(&format!("imm_ids.{}", idx), &v.r.out);
                    rec.push_n(&format!("span.imm_ids.{}", idx), span(&v.r));
                }
                Err(p) => rec.push_s(&format!("panic.imm_ids.{}", idx), &p),
            }
        }
        // a traversal that starts further traversals from inside its callbacks (of every nested sequence it meets):
        // the outer one must still report everything, the inner ones exactly their own sub-tree
        {
            struct Count(u64);
            impl<'i> Visitor<'i> for Count {
                fn visit_instr(&mut self, _: &'i Instr, _: &'i InstrLocId) {
                    self.0 += 1;
                }
            }
            struct Nested<'a, 'f> {
                r: Recorder<'a>,
                f: &'f LocalFunction,
                inner: u64,
                mismatch: u64,
            }
            impl<'a, 'f> Nested<'a, 'f> {
                fn sub(&mut self, s: InstrSeqId) {
                    let mut c = Count(0);
                    dfs_in_order(&mut c, self.f, s);
                    self.inner += c.0;
                    // what a traversal started at `s` has to cover: the harness's own walk over the sequences
                    let mut own = 0u64;
                    let mut todo = vec![s];
                    while let Some(q) = todo.pop() {
                        for (i, _) in &self.f.block(q).instrs {
                            own += 1;
                            match i {
                                Instr::Block(b) => todo.push(b.seq),
                                Instr::Loop(b) => todo.push(b.seq),
                                Instr::IfElse(b) => {
                                    todo.push(b.consequent);
                                    todo.push(b.alternative);
                                }
                                _ => {}
                            }
                        }
                    }
                    if own != c.0 {
                        self.mismatch += 1;
                    }
                }
            }
            impl<'a, 'f, 'i> Visitor<'i> for Nested<'a, 'f> {
                fn start_instr_seq(&mut self, _: &'i InstrSeq) {
                    self.r.tok("S");
                }
                fn end_instr_seq(&mut self, _: &'i InstrSeq) {
                    self.r.tok("E");
                }
                fn visit_instr(&mut self, _: &'i Instr, _: &'i InstrLocId) {
                    self.r.tok("I");
                }
                fn visit_block(&mut self, b: &Block) {
                    self.sub(b.seq);
                }
                fn visit_loop(&mut self, b: &Loop) {
                    self.sub(b.seq);
                }
                fn visit_if_else(&mut self, b: &IfElse) {
                    self.sub(b.consequent);
                    self.sub(b.alternative);
                }
            }
            let f = m.funcs.get(*fid).kind.unwrap_local();
            let mut v = Nested { r: Recorder::new(&cx), f, inner: 0, mismatch: 0 };
            // (quadratic in the nesting depth: small functions only)
            let mut size = Count(0);
            dfs_in_order(&mut size, f, f.entry_block());
            if size.0 <= 2000 {
            match guarded(|| dfs_in_order(&mut v, f, f.entry_block())) {
                Ok(()) => {
                    rec.push_s(&format!("imm_nested.{}", idx), &v.r.out);
                    rec.push_n(&format!("imm_nested.inner.{}", idx), v.inner);
                    rec.push_n(&format!("imm_nested.mismatch.{}", idx), v.mismatch);
                }
                Err(p) => rec.push_s(&format!("panic.imm_nested.{}", idx), &p),
            }
            }
        }
        // mutable traversals (the visitors do not change anything)
        {
            let cx2 = Ctx { types: &types, ids: &ids, locals: &locals, cap };
            let mut v = MutAll(Recorder::new(&cx2));
            let fm = m.funcs.get_mut(*fid).kind.unwrap_local_mut();
            let e = fm.entry_block();
            match guarded(|| dfs_pre_order_mut(&mut v, fm, e)) {
                Ok(()) => {
                    rec.push_s(&format!("mut_all.{}", idx), &v.0.out);
                    rec.push_n(&format!("span.mut_all.{}", idx), span(&v.0));
                }
                Err(p) => rec.push_s(&format!("panic.mut_all.{}", idx), &p),
            }
            let mut v = MutIds(Recorder::new(&cx2));
            let fm = m.funcs.get_mut(*fid).kind.unwrap_local_mut();
            match guarded(|| dfs_pre_order_mut(&mut v, fm, e)) {
                Ok(()) => {
                    rec.push_s(&format!("mut_ids.{}", idx), &v.0.out);
                    rec.push_n(&format!("span.mut_ids.{}", idx), span(&v.0));
                }
                Err(p) => rec.push_s(&format!("panic.mut_ids.{}", idx), &p),
            }
        }
        // a visitor that writes: every type id it is handed is replaced by a marker type; an immutable
        // traversal afterwards must see the marker wherever it saw a type before (function left as it was
        // afterwards by writing the old ids back in the same order)
        {
            struct Rewrite {
                to: TypeId,
                old: Vec<TypeId>,
            }
            impl VisitorMut for Rewrite {
                fn visit_type_id_mut(&mut self, x: &mut TypeId) {
                    self.old.push(*x);
                    *x = self.to;
                }
            }
            struct Restore {
                old: std::collections::VecDeque<TypeId>,
            }
            impl VisitorMut for Restore {
                fn visit_type_id_mut(&mut self, x: &mut TypeId) {
                    if let Some(o) = self.old.pop_front() {
                        *x = o;
                    }
                }
            }
            struct CountTypes {
                marker: TypeId,
                total: u64,
                marked: u64,
            }
            impl<'i> Visitor<'i> for CountTypes {
                fn visit_type_id(&mut self, x: &TypeId) {
                    self.total += 1;
                    if *x == self.marker {
                        self.marked += 1;
                    }
                }
            }
            let marker = m.types.add(&[ValType::F64, ValType::F64, ValType::F64, ValType::F32], &[ValType::F64, ValType::F32]);
            let r = guarded(|| {
                let fm = m.funcs.get_mut(*fid).kind.unwrap_local_mut();
                let e = fm.entry_block();
                let mut before = CountTypes { marker, total: 0, marked: 0 };
                dfs_in_order(&mut before, fm, e);
                let mut w = Rewrite { to: marker, old: vec![] };
                dfs_pre_order_mut(&mut w, fm, e);
                let mut after = CountTypes { marker, total: 0, marked: 0 };
                dfs_in_order(&mut after, fm, e);
                let handed = w.old.len() as u64;
                let mut back = Restore { old: w.old.into_iter().collect() };
                dfs_pre_order_mut(&mut back, fm, e);
                (before.total, before.marked, handed, after.total, after.marked)
            });
            match r {
                Ok((bt, bm, handed, at, am)) => rec.push_s(&format!("rewrite.{}", idx), &format!("{} {} {} {} {}", bt, bm, handed, at, am)),
                Err(p) => rec.push_s(&format!("panic.rewrite.{}", idx), &p),
            }
        }
        // instructions after a terminator: `unreachable` put in front of every sequence through the public API
        // (everything behind it stays part of the function and has to be visited)
        {
            struct Seqs(Vec<InstrSeqId>);
            impl<'i> Visitor<'i> for Seqs {
                fn start_instr_seq(&mut self, s: &'i InstrSeq) {
                    self.0.push(s.id());
                }
            }
            let r = guarded(|| {
                let fm = m.funcs.get_mut(*fid).kind.unwrap_local_mut();
                let e = fm.entry_block();
                let mut sq = Seqs(vec![]);
                dfs_in_order(&mut sq, fm, e);
                for s in &sq.0 {
                    fm.builder_mut().instr_seq(*s).instr_at(0, Unreachable {});
                }
                sq.0.len()
            });
            match r {
                Ok(n) => {
                    rec.push_n(&format!("term.seqs.{}", idx), n as u64);
                    let cx3 = Ctx { types: &types, ids: &ids, locals: &locals, cap };
                    let f = m.funcs.get(*fid).kind.unwrap_local();
                    let mut v = ImmAll(Recorder::new(&cx3));
                    match guarded(|| dfs_in_order(&mut v, f, f.entry_block())) {
                        Ok(()) => rec.push_s(&format!("imm_all_term.{}", idx), &v.0.out),
                        Err(p) => rec.push_s(&format!("panic.imm_all_term.{}", idx), &p),
                    }
                    let mut v = MutAll(Recorder::new(&cx3));
                    let fm = m.funcs.get_mut(*fid).kind.unwrap_local_mut();
                    let e = fm.entry_block();
                    match guarded(|| dfs_pre_order_mut(&mut v, fm, e)) {
                        Ok(()) => rec.push_s(&format!("mut_all_term.{}", idx), &v.0.out),
                        Err(p) => rec.push_s(&format!("panic.mut_all_term.{}", idx), &p),
                    }
                }
                Err(p) => rec.push_s(&format!("panic.term.{}", idx), &p),
            }
        }
    }
}
